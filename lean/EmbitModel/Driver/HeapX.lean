import EmbitModel.Driver.Proto
import EmbitModel.Model.HeapAlias
import EmbitModel.Generated.AliasFacts
/-
  C19 deepened, line protocol for keyed memos under in-place edits of the caller's argument objects
  (Model/HeapAlias.lean).
    memo.keys                       -> ok name:c|a …     the extracted key kinds (copies / aliases), hex names
    memo.trace <kinds> <ops>        kinds: counted list of `c` | `a` (one per method);
                                    ops: counted list of
                                      O          the library builds an object
                                      N c        the caller builds an argument object with contents [c]
                                      E k c      the caller edits ITS argument object k in place: contents now [c]
                                      M i        object i is mutated and its caches cleared
                                      T i m k m' k'   a digest that asks two memos: method m on argument k, m' on k'
                                    answer per op: `s1` if a T answers differently from f(receiver, arguments now), `s0`
                                    if not, `-` for the other ops
-/
namespace Embit.Driver
open Embit Embit.HeapAlias

inductive AOp
  | plain (o : HeapAlias.Op)
  | digest (i m k m' k' : Nat)

def tokKeyKind : TokM KeyKind := do
  let t ← tok
  match t with
  | "c" => pure .copies
  | "a" => pure .aliases
  | _ => failure

def tokAOp : TokM AOp := do
  let t ← tok
  match t with
  | "O" => pure (.plain (.newObj []))
  | "N" => do let c ← tokNat; pure (.plain (.newArg [c]))
  | "E" => do let k ← tokNat; let c ← tokNat; pure (.plain (.editArg k [c]))
  | "M" => do let i ← tokNat; pure (.plain (.mutate i 1))
  | "T" => do
    let i ← tokNat; let m ← tokNat; let k ← tokNat; let m' ← tokNat; let k' ← tokNat
    pure (.digest i m k m' k')
  | _ => failure

def aliasF : Nat → List HeapAlias.Val → List HeapAlias.Val → HeapAlias.Val :=
  fun m recv a => m + 7 * recv.sum + 31 * recv.length + 1000003 * a.sum

def aliasTrace (env : HeapAlias.Env) : HeapAlias.State → List AOp → List String
  | _, [] => []
  | st, .plain o :: ops => "-" :: aliasTrace env (HeapAlias.step env st o) ops
  | st, .digest i m k m' k' :: ops =>
    let stale1 := HeapAlias.answer env st i m k != env.f m (st.recv i) (st.args k)
    let st1 := HeapAlias.step env st (.query i m k)
    let stale2 := HeapAlias.answer env st1 i m' k' != env.f m' (st1.recv i) (st1.args k')
    let st2 := HeapAlias.step env st1 (.query i m' k')
    (if stale1 || stale2 then "s1" else "s0") :: aliasTrace env st2 ops

def handleHeapX (op : String) (args : List String) : Option String :=
  match op with
  | "memo.keys" =>
    some ("ok " ++ (if Gen.Alias.memoKeys.isEmpty then "-" else
      joinToks (Gen.Alias.memoKeys.map fun r => toHexP r.1.toUTF8.toList ++ ":" ++ (if r.2 then "c" else "a"))))
  | "memo.trace" => do
    let (ks, ops) ← runTok (do
      let ks ← tokCounted tokKeyKind
      let ops ← tokCounted tokAOp
      pure (ks, ops)) args
    let env : HeapAlias.Env := { methods := ks, f := aliasF }
    pure ("ok " ++ joinToks (aliasTrace env HeapAlias.init ops))
  | _ => none

end Embit.Driver
