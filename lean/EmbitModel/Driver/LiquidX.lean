import EmbitModel.Driver.Liquid
import EmbitModel.Model.LiquidAddrB58
/-
  Line-protocol ops for the C18 deepening: base58 Liquid addresses.
  `laddr.nets`                         the prefix table the theorems are about (compared with embit's NETWORKS)
  `laddr.p2sh <net> <spk> <pub|None>`  `address(script, blinding_key, network)` for a P2SH script
  `laddr.route <addr>`                 `addr_decode(addr)`: `fee` / `blech32` / `bech32` (branch only) or the result
                                       of the base58 branch (`ok <spk> <pub|None>` / `none`)
  Text travels as hex of its ASCII bytes.
-/
namespace Embit.Driver
open Embit Embit.Model Embit.Model.LAddr

def charsOfHex (t : String) : Option (List Char) := (ofHex t).map (fun b => b.map (fun x => Char.ofNat x.toNat))
def hexOfChars (l : List Char) : String := toHexP (l.map (fun c => UInt8.ofNat c.toNat))
def dsha256 (b : Bytes) : Bytes := Crypto.sha256 (Crypto.sha256 b)

def handleLiquidX (op : String) (args : List String) : Option String :=
  match op with
  | "laddr.nets" =>
    pure ("ok " ++ joinToks (nets.map fun n =>
      n.name ++ ":" ++ toHexP n.p2sh ++ ":" ++ (match n.bp2sh with | some b => toHexP b | none => "None") ++ ":"
        ++ String.ofList n.bech32 ++ ":" ++ (match n.blech32 with | some h => String.ofList h | none => "None")))
  | "laddr.p2sh" => do
    let (nm, s, p) ← runTok (do let nm ← tok; let s ← tokBytes; let p ← tokOptBytes; pure (nm, s, p)) args
    let net ← nets.find? (fun n => n.name == nm)
    match addressP2sh dsha256 net s p with
    | some a => pure ("ok " ++ hexOfChars a)
    | none => pure "none"
  | "laddr.route" => do
    let a ← runTok tok args
    let addr ← if a == "-" then some [] else charsOfHex a
    match addrDecode concreteValidSec dsha256 addr with
    | .fee => pure "fee"
    | .blech32 => pure "blech32"
    | .bech32 => pure "bech32"
    | .base58 (some (sc, pub)) => pure ("ok " ++ toHexP sc ++ " " ++ showOptBytes pub)
    | .base58 none => pure "none"
  | _ => none

end Embit.Driver
