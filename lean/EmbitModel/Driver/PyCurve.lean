import EmbitModel.Driver.Proto
import EmbitModel.Model.PyCurve
import EmbitModel.Crypto.SecpOps
import EmbitModel.Crypto.SecpLawful
/-
  Line-protocol ops for the model of key.py's field / curve arithmetic (Model/PyCurve.lean), C08:
    pycurve.pow b e m | pycurve.modinv a n | pycurve.jacobi n k | pycurve.modsqrt a p
    pycurve.<method> p a b …     methods of `EllipticCurve(p, a, b)`: affine, has_even_y, negate, on_curve,
                                 is_x_coord, lift_x, double, add_mixed, add, mul
    pycurve.set <sec bytes>      `ECPubKey.set` (secp256k1): validity, stored tuple, compressed flag
    lawful.<field> …             the fields of `Crypto.secpLawful`, the record every `py.*` / `contract.*` / `sig.*` / `sign.*`
                                 op (and, bridged, every key op) runs on: add, neg, mul, mul2, ofxy, liftx, invn — compared
                                 by the harness with key.py's own arithmetic (`EcLaws` of this record is a theorem, Props/C08W)
    ecops.<field> …              the same fields of the FORMER record `Crypto.secpOps` (fast affine / Jacobian arithmetic over
                                 `Option (Nat × Nat)`, junk points, no Lean proof) — no other op evaluates it any more
  Integers are decimal (possibly negative), tuples three integers, Python `None` is `None`, booleans True/False;
  `none` = the Python raises.
-/
namespace Embit.Driver
open Embit Embit.Model.PyCurve

def pcInt : TokM Int := do
  let t ← tok
  match t.toInt? with
  | some n => pure n
  | none => failure

def pcPt : TokM JPt := do let x ← pcInt; let y ← pcInt; let z ← pcInt; pure (x, y, z)

def pcCurve : TokM Curve := do let p ← tokNat; let a ← pcInt; let b ← pcInt; pure (Curve.init p a b)

def showPt : JPt → String
  | (x, y, z) => toString x ++ " " ++ toString y ++ " " ++ toString z

def pcBool (b : Bool) : String := if b then "True" else "False"

def ansOptPt : Option (Option JPt) → String
  | none => "none"
  | some none => "ok None"
  | some (some P) => "ok " ++ showPt P

def ansOptInt : Option (Option Int) → String
  | none => "none"
  | some none => "ok None"
  | some (some v) => "ok " ++ toString v

/-- `ECPubKey.set(data)` on secp256k1 -/
def pubkeySet (data : Bytes) : String :=
  match data with
  | pre :: body =>
    if data.length = 65 ∧ pre = 0x04 then
      match setUncompressed secp256k1 (ofBe (body.take 32)) (ofBe (body.drop 32)) with
      | some P => "ok valid " ++ showPt P ++ " False"
      | none => "ok invalid"
    else if data.length = 33 ∧ (pre = 0x02 ∨ pre = 0x03) then
      match setCompressed secp256k1 (pre.toNat % 2 = 1) (ofBe body) with
      | none => "none"
      | some none => "ok invalid"
      | some (some P) => "ok valid " ++ showPt P ++ " True"
    else "ok invalid"
  | [] => "ok invalid"

def handlePyCurve (op : String) (args : List String) : Option String :=
  if !op.startsWith "pycurve." then none else
  match (op.drop 8).toString with
  | "pow" => do
    let (b, e, m) ← runTok (do let b ← pcInt; let e ← tokNat; let m ← tokNat; pure (b, e, m)) args
    pure ("ok " ++ toString (powMod b e m))
  | "modinv" => do
    let (a, n) ← runTok (do let a ← pcInt; let n ← pcInt; pure (a, n)) args
    pure (ansOptInt (some (modinv a n)))
  | "jacobi" => do
    let (n, k) ← runTok (do let n ← pcInt; let k ← pcInt; pure (n, k)) args
    -- a non-positive k fails the assertion
    pure (if k ≤ 0 then "none" else match jacobiSymbol n k.toNat with
      | some j => "ok " ++ toString j
      | none => "none")
  | "modsqrt" => do
    let (a, p) ← runTok (do let a ← pcInt; let p ← tokNat; pure (a, p)) args
    pure (ansOptInt (modsqrt a p))
  | "affine" => do
    let (C, P) ← runTok (do let C ← pcCurve; let P ← pcPt; pure (C, P)) args
    pure (ansOptPt (affine C P))
  | "has_even_y" => do
    let (C, P) ← runTok (do let C ← pcCurve; let P ← pcPt; pure (C, P)) args
    pure (match hasEvenY C P with | some b => "ok " ++ pcBool b | none => "none")
  | "negate" => do
    let (C, P) ← runTok (do let C ← pcCurve; let P ← pcPt; pure (C, P)) args
    pure ("ok " ++ showPt (negate C P))
  | "on_curve" => do
    let (C, P) ← runTok (do let C ← pcCurve; let P ← pcPt; pure (C, P)) args
    pure ("ok " ++ pcBool (onCurve C P))
  | "is_x_coord" => do
    let (C, x) ← runTok (do let C ← pcCurve; let x ← pcInt; pure (C, x)) args
    pure (match isXCoord C x with | some b => "ok " ++ pcBool b | none => "none")
  | "lift_x" => do
    let (C, x) ← runTok (do let C ← pcCurve; let x ← pcInt; pure (C, x)) args
    pure (ansOptPt (liftX C x))
  | "double" => do
    let (C, P) ← runTok (do let C ← pcCurve; let P ← pcPt; pure (C, P)) args
    pure ("ok " ++ showPt (double C P))
  | "add_mixed" => do
    let (C, P, Q) ← runTok (do let C ← pcCurve; let P ← pcPt; let Q ← pcPt; pure (C, P, Q)) args
    pure (match addMixedChecked C P Q with | some R => "ok " ++ showPt R | none => "none")
  | "add" => do
    let (C, P, Q) ← runTok (do let C ← pcCurve; let P ← pcPt; let Q ← pcPt; pure (C, P, Q)) args
    pure ("ok " ++ showPt (add C P Q))
  | "mul" => do
    let (C, ps) ← runTok (do
      let C ← pcCurve
      let ps ← tokCounted (do let P ← pcPt; let n ← tokNat; pure (P, n))
      pure (C, ps)) args
    pure ("ok " ++ showPt (mul C ps))
  | "set" => do
    let b ← runTok tokBytes args
    pure (pubkeySet b)
  | _ => none

/-- a point of `Crypto.secpOps`: `inf` or `x y` -/
def ecPt : TokM (Option (Nat × Nat)) := do
  let t ← tok
  if t == "inf" then pure none else
  match t.toNat? with
  | none => failure
  | some x => do let y ← tokNat; pure (some (x, y))

def showEcPt : Option (Nat × Nat) → String
  | none => "ok inf"
  | some (x, y) => "ok " ++ toString x ++ " " ++ toString y

/-- the fields of a curve record `E` on protocol points (`rd` reads a protocol value as a point of `E`) -/
def ecOpsOver (E : EcOps) (rd : Option (Nat × Nat) → Option E.Pt) (fn : String) (args : List String) : Option String :=
  let pt : TokM E.Pt := do
    let q ← ecPt
    match rd q with
    | some P => pure P
    | none => failure
  match fn with
  | "add" => do
    let (P, Q) ← runTok (do let P ← pt; let Q ← pt; pure (P, Q)) args
    pure (showEcPt (E.xy (E.add P Q)))
  | "neg" => do
    let P ← runTok pt args
    pure (showEcPt (E.xy (E.neg P)))
  | "mul" => do
    let (k, P) ← runTok (do let k ← tokNat; let P ← pt; pure (k, P)) args
    pure (showEcPt (E.xy (E.mul k P)))
  | "mul2" => do
    -- `u1·G + u2·P` as the model of `verify_ecdsa` writes it
    let (a, b, P) ← runTok (do let a ← tokNat; let b ← tokNat; let P ← pt; pure (a, b, P)) args
    pure (showEcPt (E.xy (E.add (E.mul a E.g) (E.mul b P))))
  | "ofxy" => do
    let (x, y) ← runTok (do let x ← tokNat; let y ← tokNat; pure (x, y)) args
    pure (match E.ofXY x y with | none => "none" | some P => showEcPt (E.xy P))
  | "liftx" => do
    let x ← runTok tokNat args
    pure (match E.liftX x with | none => "none" | some P => showEcPt (E.xy P))
  | "invn" => do
    let a ← runTok tokNat args
    pure ("ok " ++ toString (E.invN a))
  | _ => none

def handleEcOps (op : String) (args : List String) : Option String :=
  if op.startsWith "ecops." then ecOpsOver Embit.Crypto.secpOps some (op.drop 6).toString args
  else if op.startsWith "lawful." then
    ecOpsOver Embit.Crypto.secpLawful Embit.Crypto.SecpLawful.ofPt (op.drop 7).toString args
  else none

end Embit.Driver
