import EmbitModel.Basic.Bytes
/-
  Line-protocol helpers: a token reader (state = remaining tokens) and printers.
  Empty byte strings are written `-`; numbers in decimal.
-/
namespace Embit.Driver

abbrev TokM := StateT (List String) Option

def tok : TokM String := fun s => match s with
  | [] => none
  | t :: r => some (t, r)

def tokNat : TokM Nat := do
  let t ← tok
  match t.toNat? with
  | some n => pure n
  | none => failure

def tokBytes : TokM Bytes := do
  let t ← tok
  match ofHex t with
  | some b => pure b
  | none => failure

def tokMany {α : Type} (p : TokM α) : Nat → TokM (List α)
  | 0 => pure []
  | n+1 => do
    let x ← p
    let xs ← tokMany p n
    pure (x :: xs)

def tokCounted {α : Type} (p : TokM α) : TokM (List α) := do
  let n ← tokNat
  tokMany p n

def tokOptBytes : TokM (Option Bytes) := do
  let t ← tok
  if t == "None" then pure none else
  match ofHex t with
  | some b => pure (some b)
  | none => failure

def tokOptNat : TokM (Option Nat) := do
  let t ← tok
  if t == "None" then pure none else
  match t.toNat? with
  | some b => pure (some b)
  | none => failure

def tokEnd : TokM Unit := fun s => match s with
  | [] => some ((), [])
  | _ => none

def runTok {α : Type} (p : TokM α) (toks : List String) : Option α :=
  match (do let x ← p; tokEnd; pure x : TokM α) toks with
  | some (x, _) => some x
  | none => none

def showOptBytes : Option Bytes → String
  | none => "None"
  | some b => toHexP b

def showOptNat : Option Nat → String
  | none => "None"
  | some n => toString n

def joinToks (l : List String) : String := " ".intercalate l

end Embit.Driver
