import EmbitModel.Driver.Psbt
import EmbitModel.Model.View
namespace Embit.Driver
open Embit Embit.Model

def showOptTxIn : Option TxIn → String
  | some i => joinToks (showTxIn i)
  | none => "None"

def showOptTxOut : Option TxOut → String
  | some o => joinToks (showTxOut o)
  | none => "None"

def handleView (op : String) (args : List String) : Option String :=
  let ko := concreteKeyOps
  let sha := Crypto.sha256
  match op with
  | "view.all" => do
    -- everything the streaming view reports, in one line
    let (off, c, buf) ← runTok (do let o ← tokNat; let c ← tokNat; let b ← tokBytes; pure (o, c, b)) args
    match View.open buf off with
    | none => pure "none"
    | some v =>
      let hdr := [showOptNat v.version, toString v.numIn, toString v.numOut, toString v.firstScope,
                  showOptNat (v.getTxVersion buf), showOptNat (v.getLocktime buf)]
      let vins := (List.range v.numIn).map fun i => "VIN " ++ showOptTxIn (v.vin buf i)
      let vouts := (List.range v.numOut).map fun j => "VOUT " ++ showOptTxOut (v.vout buf j)
      let ins := (List.range v.numIn).map fun i => match View.input ko sha buf v i c with
        | some s => showIn v.version s
        | none => "I none"
      let outs := (List.range v.numOut).map fun j => match View.output ko buf v j with
        | some s => showOut v.version s
        | none => "O none"
      let offs := (List.range (v.numIn + v.numOut + 1)).map fun n => showOptNat (v.scopeOffset buf n)
      pure ("ok " ++ joinToks (hdr ++ vins ++ vouts ++ ins ++ outs ++ ["OFFS"] ++ offs))
  | "view.write" => do
    -- off, view mode, write mode, extra input stream, extra output stream, buffer
    let (off, vc, c, ei, eo, buf) ← runTok (do
      let o ← tokNat; let vc ← tokNat; let c ← tokNat; let ei ← tokOptBytes; let eo ← tokOptBytes
      let b ← tokBytes; pure (o, vc, c, ei, eo, b)) args
    match View.open buf off with
    | none => pure "none"
    | some v => match View.writeTo ko sha buf v vc c ei eo with
      | some out => pure ("ok " ++ toHexP out)
      | none => pure "none"
  | _ => none

end Embit.Driver
