import EmbitModel.Driver.Descriptor
import EmbitModel.Model.Cost
import EmbitModel.Driver.Psbt
import EmbitModel.Model.CostBin
import EmbitModel.Model.ViewCost
import EmbitModel.Model.ViewCost2
/-
  Line protocol for C17 (text parsers): the cost companions of `Model/Cost.lean` on the driver's key decoders.
    c17.desc TEXT   →  ok STREAMCALLS READFROMCALLS DEPTH ACCEPTED      (TEXT: hex of the ASCII bytes)
    c17.b58 TEXT    →  ok STEPS OUTLEN|none                             (`base58.decode`)
  and the instrumented byte parsers of `Model/CostBin.lean` (value part = `Tx.parse` / `Psbt.parse`, Props/C17Y):
    c17.txsteps BYTES        →  ok STEPS ACCEPTED
    c17.psbtsteps C BYTES    →  ok STEPS ACCEPTED                       (C: compress mode)
    c17.lnvo OFF BYTES       →  ok ITERS STEPS VALUE|none               (`GlobalLTransactionView(s, OFF).num_vout_offset`)
    c17.hashto L POS BYTES   →  ok ITERS STEPS 1|0                      (`PSETView._hash_to(h, L)` at POS; 1 = no exception)
    c17.skipscope POS BYTES  →  ok ITERS STEPS NEWPOS|none              (`PSBTView._skip_scope` at POS)
    c17.lvin OFF I BYTES     →  ok ITERS STEPS POS|none                 (`GlobalLTransactionView(s, OFF).vin(I)` up to the input parser)
    c17.seekscope FIRST N BYTES → ok ROUNDS STEPS POS|none SCOPES       (`PSBTView.seek_to_scope(N)` with first_scope = FIRST)
-/
namespace Embit.Driver
open Embit Embit.Model.Descriptor Embit.Model.Cost

def handleCost (op : String) (args : List String) : Option String :=
  match op with
  | "c17.desc" => do
    let t ← runTok tokText args
    let stream := parseCost streamAlg cops t
    let steps := parseCost stepsAlg cops t
    let depth := parseCost depthAlg cops t
    let acc := (Desc.parse cops t).isSome
    pure (joinToks ["ok", toString stream, toString (steps - stream), toString depth, if acc then "1" else "0"])
  | "c17.b58" => do
    let t ← runTok tokText args
    pure (joinToks ["ok", toString (b58DecodeSteps t),
      match Model.Base58.decode t with | some b => toString b.length | none => "none"])
  | "c17.txsteps" => do
    let b ← runTok tokBytes args
    let q := Model.CostBin.txParseC b
    pure (joinToks ["ok", toString q.2, if q.1.isSome then "1" else "0"])
  | "c17.psbtsteps" => do
    let (c, b) ← runTok (do let c ← tokNat; let b ← tokBytes; pure (c, b)) args
    let q := Model.CostBin.psbtParseC concreteKeyOps Crypto.sha256 c b
    pure (joinToks ["ok", toString q.2, if q.1.isSome then "1" else "0"])
  | "c17.lnvo" => do
    let (off, b) ← runTok (do let c ← tokNat; let b ← tokBytes; pure (c, b)) args
    let q := Model.ViewCost.numVoutOffsetC true b off
    pure (joinToks ["ok", toString q.2.1, toString q.2.2, match q.1 with | some v => toString v | none => "none"])
  | "c17.hashto" => do
    let (l, pos, b) ← runTok (do let l ← tokNat; let p ← tokNat; let b ← tokBytes; pure (l, p, b)) args
    let r := Model.ViewCost.hashToC b l pos
    pure (joinToks ["ok", toString r.iters, toString r.steps, match r.out with | .done _ _ => "1" | _ => "0"])
  | "c17.skipscope" => do
    let (pos, b) ← runTok (do let c ← tokNat; let b ← tokBytes; pure (c, b)) args
    let r := Model.ViewCost.skipScopeC b (b.length + 2) pos
    pure (joinToks ["ok", toString r.iters, toString r.steps, match r.out with | .done _ p => toString p | _ => "none"])
  | "c17.lvin" => do
    let (off, i, b) ← runTok (do let c ← tokNat; let i ← tokNat; let b ← tokBytes; pure (c, i, b)) args
    let q := Model.ViewCost.vinSeekC true b off i
    pure (joinToks ["ok", toString q.2.1, toString q.2.2, match q.1 with | some v => toString v | none => "none"])
  | "c17.seekscope" => do
    let (first, n, b) ← runTok (do let c ← tokNat; let i ← tokNat; let b ← tokBytes; pure (c, i, b)) args
    let q := Model.ViewCost.seekToScopeC b first n
    pure (joinToks ["ok", toString q.rounds, toString q.steps, (match q.pos with | some v => toString v | none => "none"),
      toString q.scopes])
  | _ => none

end Embit.Driver
