import EmbitModel.Driver.Descriptor
import EmbitModel.Model.Cost
/-
  Line protocol for C17 (text parsers): the cost companions of `Model/Cost.lean` on the driver's key decoders.
    c17.desc TEXT   →  ok STREAMCALLS READFROMCALLS DEPTH ACCEPTED      (TEXT: hex of the ASCII bytes)
    c17.b58 TEXT    →  ok STEPS OUTLEN|none                             (`base58.decode`)
-/
namespace Embit.Driver
open Embit Embit.Model.Descriptor Embit.Model.Cost

def handleCost (op : String) (args : List String) : Option String :=
  match op with
  | "c17.desc" => do
    let t ← runTok tokText args
    let stream := parseCost streamAlg cops t
    let steps := parseCost stepsAlg cops t
    let depth := parseCost depthAlg cops t
    let acc := (Desc.parse cops t).isSome
    pure (joinToks ["ok", toString stream, toString (steps - stream), toString depth, if acc then "1" else "0"])
  | "c17.b58" => do
    let t ← runTok tokText args
    pure (joinToks ["ok", toString (b58DecodeSteps t),
      match Model.Base58.decode t with | some b => toString b.length | none => "none"])
  | _ => none

end Embit.Driver
