import EmbitModel.Driver.Psbt
import EmbitModel.Model.Liquid
import EmbitModel.Spec.LiquidWire
import EmbitModel.Crypto.Hmac
/-
  Line-protocol ops for C18 (Liquid): `ltx.*`, `lin.*`, `lout.*`, `pset.*`, `blech32.*`, `laddr.*`, `slip77.*`.
  The C library is instantiated (a) by an oracle (`pset.verifylogic`, `pset.unblindlogic`: the boolean outcome of
  every library predicate is an input) and (b) symbolically (`pset.blind`: every library function returns a hash
  of its name and arguments, exactly like the mocks the harness installs around the real Python `PSET.blind`).
-/
namespace Embit.Driver
open Embit Embit.Model

/-! ### tokens -/

def tokCommit : TokM Commit := do
  let t ← tok
  if t == "N" then pure .null
  else match t.toList with
    | 'E' :: r => match (String.ofList r).toNat? with
      | some n => pure (.explicit n)
      | none => failure
    | 'C' :: r => match ofHex (String.ofList r) with
      | some b => pure (.conf b)
      | none => failure
    | _ => failure

def showCommit : Commit → String
  | .null => "N"
  | .explicit v => "E" ++ toString v
  | .conf b => "C" ++ toHexP b

def tokLValue : TokM LValue := do
  let c ← tokCommit
  match c with
  | .explicit v => pure (.explicit v)
  | .conf b => pure (.conf b)
  | .null => failure

def showLValue : LValue → String
  | .explicit v => "E" ++ toString v
  | .conf b => "C" ++ toHexP b

def tokBoolL : TokM Bool := do
  let n ← tokNat
  pure (n != 0)

def tokLTxIn : TokM LTxIn := do
  let txid ← tokBytes
  let vout ← tokNat
  let ss ← tokBytes
  let sq ← tokNat
  let pg ← tokBoolL
  let hasIss ← tokBoolL
  let iss ← if hasIss then do
      let n ← tokBytes; let e ← tokBytes; let a ← tokCommit; let t ← tokCommit
      pure (some ({ nonce := n, entropy := e, amount := a, token := t } : Issuance))
    else pure none
  let ap ← tokBytes
  let tp ← tokBytes
  let sw ← tokCounted tokBytes
  let pw ← tokCounted tokBytes
  pure { txid := txid, vout := vout, scriptSig := ss, sequence := sq, isPegin := pg, issuance := iss,
         witness := { amountProof := ap, tokenProof := tp, scriptWitness := sw, peginWitness := pw } }

def tokLTxOut : TokM LTxOut := do
  let a ← tokBytes
  let v ← tokLValue
  let n ← tokOptBytes
  let s ← tokBytes
  let sp ← tokBytes
  let rp ← tokBytes
  pure { asset := a, value := v, nonce := n, spk := s, witness := { surjProof := sp, rangeProof := rp } }

def tokLTx : TokM LTx := do
  let ver ← tokNat
  let lt ← tokNat
  let vin ← tokCounted tokLTxIn
  let vout ← tokCounted tokLTxOut
  pure { version := ver, vin := vin, vout := vout, locktime := lt }

def showLTxIn (i : LTxIn) : List String :=
  [toHexP i.txid, toString i.vout, toHexP i.scriptSig, toString i.sequence, if i.isPegin then "1" else "0"]
  ++ (match i.issuance with
      | none => ["0"]
      | some a => ["1", toHexP a.nonce, toHexP a.entropy, showCommit a.amount, showCommit a.token])
  ++ [toHexP i.witness.amountProof, toHexP i.witness.tokenProof, toString i.witness.scriptWitness.length]
  ++ i.witness.scriptWitness.map toHexP ++ [toString i.witness.peginWitness.length] ++ i.witness.peginWitness.map toHexP

def showLTxOut (o : LTxOut) : List String :=
  [toHexP o.asset, showLValue o.value, showOptBytes o.nonce, toHexP o.spk, toHexP o.witness.surjProof,
   toHexP o.witness.rangeProof]

def showLTx (t : LTx) : String :=
  joinToks ([toString t.version, toString t.locktime, toString t.vin.length] ++ t.vin.flatMap showLTxIn
    ++ [toString t.vout.length] ++ t.vout.flatMap showLTxOut)

/-! ### PSET dump -/

def showOptPairs : Option (List KV) → String
  | none => "err"
  | some kvs => showKVs kvs

def showLIn (ver : Option Nat) (s : LInScope) : String :=
  joinToks ["I", showOptBytes s.base.txid, showOptNat s.base.vout, showOptNat s.base.sequence, showKVs (s.pairs ver)]

def showLOut (ver : Option Nat) (s : LOutScope) : String :=
  joinToks ["O", (match s.base.value, s.valueConf with
      | some v, _ => toString v
      | none, some b => "C" ++ toHexP b
      | none, none => "None"),
    showOptBytes s.base.spk, showOptPairs (s.pairs ver)]

def showLPset (p : LPset) : String :=
  joinToks ([showOptNat p.version, showOptNat p.txVersion, showOptNat p.locktime,
    showKVs (p.xpubs.map fun (x, d) => (x, Deriv.ser d)), showKVs p.unknown]
    ++ p.inputs.map (showLIn p.version) ++ p.outputs.map (showLOut p.version))

/-! ### the library, by oracle -/

structure Oracle where
  genParseOk : Bool
  genBlindedOk : Bool
  genEq : Bool
  surjParseOk : Bool
  genGenerateOk : Bool
  surjVerify : Bool
  commitOk : Bool
  commitSerOk : Bool
  commitEq : Bool
  commitParseOk : Bool
  rangeOk : Bool
  rangeMin : Nat
  rangeMax : Nat

def tokOracle : TokM Oracle := do
  let a ← tokBoolL; let b ← tokBoolL; let c ← tokBoolL; let d ← tokBoolL; let e ← tokBoolL; let f ← tokBoolL
  let g ← tokBoolL; let h ← tokBoolL; let i ← tokBoolL; let j ← tokBoolL; let k ← tokBoolL
  let mn ← tokNat; let mx ← tokNat
  pure ⟨a, b, c, d, e, f, g, h, i, j, k, mn, mx⟩

/-- a library whose every answer is dictated by the oracle; `target` is the serialised commitment that
    `commitEq = true` reproduces -/
def oracleZkp (o : Oracle) (target : Bytes) : Zkp where
  generatorParse := fun _ => if o.genParseOk then some [1] else none
  generatorSerialize := fun _ => some [1]
  generatorGenerate := fun _ => if o.genGenerateOk then some [3] else none
  generatorGenerateBlinded := fun _ _ => if o.genBlindedOk then some (if o.genEq then [1] else [2]) else none
  pedersenCommit := fun _ _ _ => if o.commitOk then some [4] else none
  pedersenCommitmentParse := fun _ => if o.commitParseOk then some [4] else none
  pedersenCommitmentSerialize := fun _ => if o.commitSerOk then some (if o.commitEq then target else target ++ [0]) else none
  blindSum := fun _ _ _ _ => none
  surjectionproofParse := fun _ => if o.surjParseOk then some [5] else none
  surjectionproofSerialize := fun _ => none
  surjectionproofVerify := fun _ _ _ => o.surjVerify
  surjectionproofInitialize := fun _ _ _ _ _ => none
  surjectionproofGenerate := fun _ _ _ _ _ _ => none
  rangeproofVerify := fun _ _ _ _ => if o.rangeOk then some (o.rangeMin, o.rangeMax) else none
  rangeproofSign := fun _ _ _ _ _ _ _ _ _ _ => none
  pubkeyOfSecret := fun _ => none
  ecdhNonce := fun _ _ => none

/-- for `unblindAccept`: generator comparison = `genEq`, commitment comparison = `commitEq` -/
def oracleZkpUnblind (o : Oracle) : Zkp :=
  { oracleZkp o [] with
    pedersenCommit := fun _ _ _ => if o.commitOk then some (if o.commitEq then [4] else [6]) else none }

/-! ### the library, symbolically -/

def symArg (b : Bytes) : Bytes := leN 4 b.length ++ b
def symList (l : List Bytes) : Bytes := leN 4 l.length ++ l.flatMap symArg
def symNat (n : Nat) : Bytes := (toString n).toUTF8.toList
def symInt (n : Int) : Bytes := (toString n).toUTF8.toList
def symOptNat : Option Nat → Bytes
  | none => "None".toUTF8.toList
  | some n => symNat n

def sym (name : String) (args : List Bytes) : Bytes :=
  Crypto.sha256 (name.toUTF8.toList ++ args.flatMap symArg)

def symZkp : Zkp where
  generatorParse := fun b => some (sym "generator_parse" [b])
  generatorSerialize := fun g => some (sym "generator_serialize" [g])
  generatorGenerate := fun a => some (sym "generator_generate" [a])
  generatorGenerateBlinded := fun a r => some (sym "generator_generate_blinded" [a, r])
  pedersenCommit := fun vbf v g => some (sym "pedersen_commit" [vbf, symNat v, g])
  pedersenCommitmentParse := fun b => some (sym "pedersen_commitment_parse" [b])
  pedersenCommitmentSerialize := fun c => some (sym "pedersen_commitment_serialize" [c])
  blindSum := fun vals abfs vbfs n =>
    some (sym "pedersen_blind_generator_blind_sum" [symList (vals.map symNat), symList abfs, symList vbfs, symNat n])
  surjectionproofParse := fun b => some (sym "surjectionproof_parse" [b])
  surjectionproofSerialize := fun p => some (sym "surjectionproof_serialize" [p])
  surjectionproofVerify := fun _ _ _ => true
  surjectionproofInitialize := fun tags out seed ttu iters =>
    let p := sym "surjectionproof_initialize" [symList tags, out, seed, symOptNat ttu, symNat iters]
    some (p, if tags.isEmpty then 0 else (p.headD 0).toNat % tags.length)
  surjectionproofGenerate := fun p idx gens out inAbf outAbf =>
    some (sym "surjectionproof_generate" [p, symNat idx, symList gens, out, inAbf, outAbf])
  rangeproofVerify := fun _ _ _ _ => none
  rangeproofSign := fun nonce v c vbf msg extra g mn exp bits =>
    some (sym "rangeproof_sign" [nonce, symNat v, c, vbf, msg, extra, g, symOptNat mn, symInt exp, symNat bits])
  pubkeyOfSecret := fun s => some (sym "pubkey_of_secret" [s])
  ecdhNonce := fun bpk nonce =>
    some (Crypto.sha256 (Crypto.sha256 (sym "ec_pubkey_serialize" [sym "ec_pubkey_tweak_mul" [sym "ec_pubkey_parse" [bpk], nonce]])))

def tokOptLValue : TokM (Option LValue) := do
  let t ← tok
  if t == "None" then pure none else
  match (tokLValue : TokM LValue) [t] with
  | some (v, _) => pure (some v)
  | none => failure

def tokBlindIn : TokM BlindIn := do
  let txid ← tokBytes; let vout ← tokNat; let value ← tokOptNat; let asset ← tokOptBytes
  let abf ← tokOptBytes; let vbf ← tokOptBytes; let uv ← tokOptLValue; let ua ← tokOptBytes
  pure { txid := txid, vout := vout, value := value, asset := asset, abf := abf, vbf := vbf,
         utxoValue := uv, utxoAsset := ua }

def tokBlindOut : TokM BlindOut := do
  let spk ← tokBytes; let value ← tokOptNat; let asset ← tokOptBytes; let bpk ← tokOptBytes
  let abf ← tokOptBytes; let vbf ← tokOptBytes
  pure { spk := spk, value := value, asset := asset, blindingPubkey := bpk, abf := abf, vbf := vbf }

def showBlindOut (o : BlindOut) : String :=
  joinToks [showOptBytes o.abf, showOptBytes o.vbf, showOptBytes o.assetCommitment, showOptBytes o.valueCommitment,
    showOptBytes o.ecdhPubkey, showOptBytes o.rangeProof, showOptBytes o.surjProof, showOptBytes o.assetProof,
    showOptBytes o.valueProof]

def strOfHex (t : String) : Option (List Nat) := (ofHex t).map (fun b => b.map UInt8.toNat)
def hexOfStr (l : List Nat) : String := toHexP (l.map UInt8.ofNat)

def liquidBlechHrps : List String := ["lq", "el", "tlq"]

def concreteValidSec (b : Bytes) : Bool :=
  (b.length = 33 || b.length = 65) && (Crypto.Secp.secParse b).isSome

def showBoolL (b : Bool) : String := if b then "true" else "false"

def handleLiquid (op : String) (args : List String) : Option String :=
  let ko := concreteKeyOps
  match op with
  | "ltx.ser" => do
    let t ← runTok tokLTx args
    pure ("ok " ++ toHexP (LTx.ser t))
  | "ltx.wire" => do
    let t ← runTok tokLTx args
    pure ("ok " ++ toHexP (Spec.LWire.encode t))
  | "ltx.txid" => do
    let t ← runTok tokLTx args
    pure ("ok " ++ toHexP (LTx.txid Crypto.sha256 t))
  | "ltx.parse" => do
    let b ← runTok tokBytes args
    match LTx.parse b with
    | some t => pure ("ok " ++ showLTx t)
    | none => pure "none"
  | "lin.parse" => do
    let b ← runTok tokBytes args
    match LTxIn.parse b with
    | some i => pure ("ok " ++ joinToks (showLTxIn i))
    | none => pure "none"
  | "lout.parse" => do
    let b ← runTok tokBytes args
    match LTxOut.parse b with
    | some o => pure ("ok " ++ joinToks (showLTxOut o))
    | none => pure "none"
  | "lout.ser" => do
    let o ← runTok tokLTxOut args
    pure ("ok " ++ toHexP (LTxOut.ser o))
  | "pset.parse" => do
    let b ← runTok tokBytes args
    match LPset.parse ko b with
    | some p => pure ("ok " ++ showLPset p)
    | none => pure "none"
  | "pset.roundtrip" => do
    let b ← runTok tokBytes args
    match LPset.parse ko b with
    | some p => match LPset.ser p with
      | some out => pure ("ok " ++ toHexP out)
      | none => pure "err"
    | none => pure "none"
  | "pset.tx" => do
    let b ← runTok tokBytes args
    match LPset.parse ko b with
    | some p => match LPset.tx p with
      | some t => match LTx.serOpt t with
        | some b => pure ("ok " ++ toHexP b)
        | none => pure "err"
      | none => pure "err"
    | none => pure "none"
  | "pset.verifylogic" => do
    let (v, o) ← runTok (do
      let asset ← tokOptBytes; let ac ← tokOptBytes; let abf ← tokOptBytes; let ap ← tokOptBytes
      let value ← tokOptNat; let vc ← tokOptBytes; let vbf ← tokOptBytes; let vp ← tokOptBytes
      let o ← tokOracle
      pure (({ asset := asset, assetCommitment := ac, abf := abf, assetProof := ap, value := value,
               valueCommitment := vc, vbf := vbf, valueProof := vp } : VerifyView), o)) args
    pure ("ok " ++ showBoolL (verifyView (oracleZkp o (v.valueCommitment.getD [])) v))
  | "pset.verifylogic.old" => do
    let (v, o) ← runTok (do
      let asset ← tokOptBytes; let ac ← tokOptBytes; let abf ← tokOptBytes; let ap ← tokOptBytes
      let value ← tokOptNat; let vc ← tokOptBytes; let vbf ← tokOptBytes; let vp ← tokOptBytes
      let o ← tokOracle
      pure (({ asset := asset, assetCommitment := ac, abf := abf, assetProof := ap, value := value,
               valueCommitment := vc, vbf := vbf, valueProof := vp } : VerifyView), o)) args
    pure ("ok " ++ showBoolL (verifyViewOld (oracleZkp o (v.valueCommitment.getD [])) v))
  | "pset.verify" => do
    -- verify() of every output scope of a parsed PSET under the oracle (same answers for every output)
    let (b, o) ← runTok (do let b ← tokBytes; let o ← tokOracle; pure (b, o)) args
    match LPset.parse ko b with
    | some p => pure ("ok " ++ joinToks (p.outputs.map fun s =>
        showBoolL (LOutScope.verify (oracleZkp o ((s.get .valueCommitment).getD [])) s)))
    | none => pure "none"
  | "pset.unblindlogic" => do
    let o ← runTok tokOracle args
    pure ("ok " ++ showBoolL (unblindAccept (oracleZkpUnblind o) [] [] { value := 0, asset := [], vbf := [], abf := [] }))
  | "pset.blind" => do
    let (seed, ins, outs) ← runTok (do
      let s ← tokBytes; let i ← tokCounted tokBlindIn; let o ← tokCounted tokBlindOut; pure (s, i, o)) args
    match blind symZkp Crypto.sha256 seed ins outs with
    | some r => pure ("ok " ++ joinToks (r.map showBlindOut))
    | none => pure "none"
  | "pset.blindsum" => do
    -- the arguments handed to pedersen_blind_generator_blind_sum (after the hash-derived factors were assigned)
    let (seed, ins, outs) ← runTok (do
      let s ← tokBytes; let i ← tokCounted tokBlindIn; let o ← tokCounted tokBlindOut; pure (s, i, o)) args
    let ts := txseed Crypto.sha256 seed ins outs
    match sumArgs ins (assignFactors Crypto.sha256 ts 0 outs) with
    | some a => pure ("ok " ++ joinToks ([toHexP ts, toString a.nIn, toString a.vals.length] ++ a.vals.map toString
        ++ a.abfs.map toHexP ++ a.vbfs.map toHexP))
    | none => pure "none"
  | "blech32.enc" => do
    let (h, v, p) ← runTok (do let h ← tok; let v ← tokNat; let p ← tokBytes; pure (h, v, p)) args
    let hrp ← strOfHex h
    match Blech32.encode hrp v (p.map UInt8.toNat) with
    | some a => pure ("ok " ++ hexOfStr a)
    | none => pure "none"
  | "blech32.dec" => do
    let (h, a) ← runTok (do let h ← tok; let a ← tok; pure (h, a)) args
    let hrp ← strOfHex h
    let addr ← strOfHex a
    match Blech32.decode hrp addr with
    | some (v, some d) => pure ("ok " ++ toString v ++ " " ++ (if d.all (· < 256) then hexOfStr d else "big"))
    | some (v, none) => pure ("ok " ++ toString v ++ " None")
    | none => pure "none"
  | "blech32.consts" =>
    -- the constants the theorems are about (compared each run with the ones extracted from the loaded module)
    pure ("ok " ++ joinToks (Blech32.generator.map toString) ++ " " ++ hexOfStr Blech32.charset)
  | "blech32.checksum" => do
    let (h, d) ← runTok (do let h ← tok; let d ← tokBytes; pure (h, d)) args
    let hrp ← strOfHex h
    pure ("ok " ++ hexOfStr (Blech32.createChecksum hrp (d.map UInt8.toNat)))
  | "laddr.enc" => do
    let (h, s, p) ← runTok (do let h ← tok; let s ← tokBytes; let p ← tokBytes; pure (h, s, p)) args
    let hrp ← strOfHex h
    match confAddress hrp s p with
    | some a => pure ("ok " ++ hexOfStr a)
    | none => pure "none"
  | "laddr.dec" => do
    let a ← runTok tok args
    let addr ← strOfHex a
    -- `addr.split("1")[0].lower()` must be the blech32 prefix of a Liquid network
    let pre := (addr.takeWhile (· ≠ 49)).map Blech32.lowerC
    if !(liquidBlechHrps.any fun h => Blech32.ofString h == pre) then pure "other" else
    match confAddrDecode concreteValidSec pre addr with
    | some (sc, pub) => pure ("ok " ++ toHexP sc ++ " " ++ toHexP pub)
    | none => pure "none"
  | "slip77.master" => do
    let s ← runTok tokBytes args
    pure ("ok " ++ toHexP (slip77Master Crypto.hmacSha512 s))
  | "slip77.key" => do
    let (m, s) ← runTok (do let m ← tokBytes; let s ← tokBytes; pure (m, s)) args
    pure ("ok " ++ toHexP (slip77BlindingKey Crypto.hmacSha256 m s))
  | _ => none

end Embit.Driver
