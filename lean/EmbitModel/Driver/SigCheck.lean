import EmbitModel.Driver.Sighash
import EmbitModel.Crypto.Verify
import EmbitModel.Crypto.SecpOps
import EmbitModel.Crypto.SecpLawful
import EmbitModel.Spec.Ecdsa
import EmbitModel.Spec.Bip340
namespace Embit.Driver
open Embit

/-- the curve record of the verifier ops: the lawful secp256k1 record (the same as `Driver.E`) -/
def sigE : EcOps := Crypto.secpLawful

/-- SEC 1 §4.1.4 verification (`Spec.Ecdsa.verify`) of the message value `z` under a strictly decoded SEC key and a
    strictly decoded (BIP66) DER signature; `none` = malformed key or signature -/
def sigEcdsa (pub : Bytes) (z : Nat) (sig : Bytes) : Option (Bool × Nat) :=
  match Crypto.SecpLawful.secParse pub, Crypto.parseDerStrict sig with
  | some P, some (r, s) => some (Spec.Ecdsa.verify sigE P z r s, s)
  | _, _ => none

/-- BIP340 verification (`Spec.Bip340.verify`) on a 32-byte key, 32-byte message, 64-byte signature -/
def sigSchnorr (pk msg sig : Bytes) : Bool :=
  (pk.length = 32 && msg.length = 32 && sig.length = 64) && Spec.Bip340.verify sigE Crypto.shaOps pk msg sig

/-- "does this signature verify under this key against the CONSENSUS digest of this input?" -/
def handleSigCheck (op : String) (args : List String) : Option String :=
  let sha := Crypto.sha256
  match op with
  | "sigcheck.legacy" => do
    let (t, idx, sc, f, pub, sig) ← runTok (do
      let t ← tokTx; let i ← tokNat; let s ← tokBytes; let f ← tokNat; let p ← tokBytes; let g ← tokBytes
      pure (t, i, s, f, p, g)) args
    if !(Spec.Consensus.validFlag f && idx < t.vin.length) then pure "undefined" else
    let z := ofBe (Spec.Consensus.legacy sha t idx sc f)
    match sigEcdsa pub z sig with
    | some (ok, s) => pure (if ok && s ≤ Crypto.Secp.n / 2 then "valid" else "invalid")
    | none => pure "malformed"
  | "sigcheck.segwit" => do
    let (t, idx, sc, v, f, pub, sig) ← runTok (do
      let t ← tokTx; let i ← tokNat; let s ← tokBytes; let v ← tokNat; let f ← tokNat; let p ← tokBytes
      let g ← tokBytes; pure (t, i, s, v, f, p, g)) args
    match t.vin[idx]? with
    | none => pure "undefined"
    | some inp =>
      if !Spec.Consensus.validFlag f then pure "undefined" else
      let z := ofBe (Spec.Consensus.bip143 sha t idx inp sc v f)
      match sigEcdsa pub z sig with
      | some (ok, s) => pure (if ok && s ≤ Crypto.Secp.n / 2 then "valid" else "invalid")
      | none => pure "malformed"
  | "sigcheck.taproot" => do
    let (a, pk, sig) ← runTok (do let a ← tokTapArgs; let p ← tokBytes; let g ← tokBytes; pure (a, p, g)) args
    let leaf : Option Spec.Consensus.Leaf := a.script.map fun s =>
      { script := s, version := a.leafVer, codesepPos := a.codesep.getD 0xffffffff }
    match Spec.Consensus.bip341 sha a.t a.idx a.spks a.values a.f a.annex leaf with
    | none => pure "undefined"
    | some d => pure (if sigSchnorr pk d sig then "valid" else "invalid")
  | "sig.ecdsa" => do
    let (pub, z, sig) ← runTok (do let p ← tokBytes; let z ← tokBytes; let g ← tokBytes; pure (p, z, g)) args
    match sigEcdsa pub (ofBe z) sig with
    | some (ok, _) => pure (if ok then "valid" else "invalid")
    | none => pure "malformed"
  | "sig.schnorr" => do
    let (pk, m, sig) ← runTok (do let p ← tokBytes; let z ← tokBytes; let g ← tokBytes; pure (p, z, g)) args
    pure (if sigSchnorr pk m sig then "valid" else "invalid")
  | _ => none

end Embit.Driver
