import EmbitModel.Driver.Sighash
import EmbitModel.Crypto.Verify
namespace Embit.Driver
open Embit

/-- "does this signature verify under this key against the CONSENSUS digest of this input?" -/
def handleSigCheck (op : String) (args : List String) : Option String :=
  let sha := Crypto.sha256
  match op with
  | "sigcheck.legacy" => do
    let (t, idx, sc, f, pub, sig) ← runTok (do
      let t ← tokTx; let i ← tokNat; let s ← tokBytes; let f ← tokNat; let p ← tokBytes; let g ← tokBytes
      pure (t, i, s, f, p, g)) args
    if !(Spec.Consensus.validFlag f && idx < t.vin.length) then pure "undefined" else
    let z := ofBe (Spec.Consensus.legacy sha t idx sc f)
    match Crypto.Secp.secParse pub, Crypto.parseDerStrict sig with
    | some P, some (r, s) => pure (if Crypto.ecdsaVerify (some P) z r s && s ≤ Crypto.Secp.n / 2 then "valid" else "invalid")
    | _, _ => pure "malformed"
  | "sigcheck.segwit" => do
    let (t, idx, sc, v, f, pub, sig) ← runTok (do
      let t ← tokTx; let i ← tokNat; let s ← tokBytes; let v ← tokNat; let f ← tokNat; let p ← tokBytes
      let g ← tokBytes; pure (t, i, s, v, f, p, g)) args
    match t.vin[idx]? with
    | none => pure "undefined"
    | some inp =>
      if !Spec.Consensus.validFlag f then pure "undefined" else
      let z := ofBe (Spec.Consensus.bip143 sha t idx inp sc v f)
      match Crypto.Secp.secParse pub, Crypto.parseDerStrict sig with
      | some P, some (r, s) => pure (if Crypto.ecdsaVerify (some P) z r s && s ≤ Crypto.Secp.n / 2 then "valid" else "invalid")
      | _, _ => pure "malformed"
  | "sigcheck.taproot" => do
    let (a, pk, sig) ← runTok (do let a ← tokTapArgs; let p ← tokBytes; let g ← tokBytes; pure (a, p, g)) args
    let leaf : Option Spec.Consensus.Leaf := a.script.map fun s =>
      { script := s, version := a.leafVer, codesepPos := a.codesep.getD 0xffffffff }
    match Spec.Consensus.bip341 sha a.t a.idx a.spks a.values a.f a.annex leaf with
    | none => pure "undefined"
    | some d => pure (if Crypto.bip340Verify pk d sig then "valid" else "invalid")
  | "sig.ecdsa" => do
    let (pub, z, sig) ← runTok (do let p ← tokBytes; let z ← tokBytes; let g ← tokBytes; pure (p, z, g)) args
    match Crypto.Secp.secParse pub, Crypto.parseDerStrict sig with
    | some P, some (r, s) => pure (if Crypto.ecdsaVerify (some P) (ofBe z) r s then "valid" else "invalid")
    | _, _ => pure "malformed"
  | "sig.schnorr" => do
    let (pk, m, sig) ← runTok (do let p ← tokBytes; let z ← tokBytes; let g ← tokBytes; pure (p, z, g)) args
    pure (if Crypto.bip340Verify pk m sig then "valid" else "invalid")
  | _ => none

end Embit.Driver
