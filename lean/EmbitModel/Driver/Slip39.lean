import EmbitModel.Driver.Proto
import EmbitModel.Model.Slip39
import EmbitModel.Spec.Slip39Spec
import EmbitModel.Crypto.Hmac
/-
  Line-protocol ops for C16 (SLIP39). `prf` token: `real` = PBKDF2-HMAC-SHA256 as in embit, `fake` = a cheap
  stand-in round function (HMAC-SHA256(password, salt ‖ iterations as 8 bytes BE)[:dklen]) that the harness also patches
  into embit for the large subset sweeps (the model and the theorems are generic in the round function).
-/
namespace Embit.Driver
open Embit Embit.Crypto

namespace S39
open Embit.Model.Slip39

def pbkdf2Sha256 (pw salt : Bytes) (iters dkLen : Nat) : Bytes := pbkdf2 hmacSha256 32 pw salt iters dkLen
def fakeKdf (pw salt : Bytes) (iters dkLen : Nat) : Bytes := (hmacSha256 pw (salt ++ beN 8 iters)).take dkLen

def primsOf (prf : String) : Option Prims :=
  if prf == "real" then some { hmac := hmacSha256, pbkdf2 := pbkdf2Sha256 }
  else if prf == "fake" then some { hmac := hmacSha256, pbkdf2 := fakeKdf }
  else none

def specPrims (P : Prims) : Spec.Slip39.Prims := { hmac := P.hmac, pbkdf2 := P.pbkdf2 }

def tokPrims : TokM Prims := do
  let t ← tok
  match primsOf t with
  | some p => pure p
  | none => failure

def tokPoint : TokM (Nat × Bytes) := do
  let x ← tokNat
  let b ← tokBytes
  pure (x, b)

def tokShare : TokM Share := do
  let shareBitLength ← tokNat; let id ← tokNat; let exponent ← tokNat; let groupIndex ← tokNat
  let groupThreshold ← tokNat; let groupCount ← tokNat; let memberIndex ← tokNat; let memberThreshold ← tokNat
  let value ← tokBytes
  pure { shareBitLength, id, exponent, groupIndex, groupThreshold, groupCount, memberIndex, memberThreshold,
         value := ofBe value }

def showNats (l : List Nat) : List String := toString l.length :: l.map toString

def showPoints (l : List (Nat × Bytes)) : String :=
  joinToks (toString l.length :: l.flatMap fun p => [toString p.1, toHexP p.2])

/-- share fields; the value is printed as its `share_bit_length // 8` big-endian bytes -/
def showShare (s : Share) : String :=
  joinToks [toString s.shareBitLength, toString s.id, toString s.exponent, toString s.groupIndex,
    toString s.groupThreshold, toString s.groupCount, toString s.memberIndex, toString s.memberThreshold,
    toHexP s.bytes]

def showFields (s : Spec.Slip39.ShareFields) : String :=
  joinToks [toString (s.value.length * 8), toString (s.id), toString (s.ext * 16 + s.e), toString s.GI,
    toString s.Gt, toString s.g, toString s.I, toString s.t, toHexP s.value]

def natBytes (l : List Nat) : Bytes := l.map UInt8.ofNat

end S39

open S39 Embit.Model.Slip39 in
def handleSlip39 (op : String) (args : List String) : Option String :=
  match op with
  | "slip39.tables" => do
    let _ ← runTok (pure ()) args
    pure ("ok " ++ toHexP (natBytes expTable) ++ " " ++ toHexP (natBytes logTable))
  | "slip39.polymod" => do
    let vs ← runTok (tokCounted tokNat) args
    pure ("ok " ++ toString (rs1024Polymod vs))
  | "slip39.rsverify" => do
    let vs ← runTok (tokCounted tokNat) args
    pure ("ok " ++ (if rs1024Verify csShamir vs then "1" else "0"))
  | "slip39.rsvalid.spec" => do
    let vs ← runTok (tokCounted tokNat) args
    pure ("ok " ++ (if Spec.Slip39.rsValid 0 vs then "1" else "0"))
  | "slip39.rscreate" => do
    let vs ← runTok (tokCounted tokNat) args
    pure ("ok " ++ joinToks ((rs1024Create csShamir vs).map toString))
  | "slip39.rscreate.spec" => do
    let vs ← runTok (tokCounted tokNat) args
    pure ("ok " ++ joinToks ((Spec.Slip39.rsChecksum 0 vs).map toString))
  | "slip39.gfmul.spec" => do
    let (a, b) ← runTok (do let a ← tokNat; let b ← tokNat; pure (a, b)) args
    pure ("ok " ++ toString (Spec.Slip39.gfMul a b))
  | "slip39.interp" => do
    let (x, pts) ← runTok (do let x ← tokNat; let p ← tokCounted tokPoint; pure (x, p)) args
    if pts.isEmpty then pure "none" else
    pure ("ok " ++ toHexP (interpolate x pts))
  | "slip39.interp.spec" => do
    let (x, pts) ← runTok (do let x ← tokNat; let p ← tokCounted tokPoint; pure (x, p)) args
    match pts with
    | [] => pure "none"
    | p :: _ => pure ("ok " ++ toHexP (Spec.Slip39.interpolation p.2.length x pts))
  | "slip39.split" => do
    let (secret, k, n, tape) ← runTok (do
      let s ← tokBytes; let k ← tokNat; let n ← tokNat; let t ← tokCounted tokNat; pure (s, k, n, t)) args
    let P ← primsOf "fake"
    match splitSecret P secret k n tape with
    | some l => pure ("ok " ++ showPoints l)
    | none => pure "none"
  | "slip39.split.spec" => do
    -- tape laid out as embit draws it: R first, then y_0 … y_{T-3}
    let (secret, k, n, tape) ← runTok (do
      let s ← tokBytes; let k ← tokNat; let n ← tokNat; let t ← tokCounted tokNat; pure (s, k, n, t)) args
    let P ← primsOf "fake"
    let nb := secret.length
    let R := natBytes (tape.take (nb - 4))
    let rest := tape.drop (nb - 4)
    let ys := (List.range (k - 2)).map fun i => natBytes ((rest.drop (i * nb)).take nb)
    match Spec.Slip39.splitSecret (specPrims P) k n secret R ys with
    | some l => pure ("ok " ++ showPoints l)
    | none => pure "none"
  | "slip39.recsecret" => do
    let pts ← runTok (tokCounted tokPoint) args
    let P ← primsOf "fake"
    if pts.isEmpty then pure "none" else
    match recoverSecret P pts with
    | some s => pure ("ok " ++ toHexP s)
    | none => pure "none"
  | "slip39.recsecret.spec" => do
    let (t, pts) ← runTok (do let t ← tokNat; let p ← tokCounted tokPoint; pure (t, p)) args
    let P ← primsOf "fake"
    match Spec.Slip39.recoverSecret (specPrims P) t pts with
    | some s => pure ("ok " ++ toHexP s)
    | none => pure "none"
  | "slip39.crypt" => do
    let (P, dir, payload, id, e, pass) ← runTok (do
      let P ← tokPrims; let d ← tok; let p ← tokBytes; let id ← tokNat; let e ← tokNat; let pw ← tokBytes
      pure (P, d, p, id, e, pw)) args
    let r := if dir == "enc" then encrypt P payload id e pass else decrypt P payload id e pass
    match r with
    | some b => pure ("ok " ++ toHexP b)
    | none => pure "none"
  | "slip39.crypt.spec" => do
    let (P, dir, payload, id, e, pass) ← runTok (do
      let P ← tokPrims; let d ← tok; let p ← tokBytes; let id ← tokNat; let e ← tokNat; let pw ← tokBytes
      pure (P, d, p, id, e, pw)) args
    let r := if dir == "enc" then Spec.Slip39.encryptMS (specPrims P) payload id e pass
             else Spec.Slip39.decryptMS (specPrims P) payload id e pass
    pure ("ok " ++ toHexP r)
  | "share.parse" => do
    let ws ← runTok (tokCounted tokNat) args
    match Share.parse ws with
    | some s => pure ("ok " ++ showShare s)
    | none => pure "none"
  | "share.decode.spec" => do
    let ws ← runTok (tokCounted tokNat) args
    match Spec.Slip39.decodeShare ws with
    | some s => pure ("ok " ++ showFields s)
    | none => pure "none"
  | "share.mnemonic" => do
    let s ← runTok tokShare args
    match Share.new? s with
    | some s => pure ("ok " ++ joinToks (showNats s.mnemonic))
    | none => pure "none"
  | "share.encode.spec" => do
    let s ← runTok tokShare args
    let f : Spec.Slip39.ShareFields :=
      ⟨s.id, s.exponent / 16, s.exponent % 16, s.groupIndex, s.groupThreshold, s.groupCount, s.memberIndex,
       s.memberThreshold, s.bytes⟩
    pure ("ok " ++ joinToks (showNats (Spec.Slip39.encodeShare f)))
  | "slip39.generate" => do
    let (P, secret, k, n, pass, e, tape) ← runTok (do
      let P ← tokPrims; let s ← tokBytes; let k ← tokNat; let n ← tokNat; let pw ← tokBytes; let e ← tokNat
      let t ← tokCounted tokNat; pure (P, s, k, n, pw, e, t)) args
    match generateShares P secret k n pass e tape with
    | some l => pure ("ok " ++ joinToks (toString l.length :: l.flatMap showNats))
    | none => pure "none"
  | "slip39.recover" => do
    let (P, pass, ms) ← runTok (do
      let P ← tokPrims; let pw ← tokBytes; let m ← tokCounted (tokCounted tokNat); pure (P, pw, m)) args
    match recoverShares P ms pass with
    | some s => pure ("ok " ++ toHexP s)
    | none => pure "none"
  | _ => none

end Embit.Driver
