import EmbitModel.Driver.Psbt
import EmbitModel.Driver.Keys
import EmbitModel.Driver.Secp
import EmbitModel.Model.SignWith
import EmbitModel.Model.SignWithView
import EmbitModel.Model.SignWithOps
/-
  Line-protocol ops for C02X: the model of `PSBT.sign_with` over the CONCRETE secp256k1 / SHA-256 / RIPEMD-160 /
  HMAC-SHA512 (the executable models of C07 / C09 / C10 instantiate `SignWith.Ops` through `opsOf`,
  Model/SignWithOps.lean — the instance `SigLaws` is proved of in Props/C02Y.lean), so the model produces the very
  signatures embit produces and whole resulting PSBTs are compared.

    sign.run <signer> <authorised> <psbt>   ->  ok <count> <ntrace> <psbt dump>   |  none
    sign.trace <signer> <authorised> <psbt> ->  ok <count> {<input> <slot> <key> <value>}*
    sign.view <signer> <authorised> <psbt>  ->  ok <count> <bytes written to sig_stream>   (PSBTView.sign_with)
    sign.verify <signer> <authorised> <psbt> -> ok <writes of the trace that are NOT valid> <writes>
       (`writeValid`: the conclusion of Props/C02Y `added_sigs_valid_standards` decided per write — SEC 1 / BIP340
        verification under the slot's key against `PSBT.sighash` of the PSBT handed in; proved to be 0 relative to the
        curve laws, evaluated here over the executable secp256k1)
  signer := wif <secret> <compressed> | hd <HD> | keyhd <HD> (None | <fp> <n> <idx>*n) | keypub
          | desc <n> <single>*n
  The signature maps of the dumped PSBT are sorted by key (Python iterates over sets; the order of NEW entries is
  unspecified there and a parameter of the model).
-/
namespace Embit.Driver.SignDrv
open Embit Embit.Crypto Embit.Model Embit.Model.SignWith Embit.Driver Embit.Keys

/-- the hash functions of the driver: SHA-256 / HMAC-SHA256 (`shaOps`, as for C07 / C08) and the key environment of
    C09 / C10 (HMAC-SHA512, HASH160, tagged SHA-256, Base58Check) -/
def realHashes : Hashes := ⟨Driver.Hs, KeyDrv.keyEnv none none⟩

/-- the curve record of the key models the signing model runs over: the BRIDGED record of the C07 / C08 curve
    (`toKeys Driver.E`, `Driver.E` = the lawful record `Crypto.secpLawful`), so that the object corresponded with embit
    is the object `Props/C02Y` / `Props/C02Z` speak about -/
abbrev HD := HDKey (toKeys Driver.E)
def env : Env := realHashes.env

/-- the `Ops` instance of the driver IS `opsOf` over the executable secp256k1 and the executable hashes -/
def concreteOps : Ops HD := opsOf Driver.E realHashes Driver.fuel

/-- the key predicates `PSBT.parse` uses in the `sign.*` ops: the parsers of the key model over the same curve record
    (`keyOpsOf`, the instance `Props/C02Y.parsed_added_sigs_valid` speaks about); the extended-key predicate (no role in
    the theorems) is the one of the other PSBT ops -/
def signKeyOps : KeyOps := keyOpsOf Driver.E concreteKeyOps.validXpub

/-- tokens are parsed over the key driver's curve record, which is the same record (`KeyDrv.secpOps` is
    `toKeys Crypto.secpLawful` by definition) -/
def convKey : KeyObj KeyDrv.secpOps → KeyObj (toKeys Driver.E)
  | .priv k => .priv k
  | .pub k => .pub ⟨k.point, k.compressed⟩

def convHD (k : KeyDrv.HD) : HD :=
  { key := convKey k.key, chainCode := k.chainCode, version := k.version, depth := k.depth,
    fingerprint := k.fingerprint, childNumber := k.childNumber }

def tokSingle : TokM (Single HD) := do
  let kind ← tok
  if kind == "wif" then
    let s ← tokBytes
    let c ← tokNat
    pure (.wif s (c != 0))
  else if kind == "hd" then
    let k ← KeyDrv.tokHD
    pure (.hd (convHD k))
  else if kind == "keyhd" then
    let k ← KeyDrv.tokHD
    let fp ← tokOptBytes
    match fp with
    | none => pure (.keyHd (convHD k) none)
    | some f =>
      let path ← tokCounted tokNat
      pure (.keyHd (convHD k) (some (f, path)))
  else if kind == "keypub" then pure .keyPub
  else failure

def tokSigner : TokM (Signer HD) := do
  let s ← get
  match s with
  | "desc" :: r =>
    set r
    let ks ← tokCounted tokSingle
    pure (.descriptor ks)
  | _ =>
    let k ← tokSingle
    pure (.single k)

def lexLe : Bytes → Bytes → Bool
  | [], _ => true
  | _ :: _, [] => false
  | a :: r, b :: t => a < b || (a == b && lexLe r t)

def sortKV (l : List (Bytes × Bytes)) : List (Bytes × Bytes) := l.mergeSort (fun a b => lexLe a.1 b.1)

def canonIn (s : InScope) : InScope := { s with partialSigs := sortKV s.partialSigs, tapSigs := sortKV s.tapSigs }

def showSlot : Slot → String
  | .partialSig k => "partial " ++ toHexP k
  | .tapScriptSig k => "tapscript " ++ toHexP k
  | .tapKeySig => "tapkey -"

def handle (op : String) (args : List String) : Option String :=
  match op with
  | "sign.run" => do
    let (sg, a, b) ← runTok (do let sg ← tokSigner; let a ← tokOptNat; let b ← tokBytes; pure (sg, a, b)) args
    match Psbt.parse signKeyOps Driver.Hs.sha256 0 b with
    | none => pure "none"
    | some p =>
      match signWith concreteOps sg a p with
      | none => pure "none"
      | some (p', n, ws) =>
        pure ("ok " ++ toString n ++ " " ++ toString ws.length ++ " "
          ++ showPsbt { p' with inputs := p'.inputs.map canonIn })
  | "sign.trace" => do
    let (sg, a, b) ← runTok (do let sg ← tokSigner; let a ← tokOptNat; let b ← tokBytes; pure (sg, a, b)) args
    match Psbt.parse signKeyOps Driver.Hs.sha256 0 b with
    | none => pure "none"
    | some p =>
      match signWith concreteOps sg a p with
      | none => pure "none"
      | some (_, n, ws) =>
        pure (joinToks (["ok", toString n] ++ ws.flatMap fun (i, sl, v) => [toString i, showSlot sl, toHexP v]))
  | "sign.verify" => do
    let (sg, a, b) ← runTok (do let sg ← tokSigner; let a ← tokOptNat; let b ← tokBytes; pure (sg, a, b)) args
    match Psbt.parse signKeyOps Driver.Hs.sha256 0 b with
    | none => pure "none"
    | some p =>
      match signWith concreteOps sg a p with
      | none => pure "none"
      | some (_, _, ws) =>
        pure ("ok " ++ toString (ws.filter (fun w => !writeValid Driver.E Driver.Hs p w)).length ++ " " ++ toString ws.length)
  | "sign.view" => do
    let (sg, a, b) ← runTok (do let sg ← tokSigner; let a ← tokOptNat; let b ← tokBytes; pure (sg, a, b)) args
    match Psbt.parse signKeyOps Driver.Hs.sha256 0 b with
    | none => pure "none"
    | some p =>
      match viewSignWith concreteOps sg a p with
      | none => pure "none"
      | some (out, n, _, _) => pure ("ok " ++ toString n ++ " " ++ toHexP out)
  | _ => none

end Embit.Driver.SignDrv

namespace Embit.Driver
def handleSignWith := SignDrv.handle
end Embit.Driver
