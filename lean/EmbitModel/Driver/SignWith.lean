import EmbitModel.Driver.Psbt
import EmbitModel.Driver.Keys
import EmbitModel.Driver.Secp
import EmbitModel.Model.SignWith
import EmbitModel.Model.SignWithView
/-
  Line-protocol ops for C02X: the model of `PSBT.sign_with` over the CONCRETE secp256k1 / SHA-256 / RIPEMD-160 /
  HMAC-SHA512 (the executable models of C07 / C09 / C10 instantiate `SignWith.Ops`), so the model produces the very
  signatures embit produces and whole resulting PSBTs are compared.

    sign.run <signer> <authorised> <psbt>   ->  ok <count> <ntrace> <psbt dump>   |  none
    sign.trace <signer> <authorised> <psbt> ->  ok <count> {<input> <slot> <key> <value>}*
    sign.view <signer> <authorised> <psbt>  ->  ok <count> <bytes written to sig_stream>   (PSBTView.sign_with)
  signer := wif <secret> <compressed> | hd <HD> | keyhd <HD> (None | <fp> <n> <idx>*n) | keypub
          | desc <n> <single>*n
  The signature maps of the dumped PSBT are sorted by key (Python iterates over sets; the order of NEW entries is
  unspecified there and a parameter of the model).
-/
namespace Embit.Driver.SignDrv
open Embit Embit.Crypto Embit.Model Embit.Model.SignWith Embit.Driver Embit.Keys

abbrev HD := KeyDrv.HD
def env : Env := KeyDrv.keyEnv none none

def concreteOps : Ops HD where
  sha := sha256
  hash160 := fun b => ripemd160 (sha256 b)
  secOf := fun sk c => (PrivateKey.sec KeyDrv.secpOps ⟨ofBe sk, c, 0⟩).getD []
  derive := fun k path => k.derive env (path.map Int.ofNat)
  hdSecret := fun k => match k.key with
    | .priv pk => beN 32 pk.secret
    | .pub _ => []
  hdFingerprint := fun k => (k.myFingerprint env).getD []
  tapTweak := fun sk h =>
    (PrivateKey.taprootTweak KeyDrv.secpOps env ⟨ofBe sk, true, 0⟩ h).map (fun k => beN 32 k.secret)
  ecdsaSign := fun sk h =>
    match PySecp.privateKeySign (fun ex => PySecp.ecdsaSign Driver.E Driver.Hs Driver.fuel h sk ex) true with
    | some (sig, _) => PySecp.ecdsaSignatureSerializeDer sig
    | none => none
  schnorrSign := fun sk h => PySecp.schnorrsigSign Driver.E Driver.Hs h sk none
  orderD := id
  orderK := id

def tokSingle : TokM (Single HD) := do
  let kind ← tok
  if kind == "wif" then
    let s ← tokBytes
    let c ← tokNat
    pure (.wif s (c != 0))
  else if kind == "hd" then
    let k ← KeyDrv.tokHD
    pure (.hd k)
  else if kind == "keyhd" then
    let k ← KeyDrv.tokHD
    let fp ← tokOptBytes
    match fp with
    | none => pure (.keyHd k none)
    | some f =>
      let path ← tokCounted tokNat
      pure (.keyHd k (some (f, path)))
  else if kind == "keypub" then pure .keyPub
  else failure

def tokSigner : TokM (Signer HD) := do
  let s ← get
  match s with
  | "desc" :: r =>
    set r
    let ks ← tokCounted tokSingle
    pure (.descriptor ks)
  | _ =>
    let k ← tokSingle
    pure (.single k)

def lexLe : Bytes → Bytes → Bool
  | [], _ => true
  | _ :: _, [] => false
  | a :: r, b :: t => a < b || (a == b && lexLe r t)

def sortKV (l : List (Bytes × Bytes)) : List (Bytes × Bytes) := l.mergeSort (fun a b => lexLe a.1 b.1)

def canonIn (s : InScope) : InScope := { s with partialSigs := sortKV s.partialSigs, tapSigs := sortKV s.tapSigs }

def showSlot : Slot → String
  | .partialSig k => "partial " ++ toHexP k
  | .tapScriptSig k => "tapscript " ++ toHexP k
  | .tapKeySig => "tapkey -"

def handle (op : String) (args : List String) : Option String :=
  match op with
  | "sign.run" => do
    let (sg, a, b) ← runTok (do let sg ← tokSigner; let a ← tokOptNat; let b ← tokBytes; pure (sg, a, b)) args
    match Psbt.parse concreteKeyOps sha256 0 b with
    | none => pure "none"
    | some p =>
      match signWith concreteOps sg a p with
      | none => pure "none"
      | some (p', n, ws) =>
        pure ("ok " ++ toString n ++ " " ++ toString ws.length ++ " "
          ++ showPsbt { p' with inputs := p'.inputs.map canonIn })
  | "sign.trace" => do
    let (sg, a, b) ← runTok (do let sg ← tokSigner; let a ← tokOptNat; let b ← tokBytes; pure (sg, a, b)) args
    match Psbt.parse concreteKeyOps sha256 0 b with
    | none => pure "none"
    | some p =>
      match signWith concreteOps sg a p with
      | none => pure "none"
      | some (_, n, ws) =>
        pure (joinToks (["ok", toString n] ++ ws.flatMap fun (i, sl, v) => [toString i, showSlot sl, toHexP v]))
  | "sign.view" => do
    let (sg, a, b) ← runTok (do let sg ← tokSigner; let a ← tokOptNat; let b ← tokBytes; pure (sg, a, b)) args
    match Psbt.parse concreteKeyOps sha256 0 b with
    | none => pure "none"
    | some p =>
      match viewSignWith concreteOps sg a p with
      | none => pure "none"
      | some (out, n, _, _) => pure ("ok " ++ toString n ++ " " ++ toHexP out)
  | _ => none

end Embit.Driver.SignDrv

namespace Embit.Driver
def handleSignWith := SignDrv.handle
end Embit.Driver
