import EmbitModel.Driver.Proto
import EmbitModel.Crypto.Hmac
import EmbitModel.Crypto.Ripemd160
import EmbitModel.Crypto.SecpJac
import EmbitModel.Crypto.SecpLawful
import EmbitModel.Model.SignWithOps
import EmbitModel.Model.Bip32
import EmbitModel.Model.Base58Check
import EmbitModel.Spec.Bip32
import EmbitModel.Spec.Bip341Tweak
import EmbitModel.Spec.KeyEncodings
/-
  Line-protocol ops for C09 / C10: the key models and specs over the concrete secp256k1, SHA-256 / SHA-512 /
  RIPEMD-160 / HMAC and Base58Check. `hmac` / tagged-hash overrides (`None` or 64 / 32 bytes hex) let the harness
  reach the 2^-128 branches (I_L ≥ n, zero sums) on embit (by patching `bip32.hmac` / `hashes.tagged_hash`) and
  on the model alike.
-/
/- helpers live in their own namespace: other driver files define `dsha`, `tokBool`, `tokInt`, `ansBytes`, … -/
namespace Embit.Driver.KeyDrv
open Embit Embit.Crypto Embit.Keys Embit.Driver

/-- the curve record of the key ops (C09 / C10 and everything parsed with `tokHD` / `tokPub`): the BRIDGED lawful
    secp256k1 record, `toKeys Crypto.secpLawful` — `Keys.EcLaws KeyDrv.secpOps` is a theorem (Props/C08W
    `secpLawful_key_laws`). It replaced a hand-written record over `Option (Nat × Nat)` (junk points: second audit A-1),
    whose `mulG` was `SecpJac.mulG`; that function is still compared with the affine reference by `ec.mulcheck`. -/
def secpOps : Embit.Keys.EcOps := Embit.Model.SignWith.toKeys Crypto.secpLawful

def dsha (b : Bytes) : Bytes := sha256 (sha256 b)

def keyEnv (hmacOv tagOv : Option Bytes) : Env where
  hmac512 := match hmacOv with | some r => fun _ _ => r | none => hmacSha512
  hash160 := fun b => ripemd160 (sha256 b)
  tagged := match tagOv with
    | some r => fun _ _ => r
    | none => fun tag data => let t := sha256 tag; sha256 (t ++ t ++ data)
  b58enc := B58.encodeCheck dsha
  b58dec := B58.decodeCheck dsha

abbrev HD := HDKey secpOps

def tokInt : TokM Int := do
  let t ← tok
  match t.toInt? with
  | some n => pure n
  | none => failure

def tokBool : TokM Bool := do
  let n ← tokNat
  pure (n != 0)

def tokKeyObj : TokM (KeyObj secpOps) := do
  let kind ← tok
  if kind == "prv" then
    let s ← tokBytes
    let c ← tokBool
    pure (.priv ⟨ofBe s, c, 0⟩)
  else if kind == "pub" then
    let s ← tokBytes
    match pubkeyParse secpOps s with
    | some P => pure (.pub ⟨P, s.length == 33⟩)
    | none => failure
  else failure

def tokHD : TokM HD := do
  let key ← tokKeyObj
  let cc ← tokBytes
  let ver ← tokBytes
  let depth ← tokNat
  let fp ← tokBytes
  let cn ← tokNat
  pure { key := key, chainCode := cc, version := ver, depth := depth, fingerprint := fp, childNumber := cn }

def b2n (b : Bool) : String := if b then "1" else "0"

def showKeyObj : KeyObj secpOps → List String
  | .priv k => ["prv", toHexP (beN 32 k.secret), b2n k.compressed]
  | .pub k => ["pub", toHexP k.sec]

def showHD (k : HD) : String :=
  joinToks (showKeyObj k.key ++ [toHexP k.chainCode, toHexP k.version, toString k.depth, toHexP k.fingerprint,
    toString k.childNumber])

def ansHD : Option HD → String
  | some k => "ok " ++ showHD k
  | none => "none"

def ansBytes : Option Bytes → String
  | some b => "ok " ++ toHexP b
  | none => "none"

def showPub (k : PublicKey secpOps) : String := toHexP k.sec ++ " " ++ b2n k.compressed
def showPriv (k : PrivateKey) : String := toHexP (beN 32 k.secret) ++ " " ++ b2n k.compressed ++ " " ++ toString k.network

def tokPub : TokM (PublicKey secpOps) := do
  let s ← tokBytes
  match pubkeyParse secpOps s with
  | some P => pure ⟨P, s.length == 33⟩
  | none => failure

def tokPriv : TokM PrivateKey := do
  let s ← tokBytes
  let c ← tokBool
  let net ← tokNat
  pure ⟨ofBe s, c, net⟩

def handle (op : String) (args : List String) : Option String :=
  match op with
  | "bip32.child" => do
    let (k, i, h, ov) ← runTok (do
      let k ← tokHD; let i ← tokNat; let h ← tokBool; let ov ← tokOptBytes; pure (k, i, h, ov)) args
    pure (ansHD (k.child (keyEnv ov none) i h))
  | "bip32.derive" => do
    let (k, p) ← runTok (do let k ← tokHD; let p ← tokCounted tokInt; pure (k, p)) args
    pure (ansHD (k.derive (keyEnv none none) p))
  | "bip32.derivestr" => do
    let (k, p) ← runTok (do let k ← tokHD; let p ← tokBytes; pure (k, p)) args
    pure (ansHD (k.deriveStr (keyEnv none none) p))
  | "bip32.neuter" => do
    let (k, v) ← runTok (do let k ← tokHD; let v ← tokOptBytes; pure (k, v)) args
    pure (ansHD (k.toPublic (keyEnv none none) v))
  | "bip32.fp" => do
    let k ← runTok tokHD args
    pure (ansBytes (k.myFingerprint (keyEnv none none)))
  | "bip32.parsepath" => do
    let p ← runTok tokBytes args
    match parsePath p with
    | some l => pure ("ok " ++ joinToks (toString l.length :: l.map toString))
    | none => pure "none"
  | "bip32.pathstr" => do
    let (fp, p) ← runTok (do let fp ← tokOptBytes; let p ← tokCounted tokInt; pure (fp, p)) args
    pure ("ok " ++ toHexP (pathToStr p fp))
  | "tweak.pub" => do
    let (k, h, ov) ← runTok (do let k ← tokPub; let h ← tokBytes; let ov ← tokOptBytes; pure (k, h, ov)) args
    match k.taprootTweak (keyEnv none ov) h with
    | some r => pure ("ok " ++ showPub r)
    | none => pure "none"
  | "tweak.priv" => do
    let (k, h, ov) ← runTok (do let k ← tokPriv; let h ← tokBytes; let ov ← tokOptBytes; pure (k, h, ov)) args
    match k.taprootTweak secpOps (keyEnv none ov) h with
    | some r => pure ("ok " ++ showPriv r)
    | none => pure "none"
  | "tweak.hd" => do
    let (k, h) ← runTok (do let k ← tokHD; let h ← tokBytes; pure (k, h)) args
    pure (ansHD (k.taprootTweak (keyEnv none none) h))
  | "sec.parse" => do
    let b ← runTok tokBytes args
    match PublicKey.parse secpOps b with
    | some k => pure ("ok " ++ showPub k ++ " " ++ toHexP (pubkeySerialize secpOps k.point false))
    | none => pure "none"
  | "sec.read" => do
    let b ← runTok tokBytes args
    match PublicKey.readFrom secpOps b with
    | some (k, r) => pure ("ok " ++ showPub k ++ " " ++ toHexP r)
    | none => pure "none"
  | "sec.ser" => do
    let (k, c) ← runTok (do let k ← tokPub; let c ← tokBool; pure (k, c)) args
    pure ("ok " ++ toHexP (PublicKey.sec ⟨k.point, c⟩))
  | "sec.fromxonly" => do
    let b ← runTok tokBytes args
    match PublicKey.fromXonly secpOps b with
    | some k => pure ("ok " ++ showPub k)
    | none => pure "none"
  | "xonly.pub" => do
    let k ← runTok tokPub args
    pure ("ok " ++ toHexP k.xonly)
  | "xonly.priv" => do
    let k ← runTok tokPriv args
    pure (ansBytes (k.xonly secpOps))
  | "priv.init" => do
    let (b, c, net) ← runTok (do let b ← tokBytes; let c ← tokBool; let n ← tokNat; pure (b, c, n)) args
    match PrivateKey.init secpOps b c net with
    | some k => pure ("ok " ++ showPriv k)
    | none => pure "none"
  | "priv.parse" => do
    let b ← runTok tokBytes args
    match PrivateKey.parse secpOps b with
    | some k => pure ("ok " ++ showPriv k)
    | none => pure "none"
  | "priv.pub" => do
    let k ← runTok tokPriv args
    match k.getPublicKey secpOps with
    | some r => pure ("ok " ++ showPub r)
    | none => pure "none"
  | "wif.enc" => do
    let (k, net) ← runTok (do let k ← tokPriv; let n ← tokOptNat; pure (k, n)) args
    pure (ansBytes (k.wif (keyEnv none none) net))
  | "wif.dec" => do
    let s ← runTok tokBytes args
    match PrivateKey.fromWif secpOps (keyEnv none none) s with
    | some k => pure ("ok " ++ showPriv k)
    | none => pure "none"
  | "xkey.parse" => do
    let b ← runTok tokBytes args
    pure (ansHD (HDKey.parse secpOps (keyEnv none none) b))
  | "xkey.read" => do
    let b ← runTok tokBytes args
    match HDKey.readFrom secpOps (keyEnv none none) b with
    | some (k, r) => pure ("ok " ++ showHD k ++ " " ++ toHexP r)
    | none => pure "none"
  | "xkey.ser" => do
    let (k, v) ← runTok (do let k ← tokHD; let v ← tokOptBytes; pure (k, v)) args
    pure (ansBytes (k.serialize v))
  | "xkey.b58" => do
    let (k, v) ← runTok (do let k ← tokHD; let v ← tokOptBytes; pure (k, v)) args
    pure (ansBytes (k.toBase58 (keyEnv none none) v))
  | "xkey.fromb58" => do
    let s ← runTok tokBytes args
    pure (ansHD (HDKey.fromBase58 secpOps (keyEnv none none) s))
  | "xkey.init" => do
    let (key, cc, ver, depth, fp, cn) ← runTok (do
      let key ← tokKeyObj; let cc ← tokBytes; let ver ← tokOptBytes; let d ← tokNat; let fp ← tokBytes
      let cn ← tokNat; pure (key, cc, ver, d, fp, cn)) args
    pure (ansHD (HDKey.init (keyEnv none none) key cc ver depth fp cn))
  -- the specs as oracles
  | "spec.ckdpriv" => do
    let (k, c, i, ov) ← runTok (do
      let k ← tokBytes; let c ← tokBytes; let i ← tokNat; let ov ← tokOptBytes; pure (k, c, i, ov)) args
    match Spec.Bip32.CKDpriv secpOps (keyEnv ov none).hmac512 ⟨ofBe k, c⟩ i with
    | some r => pure ("ok " ++ toHexP (beN 32 r.k) ++ " " ++ toHexP r.c)
    | none => pure "none"
  | "spec.ckdpub" => do
    let (k, c, i, ov) ← runTok (do
      let k ← tokPub; let c ← tokBytes; let i ← tokNat; let ov ← tokOptBytes; pure (k, c, i, ov)) args
    match Spec.Bip32.CKDpub secpOps (keyEnv ov none).hmac512 ⟨k.point, c⟩ i with
    | some r => pure ("ok " ++ toHexP (Spec.Bip32.serP secpOps r.K) ++ " " ++ toHexP r.c)
    | none => pure "none"
  | "spec.neuter" => do
    let k ← runTok tokBytes args
    pure ("ok " ++ toHexP (Spec.Bip32.serP secpOps (Spec.Bip32.point secpOps (ofBe k))))
  | "spec.fp" => do
    let k ← runTok tokPub args
    pure ("ok " ++ toHexP (Spec.Bip32.fingerprint secpOps (keyEnv none none).hash160 k.point))
  | "spec.xpub" => do
    let (ver, d, fp, i, c, k) ← runTok (do
      let ver ← tokBytes; let d ← tokNat; let fp ← tokBytes; let i ← tokNat; let c ← tokBytes; let k ← tokPub
      pure (ver, d, fp, i, c, k)) args
    pure ("ok " ++ toHexP (Spec.Bip32.serializePub secpOps ver d fp i ⟨k.point, c⟩))
  | "spec.xprv" => do
    let (ver, d, fp, i, c, k) ← runTok (do
      let ver ← tokBytes; let d ← tokNat; let fp ← tokBytes; let i ← tokNat; let c ← tokBytes; let k ← tokBytes
      pure (ver, d, fp, i, c, k)) args
    pure ("ok " ++ toHexP (Spec.Bip32.serializePrv ver d fp i ⟨ofBe k, c⟩))
  | "spec.tappub" => do
    let (x, h, ov) ← runTok (do let x ← tokBytes; let h ← tokBytes; let ov ← tokOptBytes; pure (x, h, ov)) args
    match Spec.Bip341.tweakPubkey secpOps (keyEnv none ov).tagged (ofBe x) h with
    | some (par, qx) => pure ("ok " ++ b2n par ++ " " ++ toHexP (beN 32 qx))
    | none => pure "none"
  | "spec.tapsec" => do
    let (d, h, ov) ← runTok (do let d ← tokBytes; let h ← tokBytes; let ov ← tokOptBytes; pure (d, h, ov)) args
    match Spec.Bip341.tweakSeckey secpOps (keyEnv none ov).tagged (ofBe d) h with
    | some r => pure ("ok " ++ toHexP (beN 32 r))
    | none => pure "none"
  | "spec.sec" => do
    let (k, c) ← runTok (do let k ← tokPub; let c ← tokBool; pure (k, c)) args
    pure ("ok " ++ toHexP (Spec.KeyEnc.sec secpOps k.point c))
  | "spec.secdec" => do
    let b ← runTok tokBytes args
    match Spec.KeyEnc.secDecode secpOps b with
    | some (P, c) => pure ("ok " ++ toHexP (Spec.KeyEnc.sec secpOps P c) ++ " " ++ b2n c)
    | none => pure "none"
  | "spec.wif" => do
    let (pre, d, c) ← runTok (do let p ← tokBytes; let d ← tokBytes; let c ← tokBool; pure (p, d, c)) args
    pure ("ok " ++ toHexP (Spec.KeyEnc.wif (keyEnv none none).b58enc pre (ofBe d) c))
  -- primitives validated on every run
  | "ec.mulcheck" => do
    let k ← runTok tokNat args
    pure ("ok " ++ toHexP (Secp.secCompressed (Secp.mulG k)) ++ " " ++ toHexP (Secp.secCompressed (SecpJac.mulG k)))
  | "ec.pubfast" => do
    let k ← runTok tokNat args
    pure ("ok " ++ toHexP (Secp.secUncompressed (SecpJac.mulG k)))
  | "kb58c.enc" => do
    let b ← runTok tokBytes args
    pure ("ok " ++ toHexP (B58.encodeCheck dsha b))
  | "kb58c.dec" => do
    let s ← runTok tokBytes args
    pure (ansBytes (B58.decodeCheck dsha s))
  | "kb58.enc" => do
    let b ← runTok tokBytes args
    pure ("ok " ++ toHexP (B58.encode b))
  | "kb58.dec" => do
    let s ← runTok tokBytes args
    pure (ansBytes (B58.decode s))
  | "hash.hash160" => do
    let b ← runTok tokBytes args
    pure ("ok " ++ toHexP ((keyEnv none none).hash160 b))
  | "hash.tagged" => do
    let (t, b) ← runTok (do let t ← tokBytes; let b ← tokBytes; pure (t, b)) args
    pure ("ok " ++ toHexP ((keyEnv none none).tagged t b))
  | _ => none

end Embit.Driver.KeyDrv

namespace Embit.Driver
def handleKeys (op : String) (args : List String) : Option String := KeyDrv.handle op args
end Embit.Driver
