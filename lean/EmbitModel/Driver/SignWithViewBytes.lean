import EmbitModel.Driver.SignWith
import EmbitModel.Model.ViewSignBytes
/-
  Line-protocol op for the byte-level model of `PSBTView.sign_with` (Model/ViewSignBytes.lean), over the same concrete
  environment as `sign.run` / `sign.view` (Driver/SignWith.lean):

    sign.viewbytes <signer> <authorised> <stream offset> <view compress mode> <buffer>
        ->  ok <count> <bytes written to sig_stream>  |  none
  The view is opened on the raw buffer at the offset (`PSBTView.view(stream, compress=mode)` after `stream.seek(offset)`);
  every input scope is read from the buffer in that mode, digests are the view's streaming digests.
-/
namespace Embit.Driver.SignDrv
open Embit Embit.Crypto Embit.Model Embit.Model.SignWith Embit.Driver Embit.Keys

def handleViewBytes (op : String) (args : List String) : Option String :=
  match op with
  | "sign.viewbytes" => do
    let (sg, a, off, vc, buf) ← runTok (do
      let sg ← tokSigner; let a ← tokOptNat; let o ← tokNat; let vc ← tokNat; let b ← tokBytes
      pure (sg, a, o, vc, b)) args
    match View.open buf off with
    | none => pure "none"
    | some v =>
      match View.signWith signKeyOps concreteOps sg a buf v vc with
      | none => pure "none"
      | some (out, n) => pure ("ok " ++ toString n ++ " " ++ toHexP out)
  | _ => none

end Embit.Driver.SignDrv

namespace Embit.Driver
def handleSignWithViewBytes := SignDrv.handleViewBytes
end Embit.Driver
