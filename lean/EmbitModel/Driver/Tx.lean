import EmbitModel.Driver.Proto
import EmbitModel.Model.Tx
import EmbitModel.Spec.Wire
import EmbitModel.Crypto.Sha256
namespace Embit.Driver
open Embit

def tokTxIn : TokM TxIn := do
  let txid ← tokBytes
  let vout ← tokNat
  let ss ← tokBytes
  let sq ← tokNat
  let w ← tokCounted tokBytes
  pure { txid := txid, vout := vout, scriptSig := ss, sequence := sq, witness := w }

def tokTxOut : TokM TxOut := do
  let v ← tokNat
  let s ← tokBytes
  pure { value := v, spk := s }

def tokTx : TokM Tx := do
  let ver ← tokNat
  let lt ← tokNat
  let vin ← tokCounted tokTxIn
  let vout ← tokCounted tokTxOut
  pure { version := ver, vin := vin, vout := vout, locktime := lt }

def showTxIn (i : TxIn) : List String :=
  [toHexP i.txid, toString i.vout, toHexP i.scriptSig, toString i.sequence, toString i.witness.length]
  ++ i.witness.map toHexP

def showTxOut (o : TxOut) : List String := [toString o.value, toHexP o.spk]

def showTx (t : Tx) : String :=
  joinToks ([toString t.version, toString t.locktime, toString t.vin.length] ++ t.vin.flatMap showTxIn
    ++ [toString t.vout.length] ++ t.vout.flatMap showTxOut)

def handleTx (op : String) (args : List String) : Option String :=
  match op with
  | "tx.ser" => do
    let t ← runTok tokTx args
    pure ("ok " ++ toHexP (Model.Tx.ser t))
  | "tx.wire" => do
    let t ← runTok tokTx args
    pure ("ok " ++ toHexP (Spec.Wire.encode t))
  | "tx.txid" => do
    let t ← runTok tokTx args
    pure ("ok " ++ toHexP (Model.Tx.txid Crypto.sha256 t))
  | "tx.parse" => do
    let b ← runTok tokBytes args
    match Model.Tx.parse b with
    | some t => pure ("ok " ++ showTx t)
    | none => pure "none"
  | "sha256" => do
    let b ← runTok tokBytes args
    pure ("ok " ++ toHexP (Crypto.sha256 b))
  | _ => none

end Embit.Driver
