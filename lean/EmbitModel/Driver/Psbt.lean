import EmbitModel.Driver.Tx
import EmbitModel.Model.Psbt
import EmbitModel.Crypto.Secp256k1
import EmbitModel.Generated.Networks
namespace Embit.Driver
open Embit Embit.Model

/-- concrete key validators for the driver (theorems are parametric in `KeyOps`) -/
def concreteKeyOps : KeyOps where
  validSec := fun b => (b.length = 33 || b.length = 65) && (Crypto.Secp.secParse b).isSome
  validX := fun b => b.length = 32 && (Crypto.Secp.liftX (ofBe b) false).isSome
  validXpub := fun b =>
    b.length = 78 &&
    (let ver := b.take 4
     let depth := (b.drop 4).headD 0
     let fp := (b.drop 5).take 4
     let child := ofBe ((b.drop 9).take 4)
     let key := b.drop 45
     let isPriv := key.headD 1 == 0
     let kind := if isPriv then "prv" else "pub"
     let verOk := Generated.networks.any fun n => n.versions.any fun (l, v) => v == ver && (l.drop 1).toString == kind
     let keyOk := if isPriv then (let d := ofBe (key.drop 1); 0 < d && d < Crypto.Secp.n)
                  else (Crypto.Secp.secParse key).isSome && key.length = 33
     verOk && keyOk && (depth != 0 || (child == 0 && fp == [0, 0, 0, 0])))

def showKV (kv : KV) : String := toHexP kv.1 ++ ":" ++ toHexP kv.2
def showKVs (kvs : List KV) : String := if kvs.isEmpty then "-" else ",".intercalate (kvs.map showKV)

def showOptOut : Option TxOut → String
  | none => "None"
  | some o => toString o.value ++ "/" ++ toHexP o.spk

def showIn (ver : Option Nat) (s : InScope) : String :=
  joinToks ["I", showOptBytes s.txid, showOptNat s.vout, showOptNat s.sequence, showOptOut s.utxoS,
    showOptBytes s.txhash, showKVs (s.pairs ver)]

def showOut (ver : Option Nat) (s : OutScope) : String :=
  joinToks ["O", showOptNat s.value, showOptBytes s.spk, showKVs (s.pairs ver)]

def showPsbt (p : Psbt) : String :=
  joinToks ([showOptNat p.version, showOptNat p.txVersion, showOptNat p.locktime,
    showKVs (p.xpubs.map fun (x, d) => (x, Deriv.ser d)), showKVs p.unknown]
    ++ p.inputs.map (showIn p.version) ++ p.outputs.map (showOut p.version))

def handlePsbt (op : String) (args : List String) : Option String :=
  let ko := concreteKeyOps
  let sha := Crypto.sha256
  match op with
  | "psbt.parse" => do
    let (c, b) ← runTok (do let c ← tokNat; let b ← tokBytes; pure (c, b)) args
    match Psbt.parse ko sha c b with
    | some p => pure ("ok " ++ showPsbt p)
    | none => pure "none"
  | "psbt.roundtrip" => do
    let (c, b) ← runTok (do let c ← tokNat; let b ← tokBytes; pure (c, b)) args
    match Psbt.parse ko sha c b with
    | some p => match Psbt.ser p with
      | some out => pure ("ok " ++ toHexP out)
      | none => pure "err"
    | none => pure "none"
  | "psbt.tx" => do
    let (c, b) ← runTok (do let c ← tokNat; let b ← tokBytes; pure (c, b)) args
    match Psbt.parse ko sha c b with
    | some p => match Psbt.tx p with
      | some t => pure ("ok " ++ showTx t)
      | none => pure "err"
    | none => pure "none"
  | "psbt.verify" => do
    -- per input: verify(ignore_missing=True) outcome, then utxo used for fee/sighash
    let (c, b) ← runTok (do let c ← tokNat; let b ← tokBytes; pure (c, b)) args
    match Psbt.parse ko sha c b with
    | none => pure "none"
    | some p =>
      let rs : List (String × InScope) := p.inputs.map fun s => match InScope.verify sha s true with
        | none => ("raise", s)
        | some (ok, s') => (if ok then "true" else "false", s')
      let p' : Psbt := { p with inputs := rs.map (fun (x : String × InScope) => x.2) }
      let utx := (List.range p'.inputs.length).map fun i => showOptOut (p'.utxo i)
      let fee := match p'.fee with | some f => toString f | none => "err"
      pure ("ok " ++ joinToks (rs.map (fun (x : String × InScope) => x.1)) ++ " | " ++ joinToks utx ++ " | " ++ fee)
  | _ => none

end Embit.Driver
