import EmbitModel.Driver.Psbt
import EmbitModel.Model.PsbtVerify
/-
  Line-protocol op for C06X: `psbt.verifyall <compress> <ign 0|1> <hex>` — parse, then `PSBT.verify(ignore_missing)`
  as ONE call; answer: returned value (`true` / `false` / `raise`), the inputs' `is_verified` flags as left behind,
  `PSBT.is_verified` afterwards, the utxo in use per input and the fee afterwards.
-/
namespace Embit.Driver
open Embit Embit.Model

def showBoolV (b : Bool) : String := if b then "true" else "false"

def handlePsbtVerify (op : String) (args : List String) : Option String :=
  let ko := concreteKeyOps
  let sha := Crypto.sha256
  match op with
  | "psbt.verifyall" => do
    let (c, ign, b) ← runTok (do let c ← tokNat; let i ← tokNat; let b ← tokBytes; pure (c, i, b)) args
    match Psbt.parse ko sha c b with
    | none => pure "none"
    | some p =>
      let (p', r) := Psbt.verify sha p (ign != 0)
      let res := match r with | none => "raise" | some x => showBoolV x
      let flags := p'.inputs.map fun s => showBoolV s.verified
      let utx := (List.range p'.inputs.length).map fun i => showOptOut (p'.utxo i)
      let fee := match p'.fee with | some f => toString f | none => "err"
      pure ("ok " ++ res ++ " | " ++ joinToks flags ++ " | " ++ showBoolV p'.isVerified ++ " | " ++ joinToks utx ++ " | " ++ fee)
  | _ => none

end Embit.Driver
