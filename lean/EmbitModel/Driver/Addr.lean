import EmbitModel.Driver.Proto
import EmbitModel.Model.Address
import EmbitModel.Spec.Address
import EmbitModel.Generated.AddrFacts
import EmbitModel.Crypto.Sha256
/-
  Line-protocol ops for C11. Strings travel as the hex of their UTF-8 bytes (`-` = empty string).
-/
namespace Embit.Driver
open Embit Embit.Model

def dsha (b : Bytes) : Bytes := Crypto.sha256 (Crypto.sha256 b)

def tokStr : TokM (List Char) := do
  let b ← tokBytes
  match String.fromUTF8? (ByteArray.mk b.toArray) with
  | some s => pure s.toList
  | none => failure

def showStr (s : List Char) : String := toHexP (String.ofList s).toUTF8.toList

def tokBool : TokM Bool := do
  let n ← tokNat
  pure (n != 0)

def showNats (l : List Nat) : String := joinToks (toString l.length :: l.map toString)

def showRes (r : Option (Option String)) : String :=
  match r with
  | none => "none"
  | some none => "ok None"
  | some (some s) => "ok " ++ s

def tokEnc : TokM Bech32.Encoding := do
  let n ← tokNat
  if n == 2 then pure .bech32m else pure .bech32

def showEnc : Bech32.Encoding → String
  | .bech32 => "1"
  | .bech32m => "2"

def tokNet : TokM Network := do
  let a ← tokBytes
  let b ← tokBytes
  let h ← tokStr
  pure { p2pkh := a, p2sh := b, bech32 := h }

def handleAddr (op : String) (args : List String) : Option String :=
  match op with
  | "b58.enc" => do
    let b ← runTok tokBytes args
    pure ("ok " ++ showStr (Base58.encode b))
  | "b58.spec_enc" => do
    let b ← runTok tokBytes args
    pure ("ok " ++ showStr (Spec.Base58.encode b))
  | "b58.dec" => do
    let s ← runTok tokStr args
    match Base58.decode s with
    | some b => pure ("ok " ++ toHexP b)
    | none => pure "none"
  | "b58.enc_check" => do
    let b ← runTok tokBytes args
    pure ("ok " ++ showStr (Base58.encodeCheck dsha b))
  | "b58.spec_enc_check" => do
    let b ← runTok tokBytes args
    pure ("ok " ++ showStr (Spec.Base58.encodeCheck Crypto.sha256 b))
  | "b58.dec_check" => do
    let s ← runTok tokStr args
    match Base58.decodeCheck dsha s with
    | some b => pure ("ok " ++ toHexP b)
    | none => pure "none"
  | "bech32.polymod" => do
    let v ← runTok (tokCounted tokNat) args
    pure ("ok " ++ toString (Bech32.polymod v))
  | "bech32.convertbits" => do
    let (f, t, p, d) ← runTok (do
      let f ← tokNat; let t ← tokNat; let p ← tokBool; let d ← tokCounted tokNat; pure (f, t, p, d)) args
    match Bech32.convertbits d f t p with
    | some r => pure ("ok " ++ showNats r)
    | none => pure "none"
  | "bech32.raw_enc" => do
    let (e, h, d) ← runTok (do let e ← tokEnc; let h ← tokStr; let d ← tokCounted tokNat; pure (e, h, d)) args
    match Bech32.bech32Encode e h d with
    | some s => pure ("ok " ++ showStr s)
    | none => pure "none"
  | "bech32.raw_dec" => do
    let s ← runTok tokStr args
    match Bech32.bech32Decode s with
    | some (e, h, d) => pure ("ok " ++ showEnc e ++ " " ++ showStr h ++ " " ++ showNats d)
    | none => pure "none"
  | "bech32.enc" => do
    let (h, v, p) ← runTok (do let h ← tokStr; let v ← tokNat; let p ← tokBytes; pure (h, v, p)) args
    match Bech32.encode h v (p.map UInt8.toNat) with
    | some s => pure ("ok " ++ showStr s)
    | none => pure "none"
  | "bech32.spec_enc" => do
    let (h, v, p) ← runTok (do let h ← tokStr; let v ← tokNat; let p ← tokBytes; pure (h, v, p)) args
    pure ("ok " ++ showStr (Spec.Bech32.segwitEncode h v p))
  | "bech32.dec" => do
    let (h, s) ← runTok (do let h ← tokStr; let s ← tokStr; pure (h, s)) args
    match Bech32.decode h s with
    | some (v, p) => pure ("ok " ++ toString v ++ " " ++ showNats p)
    | none => pure "none"
  | "addr.type" => do
    let s ← runTok tokBytes args
    pure ("ok " ++ match Address.scriptType s with
      | none => "None" | some .p2pkh => "p2pkh" | some .p2sh => "p2sh" | some .p2wpkh => "p2wpkh"
      | some .p2wsh => "p2wsh" | some .p2tr => "p2tr")
  | "addr.of_script" => do
    let (n, s) ← runTok (do let n ← tokNet; let s ← tokBytes; pure (n, s)) args
    pure (showRes ((Address.address dsha n s).map (·.map showStr)))
  | "addr.spec" => do
    -- addr.spec <kind> <payload> <pkhVersion> <shVersion> <hrp>
    let (k, h, a, b, hrp) ← runTok (do
      let k ← tok; let h ← tokBytes; let a ← tokNat; let b ← tokNat; let hrp ← tokStr; pure (k, h, a, b, hrp)) args
    let p : Spec.Address.Params := { pkhVersion := UInt8.ofNat a, shVersion := UInt8.ofNat b, hrp := hrp }
    let std ← match k with
      | "p2pkh" => some (Spec.Address.Std.p2pkh h) | "p2sh" => some (.p2sh h) | "p2wpkh" => some (.p2wpkh h)
      | "p2wsh" => some (.p2wsh h) | "p2tr" => some (.p2tr h) | _ => none
    pure ("ok " ++ showStr (Spec.Address.addressOf Crypto.sha256 p std) ++ " " ++ toHexP std.script)
  | "addr.to_script" => do
    let s ← runTok tokStr args
    pure (showRes ((Address.toScript dsha Generated.addrNetworks s).map (·.map toHexP)))
  | "addr.to_script_old" => do
    let s ← runTok tokStr args
    pure (showRes ((Address.toScriptOld dsha Generated.addrNetworks s).map (·.map toHexP)))
  | _ => none

end Embit.Driver
