import EmbitModel.Driver.Proto
import EmbitModel.Crypto.SecpOps
import EmbitModel.Crypto.SecpLawful
import EmbitModel.Model.PySecp
import EmbitModel.Spec.LibsecpContract
/-
  Line-protocol ops for C07 / C08:
    py.<binding function> …        model of py_secp256k1 (Model/PySecp.lean) over the concrete secp256k1
    contract.<binding function> …  contract of the wrapped libsecp256k1 function (Spec/LibsecpContract.lean)
    der.parse / der.ser / der.spec, rfc6979 / rfc6979.spec, schnorr.sign / schnorr.verify (spec, BIP340),
    ecdsa.verify (spec, SEC 1 — the independent verifier), priv.sign (PrivateKey.sign with grinding),
    sig.parse (Signature.parse)
  Answers: `ok <tokens>` or `none`; bytes hex, Bool as True/False.
-/
namespace Embit.Driver
open Embit Embit.Crypto Embit.Model

/-- the curve record every op of this file (and `sign.*`, `sigcheck.*`, and through `toKeys` the key ops) evaluates:
    the LAWFUL secp256k1 record (`EcLaws Driver.E` is a theorem: Props/C08W `secpLawful_ec_laws`). It replaced
    `Crypto.secpOps`, whose carrier contains junk points (`Props/C02Z.old_driver_record_unlawful`); that record is now
    used only by the differential ops `ecops.*` of Driver/PyCurve.lean. -/
def E : EcOps := secpLawful
def Hs := shaOps
/-- bound on RFC 6979 retries (each has probability ≈ 2^-128) -/
def fuel : Nat := 64

def tokInt : TokM Int := do
  let t ← tok
  match t.toInt? with
  | some n => pure n
  | none => failure

def showPyBool (b : Bool) : String := if b then "True" else "False"

def ansBytes : Option Bytes → String
  | some b => "ok " ++ toHexP b
  | none => "none"

def ansBool : Option Bool → String
  | some b => "ok " ++ showPyBool b
  | none => "none"

def tok1 := tokBytes
def tok2 : TokM (Bytes × Bytes) := do let a ← tokBytes; let b ← tokBytes; pure (a, b)
def tok3 : TokM (Bytes × Bytes × Bytes) := do let a ← tokBytes; let b ← tokBytes; let c ← tokBytes; pure (a, b, c)
def tok2o : TokM (Bytes × Bytes × Option Bytes) := do
  let a ← tokBytes; let b ← tokBytes; let c ← tokOptBytes; pure (a, b, c)

/-- `Signature.parse` + what `PublicKey.verify` says, under the py model -/
def handlePy (fn : String) (args : List String) : Option String :=
  match fn with
  | "ec_pubkey_create" => do let a ← runTok tok1 args; pure (ansBytes (PySecp.ecPubkeyCreate E a))
  | "ec_pubkey_parse" => do let a ← runTok tok1 args; pure (ansBytes (PySecp.ecPubkeyParse E a))
  | "ec_pubkey_serialize" => do
    let (a, f) ← runTok (do let a ← tokBytes; let f ← tokNat; pure (a, f)) args
    pure (ansBytes (PySecp.ecPubkeySerialize E a f))
  | "ecdsa_signature_parse_compact" => do let a ← runTok tok1 args; pure (ansBytes (PySecp.ecdsaSignatureParseCompact E a))
  | "ecdsa_signature_parse_der" => do let a ← runTok tok1 args; pure (ansBytes (PySecp.ecdsaSignatureParseDer E a))
  | "ecdsa_signature_serialize_der" => do let a ← runTok tok1 args; pure (ansBytes (PySecp.ecdsaSignatureSerializeDer a))
  | "ecdsa_signature_serialize_compact" => do let a ← runTok tok1 args; pure (ansBytes (PySecp.ecdsaSignatureSerializeCompact a))
  | "ecdsa_signature_normalize" => do let a ← runTok tok1 args; pure (ansBytes (PySecp.ecdsaSignatureNormalize E a))
  | "ecdsa_verify" => do let (a, b, c) ← runTok tok3 args; pure (ansBool (PySecp.ecdsaVerify E a b c))
  | "ecdsa_sign" => do let (a, b, c) ← runTok tok2o args; pure (ansBytes (PySecp.ecdsaSign E Hs fuel a b c))
  | "ec_seckey_verify" => do let a ← runTok tok1 args; pure (ansBool (PySecp.ecSeckeyVerify E a))
  | "ec_privkey_negate" => do let a ← runTok tok1 args; pure (ansBytes (PySecp.ecPrivkeyNegate E a))
  | "ec_pubkey_negate" => do let a ← runTok tok1 args; pure (ansBytes (PySecp.ecPubkeyNegate E a))
  | "ec_privkey_tweak_add" => do let (a, b) ← runTok tok2 args; pure (ansBytes (PySecp.ecPrivkeyTweakAdd E a b))
  | "ec_pubkey_tweak_add" => do let (a, b) ← runTok tok2 args; pure (ansBytes (PySecp.ecPubkeyTweakAdd E a b))
  | "ec_privkey_add" => do let (a, b) ← runTok tok2 args; pure (ansBytes (PySecp.ecPrivkeyAdd E a b))
  | "ec_pubkey_add" => do let (a, b) ← runTok tok2 args; pure (ansBytes (PySecp.ecPubkeyAdd E a b))
  | "xonly_pubkey_from_pubkey" => do
    let a ← runTok tok1 args
    pure (match PySecp.xonlyPubkeyFromPubkey E a with
      | some (p, par) => "ok " ++ toHexP p ++ " " ++ showPyBool par
      | none => "none")
  | "schnorrsig_verify" => do let (a, b, c) ← runTok tok3 args; pure (ansBool (PySecp.schnorrsigVerify E Hs a b c))
  | "keypair_create" => do let a ← runTok tok1 args; pure (ansBytes (PySecp.keypairCreate E a))
  | "schnorrsig_sign" => do let (a, b, c) ← runTok tok2o args; pure (ansBytes (PySecp.schnorrsigSign E Hs a b c))
  | "ecdsa_sign_recoverable" => do let (a, b) ← runTok tok2 args; pure (ansBytes (PySecp.ecdsaSignRecoverableDirect E Hs fuel a b))
  | "ecdsa_recoverable_signature_serialize_compact" => do
    let a ← runTok tok1 args
    pure (match PySecp.ecdsaRecoverableSignatureSerializeCompact a with
      | some (c, i) => "ok " ++ toHexP c ++ " " ++ toString i
      | none => "none")
  | "ecdsa_recoverable_signature_parse_compact" => do
    let (a, i) ← runTok (do let a ← tokBytes; let i ← tokInt; pure (a, i)) args
    pure (ansBytes (PySecp.ecdsaRecoverableSignatureParseCompact E a i))
  | "ecdsa_recoverable_signature_convert" => do let a ← runTok tok1 args; pure (ansBytes (PySecp.ecdsaRecoverableSignatureConvert a))
  | "ecdsa_recover" => do let (a, b) ← runTok tok2 args; pure (ansBytes (PySecp.ecdsaRecover E a b))
  | _ => none

open Spec.Libsecp in
def handleContract (fn : String) (args : List String) : Option String :=
  match fn with
  | "ec_pubkey_create" => do let a ← runTok tok1 args; pure (ansBytes (ec_pubkey_create E a))
  | "ec_pubkey_parse" => do let a ← runTok tok1 args; pure (ansBytes (ec_pubkey_parse E a))
  | "ec_pubkey_serialize" => do
    let (a, f) ← runTok (do let a ← tokBytes; let f ← tokNat; pure (a, f)) args
    pure (ansBytes (ec_pubkey_serialize E a f))
  | "ecdsa_signature_parse_compact" => do let a ← runTok tok1 args; pure (ansBytes (ecdsa_signature_parse_compact E a))
  | "ecdsa_signature_parse_der" => do let a ← runTok tok1 args; pure (ansBytes (ecdsa_signature_parse_der E a))
  | "ecdsa_signature_serialize_der" => do let a ← runTok tok1 args; pure (ansBytes (ecdsa_signature_serialize_der a))
  | "ecdsa_signature_serialize_compact" => do let a ← runTok tok1 args; pure (ansBytes (ecdsa_signature_serialize_compact a))
  | "ecdsa_signature_normalize" => do let a ← runTok tok1 args; pure (ansBytes (ecdsa_signature_normalize E a))
  | "ecdsa_verify" => do let (a, b, c) ← runTok tok3 args; pure (ansBool (ecdsa_verify E a b c))
  | "ecdsa_sign" => do let (a, b, c) ← runTok tok2o args; pure (ansBytes (ecdsa_sign E Hs fuel a b c))
  | "ec_seckey_verify" => do let a ← runTok tok1 args; pure (ansBool (ec_seckey_verify E a))
  | "ec_privkey_negate" => do let a ← runTok tok1 args; pure (ansBytes (ec_privkey_negate E a))
  | "ec_pubkey_negate" => do let a ← runTok tok1 args; pure (ansBytes (ec_pubkey_negate E a))
  | "ec_privkey_tweak_add" => do let (a, b) ← runTok tok2 args; pure (ansBytes (ec_privkey_tweak_add E a b))
  | "ec_pubkey_tweak_add" => do let (a, b) ← runTok tok2 args; pure (ansBytes (ec_pubkey_tweak_add E a b))
  | "ec_privkey_add" => do let (a, b) ← runTok tok2 args; pure (ansBytes (ec_privkey_add E a b))
  | "ec_pubkey_add" => do let (a, b) ← runTok tok2 args; pure (ansBytes (ec_pubkey_add E a b))
  | "xonly_pubkey_from_pubkey" => do
    let a ← runTok tok1 args
    pure (match xonly_pubkey_from_pubkey E a with
      | some (p, par) => "ok " ++ toHexP p ++ " " ++ showPyBool par
      | none => "none")
  | "schnorrsig_verify" => do let (a, b, c) ← runTok tok3 args; pure (ansBool (schnorrsig_verify E Hs a b c))
  | "keypair_create" => do let a ← runTok tok1 args; pure (ansBytes (keypair_create E a))
  | "schnorrsig_sign" => do let (a, b, c) ← runTok tok2o args; pure (ansBytes (schnorrsig_sign E Hs a b c))
  | "ecdsa_sign_recoverable" => do let (a, b) ← runTok tok2 args; pure (ansBytes (ecdsa_sign_recoverable E Hs fuel a b))
  | "ecdsa_recoverable_signature_serialize_compact" => do
    let a ← runTok tok1 args
    pure (match ecdsa_recoverable_signature_serialize_compact a with
      | some (c, i) => "ok " ++ toHexP c ++ " " ++ toString i
      | none => "none")
  | "ecdsa_recoverable_signature_parse_compact" => do
    let (a, i) ← runTok (do let a ← tokBytes; let i ← tokInt; pure (a, i)) args
    pure (ansBytes (ecdsa_recoverable_signature_parse_compact E a i))
  | "ecdsa_recoverable_signature_convert" => do let a ← runTok tok1 args; pure (ansBytes (ecdsa_recoverable_signature_convert a))
  | "ecdsa_recover" => do let (a, b) ← runTok tok2 args; pure (ansBytes (ecdsa_recover E a b))
  | _ => none

def handleSecp (op : String) (args : List String) : Option String :=
  if op.startsWith "py." then handlePy (op.drop 3).toString args
  else if op.startsWith "contract." then handleContract (op.drop 9).toString args
  else match op with
  -- strict DER codec of the model: `der.parse <der>` -> r s (decimal), `der.ser r s`
  | "der.parse" => do
    let b ← runTok tokBytes args
    pure (match Der.parse E.n true b with
      | some (r, s) => "ok " ++ toString r ++ " " ++ toString s
      | none => "none")
  | "der.ser" => do
    let (r, s) ← runTok (do let r ← tokNat; let s ← tokNat; pure (r, s)) args
    pure ("ok " ++ toHexP (Der.serRS r s))
  | "der.spec" => do
    let (r, s) ← runTok (do let r ← tokNat; let s ← tokNat; pure (r, s)) args
    pure ("ok " ++ toHexP (Spec.Der.encode r s))
  -- nonce of the model (`deterministic_k`) and of RFC 6979 proper: d, 32-byte message, extra
  | "rfc6979" => do
    let (d, m, e) ← runTok (do let d ← tokNat; let m ← tokBytes; let e ← tokOptBytes; pure (d, m, e)) args
    pure (match PySecp.deterministicK Hs fuel E.n d (ofBe m) e with
      | some k => "ok " ++ toString k
      | none => "none")
  | "rfc6979.spec" => do
    let (d, m, e) ← runTok (do let d ← tokNat; let m ← tokBytes; let e ← tokOptBytes; pure (d, m, e)) args
    pure (match Spec.Rfc6979.nonce Hs.hmac256 fuel E.n d m e with
      | some k => "ok " ++ toString k
      | none => "none")
  -- independent verifiers: SEC 1 ECDSA on (SEC pubkey, msg, r, s) and BIP340 on (x-only key, msg, sig)
  | "ecdsa.verify" => do
    let (pk, m, r, s) ← runTok (do
      let pk ← tokBytes; let m ← tokBytes; let r ← tokNat; let s ← tokNat; pure (pk, m, r, s)) args
    pure (match SecpLawful.secParse pk with
      | some q => "ok " ++ showPyBool (Spec.Ecdsa.verify E q (ofBe m) r s) ++ " " ++
                  showPyBool (Spec.Ecdsa.isLowS E s)
      | none => "none")
  -- ECDSA signing exactly per SEC 1 + RFC 6979 (bits2octets reduction included) + low-S: msg key extra
  | "ecdsa.sign.rfc" => do
    let (m, sk, ex) ← runTok tok2o args
    let d := ofBe sk
    if m.length ≠ 32 ∨ sk.length ≠ 32 ∨ d = 0 ∨ d ≥ E.n then pure "none" else
    pure (match Spec.Rfc6979.nonce Hs.hmac256 fuel E.n d m ex with
      | none => "none"
      | some k =>
        match Spec.Ecdsa.signWith E d (ofBe m) k with
        | none => "none"
        | some (r, s) => "ok " ++ toHexP (Spec.Libsecp.sigStruct r (Spec.Ecdsa.normalizeS E s)))
  | "schnorr.verify" => do
    let (pk, m, sg) ← runTok tok3 args
    if pk.length ≠ 32 ∨ m.length ≠ 32 ∨ sg.length ≠ 64 then pure "none" else
    pure ("ok " ++ showPyBool (Spec.Bip340.verify E Hs pk m sg))
  | "schnorr.sign" => do
    let (d, m, a) ← runTok (do let d ← tokNat; let m ← tokBytes; let a ← tokOptBytes; pure (d, m, a)) args
    pure (ansBytes (Spec.Bip340.sign E Hs d m a))
  -- `PrivateKey(secret).sign(msg, grind)` over the py model: signature structure, DER, extra attempts
  | "priv.sign" => do
    let (sk, m, g) ← runTok (do let a ← tokBytes; let b ← tokBytes; let g ← tokNat; pure (a, b, g)) args
    if PySecp.ecSeckeyVerify E sk ≠ some true then pure "none" else
    pure (match PySecp.privateKeySign (fun ex => PySecp.ecdsaSign E Hs fuel m sk ex) (g = 1) with
      | some (sig, cnt) =>
        "ok " ++ toHexP sig ++ " " ++ toHexP ((PySecp.ecdsaSignatureSerializeDer sig).getD []) ++ " " ++ toString cnt
      | none => "none")
  | "sig.parse" => do
    let b ← runTok tokBytes args
    pure (ansBytes (PySecp.signatureParse (PySecp.ecdsaSignatureParseDer E) b))
  | "sig.parse.contract" => do
    let b ← runTok tokBytes args
    pure (ansBytes (PySecp.signatureParse (Spec.Libsecp.ecdsa_signature_parse_der E) b))
  | _ => none

end Embit.Driver
