import EmbitModel.Driver.Psbt
import EmbitModel.Spec.Bip370
/-
  Line-protocol op for the C04 deepening: `psbt.bip370 <hex>` — the transaction Spec/Bip370.lean assigns to the
  RAW maps of a PSBTv2 byte string (the maps are split by the key-value reader only; no typed parsing).
-/
namespace Embit.Driver
open Embit Embit.Model

/-- every scope up to the end of the buffer -/
def readScopes : Nat → Bytes → Option (List (List KV))
  | 0, _ => none
  | fuel+1, b =>
    if b.isEmpty then some [] else
    match readKVs b with
    | none => none
    | some (kvs, r) => (readScopes fuel r).map (kvs :: ·)

def handlePsbtX (op : String) (args : List String) : Option String :=
  match op with
  | "psbt.bip370" => do
    let b ← runTok tokBytes args
    match takeN 5 b with
    | none => pure "none"
    | some (m, r0) =>
      if m ≠ psbtMagic then pure "none" else
      match readKVs r0 with
      | none => pure "none"
      | some (g, r1) =>
        match readScopes (r1.length + 1) r1 with
        | none => pure "none"
        | some scopes =>
          -- PSBT_GLOBAL_INPUT_COUNT tells which maps are inputs
          let nin := ((Spec.Bip370.get g [0x04]).bind (parseAll Compact.read)).getD 0
          match Spec.Bip370.unsignedTx g (scopes.take nin) (scopes.drop nin) with
          | some t => pure ("ok " ++ showTx t)
          | none => pure "none"
  | _ => none

end Embit.Driver
