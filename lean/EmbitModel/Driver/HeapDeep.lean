import EmbitModel.Driver.Proto
import EmbitModel.Model.HeapDeep
/-
  C19 (audit2 B-7), line protocol for keyed memos under in-place edits of the caller's lists AND of the byte buffers
  in them (Model/HeapDeep.lean).
    memo.deep <kinds> <ops>         kinds: counted list of `d` | `s` | `a` (deep / shallow / aliases; one per method);
                                    ops: counted list of
                                      O              the library builds an object
                                      C c            the caller builds a buffer with contents [c]
                                      B r c          the caller edits ITS buffer r in place: contents now [c]
                                      N n r1 … rn    the caller builds a list of the buffers r1 … rn
                                      E k n r1 … rn  the caller replaces the elements of ITS list k in place
                                      M i            object i is mutated and its caches cleared
                                      T i m k m' k'  a digest that asks two memos: method m on list k, m' on k'
                                    answer per op: `s1` if a T answers differently from f(receiver, bytes now), `s0`
                                    if not, `-` for the other ops
-/
namespace Embit.Driver
open Embit Embit.HeapDeep

inductive DOp
  | plain (o : HeapDeep.Op)
  | digest (i m k m' k' : Nat)

def tokDeepKind : TokM HeapDeep.KeyKind := do
  let t ← tok
  match t with
  | "d" => pure .deep
  | "s" => pure .shallow
  | "a" => pure .aliases
  | _ => failure

def tokDOp : TokM DOp := do
  let t ← tok
  match t with
  | "O" => pure (.plain (.newObj []))
  | "C" => do let c ← tokNat; pure (.plain (.newCell [c]))
  | "B" => do let r ← tokNat; let c ← tokNat; pure (.plain (.editCell r [c]))
  | "N" => do let rs ← tokCounted tokNat; pure (.plain (.newArg rs))
  | "E" => do let k ← tokNat; let rs ← tokCounted tokNat; pure (.plain (.editArg k rs))
  | "M" => do let i ← tokNat; pure (.plain (.mutate i 1))
  | "T" => do
    let i ← tokNat; let m ← tokNat; let k ← tokNat; let m' ← tokNat; let k' ← tokNat
    pure (.digest i m k m' k')
  | _ => failure

/-- injective enough on the small traces the harness sends: position-weighted sum of the elements' contents -/
def deepF : Nat → List HeapDeep.Val → List (List HeapDeep.Val) → HeapDeep.Val :=
  fun m recv a => m + 7 * recv.sum + 31 * recv.length
    + 1000003 * (a.foldl (fun acc c => 257 * acc + c.sum + 1) 0)

def deepTrace (env : HeapDeep.Env) : HeapDeep.State → List DOp → List String
  | _, [] => []
  | st, .plain o :: ops => "-" :: deepTrace env (HeapDeep.step env st o) ops
  | st, .digest i m k m' k' :: ops =>
    let stale1 := HeapDeep.answer env st i m k != env.f m (st.recv i) (HeapDeep.deref st k)
    let st1 := HeapDeep.step env st (.query i m k)
    let stale2 := HeapDeep.answer env st1 i m' k' != env.f m' (st1.recv i) (HeapDeep.deref st1 k')
    let st2 := HeapDeep.step env st1 (.query i m' k')
    (if stale1 || stale2 then "s1" else "s0") :: deepTrace env st2 ops

def handleHeapDeep (op : String) (args : List String) : Option String :=
  match op with
  | "memo.deep" => do
    let (ks, ops) ← runTok (do
      let ks ← tokCounted tokDeepKind
      let ops ← tokCounted tokDOp
      pure (ks, ops)) args
    let env : HeapDeep.Env := { methods := ks, f := deepF }
    pure ("ok " ++ joinToks (deepTrace env HeapDeep.init ops))
  | _ => none

end Embit.Driver
