import EmbitModel.Driver.Proto
import EmbitModel.Crypto.Hmac
import EmbitModel.Crypto.Ripemd160
import EmbitModel.Crypto.Secp256k1
namespace Embit.Driver
open Embit Embit.Crypto

/-- reference primitives, exposed so that every run validates them against hashlib / embit -/
def handleHash (op : String) (args : List String) : Option String :=
  match op with
  | "hash.sha256" => do let b ← runTok tokBytes args; pure ("ok " ++ toHexP (sha256 b))
  | "hash.sha512" => do let b ← runTok tokBytes args; pure ("ok " ++ toHexP (sha512 b))
  | "hash.ripemd160" => do let b ← runTok tokBytes args; pure ("ok " ++ toHexP (ripemd160 b))
  | "hash.hmac256" => do
    let (k, m) ← runTok (do let k ← tokBytes; let m ← tokBytes; pure (k, m)) args
    pure ("ok " ++ toHexP (hmacSha256 k m))
  | "hash.hmac512" => do
    let (k, m) ← runTok (do let k ← tokBytes; let m ← tokBytes; pure (k, m)) args
    pure ("ok " ++ toHexP (hmacSha512 k m))
  | "hash.pbkdf2" => do
    let (pw, salt, it, l) ← runTok (do
      let a ← tokBytes; let b ← tokBytes; let c ← tokNat; let d ← tokNat; pure (a, b, c, d)) args
    pure ("ok " ++ toHexP (pbkdf2HmacSha512 pw salt it l))
  | "ec.pub" => do
    let k ← runTok tokNat args
    pure ("ok " ++ toHexP (Secp.secCompressed (Secp.mulG k)))
  | _ => none

end Embit.Driver
