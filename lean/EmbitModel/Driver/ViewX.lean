import EmbitModel.Driver.View
import EmbitModel.Driver.Sighash
import EmbitModel.Model.ViewSighash
import EmbitModel.Model.ViewWrite
namespace Embit.Driver
open Embit Embit.Model

/-- ext_flag annex script leaf_version codeseparator_pos -/
def tokTapExtra : TokM TapExtra := do
  let e ← tokNat
  let a ← tokOptBytes
  let s ← tokOptBytes
  let lv ← tokNat
  let cs ← tokOptNat
  pure { extFlag := e, annex := a, script := s, leafVer := lv, codesep := cs }

def handleViewX (op : String) (args : List String) : Option String :=
  let ko := concreteKeyOps
  let sha := Crypto.sha256
  match op with
  | "psbt.sighash" => do
    -- parse mode, input index, flag, taproot kwargs, PSBT bytes
    let (c, i, f, x, b) ← runTok (do
      let c ← tokNat; let i ← tokNat; let f ← tokNat; let x ← tokTapExtra; let b ← tokBytes; pure (c, i, f, x, b)) args
    match Psbt.parse ko sha c b with
    | none => pure "none"
    | some p => pure (showOptDigest (Psbt.sighash sha p i f x))
  | "view.sighash" => do
    -- stream offset, view mode, input index, flag, taproot kwargs, buffer
    let (off, vc, i, f, x, buf) ← runTok (do
      let o ← tokNat; let vc ← tokNat; let i ← tokNat; let f ← tokNat; let x ← tokTapExtra; let b ← tokBytes
      pure (o, vc, i, f, x, b)) args
    match View.open buf off with
    | none => pure "none"
    | some v => pure (showOptDigest (View.sighash ko sha buf v vc i f x))
  | "view.sighash.legacy" => do
    let (off, i, sc, f, buf) ← runTok (do
      let o ← tokNat; let i ← tokNat; let s ← tokBytes; let f ← tokNat; let b ← tokBytes; pure (o, i, s, f, b)) args
    match View.open buf off with
    | none => pure "none"
    | some v => pure (showOptDigest (View.sighashLegacy sha buf v i sc f))
  | "view.sighash.segwit" => do
    let (off, i, sc, val, f, buf) ← runTok (do
      let o ← tokNat; let i ← tokNat; let s ← tokBytes; let a ← tokNat; let f ← tokNat; let b ← tokBytes
      pure (o, i, s, a, f, b)) args
    match View.open buf off with
    | none => pure "none"
    | some v => pure (showOptDigest (View.sighashSegwit sha buf v i sc val f))
  | "view.sighash.taproot" => do
    let (off, i, spks, values, f, x, buf) ← runTok (do
      let o ← tokNat; let i ← tokNat; let spks ← tokCounted tokBytes; let values ← tokCounted tokNat
      let f ← tokNat; let x ← tokTapExtra; let b ← tokBytes; pure (o, i, spks, values, f, x, b)) args
    match View.open buf off with
    | none => pure "none"
    | some v => pure (showOptDigest (View.sighashTaproot sha buf v i spks values f x.extFlag x.annex x.script
        x.leafVer x.codesep))
  | "view.writel" => do
    -- off, view mode, write mode, extra input streams, extra output streams, buffer
    let (off, vc, c, ei, eo, buf) ← runTok (do
      let o ← tokNat; let vc ← tokNat; let c ← tokNat; let ei ← tokCounted tokBytes; let eo ← tokCounted tokBytes
      let b ← tokBytes; pure (o, vc, c, ei, eo, b)) args
    match View.open buf off with
    | none => pure "none"
    | some v => match View.writeToL ko sha buf v vc c ei eo with
      | some out => pure ("ok " ++ toHexP out)
      | none => pure "none"
  | "psbt.merge" => do
    -- the in-memory procedure: parse mode, write mode, extra streams, PSBT bytes -> original global scope ++ scopes
    let (vc, c, ei, eo, b) ← runTok (do
      let vc ← tokNat; let c ← tokNat; let ei ← tokCounted tokBytes; let eo ← tokCounted tokBytes
      let b ← tokBytes; pure (vc, c, ei, eo, b)) args
    match Psbt.parse ko sha vc b with
    | none => pure "none"
    | some p => match Psbt.mergeExtra ko sha c ei eo p with
      | some p' => match p'.ser with
        | some out => pure ("ok " ++ toHexP out)
        | none => pure "err"
      | none => pure "none"
  | _ => none

end Embit.Driver
