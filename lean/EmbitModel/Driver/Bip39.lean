import EmbitModel.Driver.Proto
import EmbitModel.Model.Bip39
import EmbitModel.Model.Bip39Str
import EmbitModel.Spec.Bip39Spec
import EmbitModel.Crypto.Sha256
import EmbitModel.Crypto.Hmac
/-
  Line-protocol ops for BIP39 (C15). Words travel as indices into the word list the harness uses
  (`List.range 2048` stands for any list of 2048 distinct words; a word that is not in the list is sent as a
  number ≥ 2048, for which the lookup fails exactly as `word in wordlist` does).
-/
namespace Embit.Driver
open Embit Embit.Crypto

def bip39List : List Nat := List.range 2048

def showIdxs (l : List Nat) : String := joinToks (toString l.length :: l.map toString)

def showOptB : Option Bytes → String
  | some b => "ok " ++ toHexP b
  | none => "none"

def showGroups (l : List (List Nat)) : String :=
  joinToks (toString l.length :: l.flatMap fun g => toString g.length :: g.map toString)

/-- UTF-8 of one code point (the harness never sends surrogates) -/
def utf8Cp (c : Nat) : Bytes :=
  if c < 0x80 then [UInt8.ofNat c]
  else if c < 0x800 then [UInt8.ofNat (0xC0 + c / 64), UInt8.ofNat (0x80 + c % 64)]
  else if c < 0x10000 then [UInt8.ofNat (0xE0 + c / 4096), UInt8.ofNat (0x80 + c / 64 % 64), UInt8.ofNat (0x80 + c % 64)]
  else [UInt8.ofNat (0xF0 + c / 262144), UInt8.ofNat (0x80 + c / 4096 % 64), UInt8.ofNat (0x80 + c / 64 % 64),
        UInt8.ofNat (0x80 + c % 64)]

def handleBip39 (op : String) (args : List String) : Option String :=
  match op with
  | "bip39.seedstr" => do
    -- `mnemonic_to_seed` on the STRING (C15X): validate flag, code points of the mnemonic, the code points for which
    -- `str.isspace` holds, a dictionary token (code points) -> index in the word list (tokens outside the list are
    -- absent and get an index that no list has), code points of the passphrase
    let (v, s, sps, dict, pw) ← runTok (do
      let v ← tokNat; let s ← tokCounted tokNat; let sps ← tokCounted tokNat
      let d ← tokCounted (do let w ← tokCounted tokNat; let i ← tokNat; pure (w, i))
      let p ← tokCounted tokNat; pure (v, s, sps, d, p)) args
    let word : List Nat → Nat := fun w => match dict.find? (fun e => e.1 == w) with
      | some (_, i) => i
      | none => 4096
    pure (showOptB (Model.Bip39.mnemonicToSeed (fun c => sps.contains c) utf8Cp word sha256 pbkdf2HmacSha512
      (if v != 0 then some bip39List else none) s pw))
  | "bip39.to_bytes" => do
    let (ign, ws) ← runTok (do let i ← tokNat; let w ← tokCounted tokNat; pure (i, w)) args
    pure (showOptB (Model.Bip39.toBytes sha256 bip39List (ign != 0) ws))
  | "bip39.valid" => do
    let ws ← runTok (tokCounted tokNat) args
    pure ("ok " ++ (if Model.Bip39.isValid sha256 bip39List ws then "1" else "0"))
  | "bip39.from_bytes" => do
    let e ← runTok tokBytes args
    match Model.Bip39.fromBytes sha256 bip39List e with
    | some ws => pure ("ok " ++ showIdxs ws)
    | none => pure "none"
  | "bip39.extract" => do
    let (bits, b, n) ← runTok (do let a ← tokNat; let b ← tokBytes; let c ← tokNat; pure (a, b, c)) args
    match Model.Bip39.extractIndex bits b n with
    | some v => pure ("ok " ++ toString v)
    | none => pure "none"
  | "bip39.seed" => do
    -- validate: 1 = wordlist given (validation first), 0 = wordlist=None
    let (v, ws, m, p) ← runTok (do
      let v ← tokNat; let w ← tokCounted tokNat; let m ← tokBytes; let p ← tokBytes; pure (v, w, m, p)) args
    pure (showOptB (Model.Bip39.toSeed sha256 pbkdf2HmacSha512 (if v != 0 then some bip39List else none) ws m p))
  | "bip39.candidates" => do
    -- nmax, then the indices of the words for which `startswith` holds
    let (nmax, hits) ← runTok (do let a ← tokNat; let h ← tokCounted tokNat; pure (a, h)) args
    pure ("ok " ++ showIdxs (Model.Bip39.findCandidates (fun w => hits.contains w) nmax [] bip39List))
  | "bip39.split" => do
    -- characters as numbers, 0 = any white-space character
    let cs ← runTok (tokCounted tokNat) args
    pure ("ok " ++ showGroups (Model.Bip39.splitWs (· == 0) [] cs))
  | "bip39.join" => do
    let ws ← runTok (tokCounted (tokCounted tokNat)) args
    pure ("ok " ++ showIdxs (Model.Bip39.joinSp 0 ws))
  -- the specification, as an independent oracle
  | "bip39.spec_decode" => do
    let ws ← runTok (tokCounted tokNat) args
    pure (showOptB (Spec.Bip39.decode sha256 bip39List ws))
  | "bip39.spec_decode_ext" => do
    let ws ← runTok (tokCounted tokNat) args
    pure (showOptB (Spec.Bip39.decodeExt sha256 bip39List ws))
  | "bip39.spec_encode" => do
    let e ← runTok tokBytes args
    if Spec.Bip39.allowedEntropy e then
      match Spec.Bip39.encode sha256 bip39List e with
      | some ws => pure ("ok " ++ showIdxs ws)
      | none => pure "none"
    else pure "none"
  | "bip39.spec_seed" => do
    let (m, p) ← runTok (do let m ← tokBytes; let p ← tokBytes; pure (m, p)) args
    pure ("ok " ++ toHexP (Spec.Bip39.seed pbkdf2HmacSha512 m p))
  | _ => none

end Embit.Driver
