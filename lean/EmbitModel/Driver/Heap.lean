import EmbitModel.Driver.Proto
import EmbitModel.Model.Heap
import EmbitModel.Generated.AliasFacts
/-
  C19 line-protocol ops.
  `alias.unsafe`                       names (hex of UTF-8) of the generated sites with `Site.safe = false`
  `alias.sites`                        number of generated sites
  `heap.trace <classes> <methods> <ops>`  runs an abstract history in the object-store model and reports, per
      operation, which EXISTING objects show other contents afterwards, which caller-owned argument objects
      changed, and (for a query) whether the answer differs from `f m (receiver) (argument)` — the aliasing /
      staleness pattern the harness compares with what the real code did.
-/
namespace Embit.Driver
open Embit Embit.Heap

def tokKind : TokM ParamKind := do
  let t ← tok
  match t with
  | "sd" => pure .storesDefault
  | "cp" => pure .copies
  | "ng" => pure .noneGuard
  | _ => failure

def tokHeapBool : TokM Bool := do
  let n ← tokNat
  pure (n != 0)

/-- a class: per container parameter its kind and the cell of its default object (one per Python default object:
    `InputScope()` inside every `PSBT(tx)` shares the one dict of `InputScope.__init__`), then `copiesSource` -/
def tokClass : TokM (ClassDesc × List Nat) := do
  let ps ← tokCounted (do let k ← tokKind; let d ← tokNat; pure (k, d))
  let c ← tokHeapBool
  pure (⟨ps.map (·.1), c⟩, ps.map (·.2))

def tokMethod : TokM MethodDesc := do
  let t ← tok
  let k ← match t with
    | "u" => pure MemoKind.uncached
    | "a" => pure MemoKind.keyedOnArgs
    | "n" => pure MemoKind.keyedOnNothing
    | _ => failure
  let mu ← tokHeapBool
  pure ⟨k, mu⟩

def tokArg : TokM (Option (List Val)) := do
  let t ← tok
  match t with
  | "D" => pure none
  | "L" => do
    let l ← tokCounted tokNat
    pure (some l)
  | _ => failure

def tokOp : TokM Op := do
  let t ← tok
  match t with
  | "A" => do let l ← tokCounted tokNat; pure (.newArg l)
  | "C" => do let c ← tokNat; let a ← tokCounted tokArg; pure (.construct c a)
  | "F" => do let c ← tokNat; let s ← tokNat; pure (.constructFrom c s)
  | "M" => do let i ← tokNat; let f ← tokNat; let v ← tokNat; pure (.mutate i f v)
  | "R" => do let i ← tokNat; let f ← tokNat; let v ← tokNat; pure (.mutateRaw i f v)
  | "Q" => do let i ← tokNat; let m ← tokNat; let k ← tokNat; pure (.query i m k)
  | _ => failure

def driverF : Nat → List (List Val) → List Val → Val :=
  fun m recv a => m + 7 * recv.flatten.sum + 1000003 * a.sum + 13 * a.length

def showIdx (l : List Nat) : String :=
  if l.isEmpty then "-" else ".".intercalate (l.map toString)

def traceStep (env : Env) (st : State) (op : Op) : State × String :=
  let st' := step env st op
  let objsCh := (List.range st.objs.length).filter fun j => obs st' j != obs st j
  let argsCh := (List.range st.pool.length).filter fun k => argObs st' k != argObs st k
  let stale := match op with
    | .query i m k => if i < st.objs.length ∧ m < env.methods.length ∧ k < st.pool.length then
        answer env st i m k != env.f m (obs st i) (argObs st k) else false
    | _ => false
  (st', s!"o{showIdx objsCh}/a{showIdx argsCh}/s{if stale then 1 else 0}")

def traceRun (env : Env) : State → List Op → List String
  | _, [] => []
  | st, op :: ops => let r := traceStep env st op; r.2 :: traceRun env r.1 ops

def nameHex (s : String) : String := toHexP s.toUTF8.toList

def handleHeap (op : String) (args : List String) : Option String :=
  match op with
  | "alias.unsafe" =>
    let bad := Gen.Alias.sites.filter fun s => !s.safe
    some ("ok " ++ (if bad.isEmpty then "-" else joinToks (bad.map fun s => nameHex s.name)))
  | "alias.sites" => some s!"ok {Gen.Alias.sites.length}"
  | "heap.trace" => do
    let (cs, ms, ops) ← runTok (do
      let cs ← tokCounted tokClass
      let ms ← tokCounted tokMethod
      let ops ← tokCounted tokOp
      pure (cs, ms, ops)) args
    let drefs := cs.map (·.2)
    let env : Env := { classes := cs.map (·.1), methods := ms,
                       defaultRef := fun c p => (drefs.getD c []).getD p 0, f := driverF }
    -- default objects live in the first cells (ids below 64); every default container is empty at import
    let st0 := init 64 (fun _ => [])
    pure ("ok " ++ joinToks (traceRun env st0 ops))
  | _ => none

end Embit.Driver
