import EmbitModel.Driver.Miniscript
import EmbitModel.Model.MiniscriptX
/-
  Line protocol, C13 deepened:
    ms.parserargs CTX TOKENS -> ok b1 b2     b1: the arguments have the shape the parser produces in CTX
                                             (`Ms.parserArgs`); b2: `Ms.argsOkW` (sorting pushes = sorting keys)
-/
namespace Embit.Driver
open Embit Embit.Miniscript

def handleMiniscriptX (op : String) (args : List String) : Option String :=
  match op with
  | "ms.parserargs" => do
    let (ctx, e) ← runTok (do let c ← tokCtx; let e ← tokMs; pure (c, e)) args
    pure (joinToks ["ok", showBool (e.parserArgs ctx), showBool e.argsOkW])
  | _ => none

end Embit.Driver
