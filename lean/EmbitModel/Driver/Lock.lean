import EmbitModel.Model.Lock
import EmbitModel.Generated.BindingFacts
/-
  Line protocol for C20 (the locking protocol of the binding layer).
    lock.fns                       -> ok name,name,…            (names of the probed table the driver was built from)
    lock.steps NAME                -> ok A,N2,C,R,C             (abstract steps of one function: Acquire, Native with k
                                                                 out-buffers, Copy-out, Release)
    lock.run THREADS SCHED         -> ok done;serial;v,v,…|…    THREADS = thread|thread|…, thread = NAME,NAME,… (or -);
                                                                 SCHED = tid,tid,… (one scheduler tick each; or -).
                                      per thread: finished?, results = results when run alone?, the values read
  A native call takes two ticks (enter, exit).
-/
namespace Embit.Driver
open Embit.Model.Lock Embit.Gen.Binding

def lookupFn (name : String) : Option BindingFn := bindingFns.find? (·.name == name)

def stepCode : AStep → String
  | .acq => "A"
  | .rel => "R"
  | .native _ _ outs => "N" ++ toString outs.length
  | .read _ => "C"

def splitNonEmpty (s : String) (sep : String) : List String :=
  if s == "-" then [] else (s.splitOn sep).filter (· ≠ "")

def parseThread (s : String) : Option (List (List AStep)) :=
  (splitNonEmpty s ",").mapM (fun n => (lookupFn n).map (·.steps))

def showVals (vs : List Val) : String :=
  if vs.isEmpty then "-" else ",".intercalate (vs.map toString)

def handleLock (op : String) (args : List String) : Option String :=
  match op, args with
  | "lock.fns", [] => some ("ok " ++ ",".intercalate (bindingFns.map (·.name)))
  | "lock.steps", [name] =>
    match lookupFn name with
    | some f => some ("ok " ++ (if f.steps.isEmpty then "-" else ",".intercalate (f.steps.map stepCode)))
    | none => some "none"
  | "lock.run", [threads, sched] =>
    match (threads.splitOn "|").mapM parseThread, (splitNonEmpty sched ",").mapM String.toNat? with
    | some ths, some sc =>
      let progs := progsOf ths
      let s := run sc (init progs)
      let per := (List.range ths.length).map (fun t =>
        let done := if (s.rest t).isEmpty then "1" else "0"
        let pre := (progs t).take ((progs t).length - (s.rest t).length)
        let serial := if s.res t == solo pre then "1" else "0"
        done ++ ";" ++ serial ++ ";" ++ showVals (s.res t))
      some ("ok " ++ "|".intercalate per)
    | _, _ => some "none"
  | _, _ => none

end Embit.Driver
