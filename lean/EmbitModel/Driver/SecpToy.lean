import EmbitModel.Driver.Proto
import EmbitModel.Model.PySecp
import EmbitModel.Spec.LibsecpContract
/-
  Line-protocol ops for C08V: `ecdsa_sign_recoverable` over the TOY curve `y² = x³ + 7` over 𝔽₄₃ (31 points,
  `G = (2, 12)`), nonce fixed by a constant HMAC. On secp256k1 the region where the recovery-id search of the old
  code differed from libsecp256k1 (nonce point with `x(R) ≥ n`) cannot be reached through the public API; on this
  curve 14 of the 30 nonce points lie in it. The harness runs the REAL python code with the curve constants of
  `embit.util.key` replaced by these (harness/toy_signrec.py) and compares.
    toy.py.ecdsa_sign_recoverable k z d        model of the code after fix `c08-signrec`
    toy.contract.ecdsa_sign_recoverable k z d  contract of `secp256k1_ecdsa_sign_recoverable`
    toy.pyold.ecdsa_sign_recoverable k z d     model of the code before the fix (the search) — for the tally only
  `k` nonce, `z` message, `d` key (decimal). The record is a Mathlib-free copy of `Embit.toyCurve`
  (Proofs/ToyCurve.lean); `Props/C08V.driver_toy_record_eq : Driver.Toy.curve = toyCurve := rfl`.
-/
namespace Embit.Driver.Toy
open Embit Embit.Model

def table : List (Nat × Nat) :=
  [(2, 12), (7, 7), (35, 21), (21, 18), (12, 12), (29, 31), (25, 18), (32, 40), (20, 40), (42, 7), (40, 25),
   (37, 36), (13, 21), (34, 40), (38, 21), (38, 22), (34, 3), (13, 22), (37, 7), (40, 18), (42, 36), (20, 3),
   (32, 3), (25, 25), (29, 12), (12, 31), (21, 25), (35, 22), (7, 36), (2, 31)]

def xyOf (P : Fin 31) : Option (Nat × Nat) := if P.val = 0 then none else table[P.val - 1]?

def find (f : Nat × Nat → Bool) : Option (Fin 31) :=
  ((List.range 31).find? fun k => k ≠ 0 && (match table[k - 1]? with | some xy => f xy | none => false)).map
    (Fin.ofNat 31)

def curve : EcOps where
  Pt := Fin 31
  add := fun a b => a + b
  neg := fun a => -a
  mul := fun k P => Fin.ofNat 31 (k * P.val)
  g := 1
  n := 31
  p := 43
  xy := xyOf
  ofXY := fun x y => find fun xy => xy.1 == x % 43 && xy.2 == y % 43
  liftX := fun x => find fun xy => xy.1 == x && xy.2 % 2 == 0
  invN := fun a => a ^ 29 % 31

/-- a hash record whose HMAC always returns `k`: RFC 6979 then yields the nonce `k` -/
def constH (k : Nat) : HashOps := { sha256 := id, hmac256 := fun _ _ => beN 32 k }

def ans : Option Bytes → String
  | some b => "ok " ++ toHexP b
  | none => "none"

def tok3n : TokM (Nat × Nat × Nat) := do let a ← tokNat; let b ← tokNat; let c ← tokNat; pure (a, b, c)

def handleSecpToy (op : String) (args : List String) : Option String :=
  match op with
  | "toy.py.ecdsa_sign_recoverable" => do
    let (k, z, d) ← runTok tok3n args
    pure (ans (PySecp.ecdsaSignRecoverableDirect curve (constH k) 2 (beN 32 z) (beN 32 d)))
  | "toy.contract.ecdsa_sign_recoverable" => do
    let (k, z, d) ← runTok tok3n args
    pure (ans (Spec.Libsecp.ecdsa_sign_recoverable curve (constH k) 2 (beN 32 z) (beN 32 d)))
  | "toy.pyold.ecdsa_sign_recoverable" => do
    let (k, z, d) ← runTok tok3n args
    pure (ans (PySecp.ecdsaSignRecoverable curve (constH k) 2 (beN 32 z) (beN 32 d)))
  | _ => none

end Embit.Driver.Toy
