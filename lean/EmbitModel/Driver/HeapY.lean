import EmbitModel.Driver.Proto
import EmbitModel.Model.HeapShared
import EmbitModel.Generated.AliasFacts
/-
  C19, shared state at module / class level — line protocol (Model/HeapShared.lean).
    shared.unsafe                 names (hex of UTF-8) of the generated shared-state sites with `SharedSite.safe = false`
    shared.sites                  number of generated shared-state sites
    shared.trace <makers> <methods> <ops>
        makers : counted list; a maker is a counted list of field sources  `f` (fresh) | `g n` (global cell n when the argument
                 is left out) | `o n` (… or empty) | `a n` (always) | `t n` (table n)
        methods: counted list; a method is `<counted reads> <counted writes>`
        ops    : counted list of   K c <counted list of  D | L <counted contents>>   construct with maker c (D = argument left out)
                                   M i fld v                                   the caller appends v to container fld of object i
                                   C i m                                       obj_i.method_m([])
        answer per op: `o<existing objects whose contents changed>/p<0|1>/s<0|1>` — p1: the object just built looks like the
        same construction right after import; s1: the call's answer differs from what it is right after import on an
        equal receiver (the pattern the harness compares with what the real code did)
-/
namespace Embit.Driver
open Embit Embit.HeapShared

def tokFieldSrc : TokM FieldSrc := do
  let t ← tok
  match t with
  | "f" => pure .fresh
  | "g" => do let n ← tokNat; pure (.global n)
  | "o" => do let n ← tokNat; pure (.globalOr n)
  | "a" => do let n ← tokNat; pure (.globalAlways n)
  | "t" => do let n ← tokNat; pure (.constTable n)
  | _ => failure

def tokSharedMethod : TokM Method := do
  let r ← tokCounted tokNat
  let w ← tokCounted tokNat
  pure ⟨r, w⟩

def tokSharedArg : TokM (Option (List HeapShared.Val)) := do
  let t ← tok
  match t with
  | "D" => pure none
  | "L" => do let l ← tokCounted tokNat; pure (some l)
  | _ => failure

def tokSharedOp : TokM HeapShared.Op := do
  let t ← tok
  match t with
  | "K" => do let c ← tokNat; let a ← tokCounted tokSharedArg; pure (.make c a)
  | "M" => do let i ← tokNat; let f ← tokNat; let v ← tokNat; pure (.mutate i f v)
  | "C" => do let i ← tokNat; let m ← tokNat; pure (.call i m [])
  | _ => failure

def sharedF : Nat → List (List HeapShared.Val) → List HeapShared.Val → List (List HeapShared.Val) → HeapShared.Val :=
  fun m recv a cells => m + 7 * recv.flatten.sum + 13 * recv.flatten.length + 1000003 * a.sum
    + 101 * cells.flatten.sum + 10007 * cells.flatten.length

def showIdxY (l : List Nat) : String :=
  if l.isEmpty then "-" else ".".intercalate (l.map toString)

def sharedTraceStep (env : HeapShared.Env) (g0 : Nat → List HeapShared.Val) (st : HeapShared.State) (op : HeapShared.Op) :
    HeapShared.State × String :=
  let st' := HeapShared.step env st op
  let ch := (List.range st.objs.length).filter fun j => HeapShared.obs st' j != HeapShared.obs st j
  let pristine := match op with
    | .make c args => HeapShared.obs st' st.objs.length == HeapShared.obs (HeapShared.step env (HeapShared.init g0) (.make c args)) 0
    | _ => true
  let stale := match op with
    | .call i m a => HeapShared.answer env st i m a != env.f m (HeapShared.obs st i) a ((readsOf env m).map g0)
    | _ => false
  (st', s!"o{showIdxY ch}/p{if pristine then 1 else 0}/s{if stale then 1 else 0}")

def sharedTraceRun (env : HeapShared.Env) (g0 : Nat → List HeapShared.Val) : HeapShared.State → List HeapShared.Op → List String
  | _, [] => []
  | st, op :: ops => let r := sharedTraceStep env g0 st op; r.2 :: sharedTraceRun env g0 r.1 ops

def nameHexY (s : String) : String := toHexP s.toUTF8.toList

def handleHeapY (op : String) (args : List String) : Option String :=
  match op with
  | "shared.unsafe" =>
    let bad := Gen.Alias.sharedSites.filter fun s => !s.safe
    some ("ok " ++ (if bad.isEmpty then "-" else joinToks (bad.map fun s => nameHexY s.name)))
  | "shared.sites" => some s!"ok {Gen.Alias.sharedSites.length}"
  | "shared.trace" => do
    let (mk, ms, ops) ← runTok (do
      let mk ← tokCounted (tokCounted tokFieldSrc)
      let ms ← tokCounted tokSharedMethod
      let ops ← tokCounted tokSharedOp
      pure (mk, ms, ops)) args
    let env : HeapShared.Env := { makers := mk.map fun f => ⟨f⟩, methods := ms, f := sharedF }
    let g0 : Nat → List HeapShared.Val := fun _ => []
    pure ("ok " ++ joinToks (sharedTraceRun env g0 (HeapShared.init g0) ops))
  | _ => none

end Embit.Driver
