import EmbitModel.Model.EcOps
/-
  BIP340 Schnorr signatures over an abstract curve, written from the BIP ("Default Signing", "Verification").
  `bytes(x)` is the 32-byte big-endian encoding, `hash_tag` the tagged hash.
-/
namespace Embit.Spec.Bip340

variable (E : EcOps) (H : HashOps)

def bytes32 (x : Nat) : Bytes := beN 32 x

/-- `lift_x(x)`: fails when `x ≥ p` or no point has this x; otherwise the point with even y -/
def liftX (x : Nat) : Option E.Pt := if x ≥ E.p then none else E.liftX x

def hasEvenY (P : E.Pt) : Bool :=
  match E.xy P with
  | none => false
  | some (_, y) => y % 2 = 0

/-- Verification: `pk`, `m` 32 bytes, `sig` 64 bytes -/
def verify (pk m sig : Bytes) : Bool :=
  match liftX E (ofBe pk) with
  | none => false
  | some P =>
    let r := ofBe (sig.take 32)
    let s := ofBe (sig.drop 32)
    if r ≥ E.p then false else
    if s ≥ E.n then false else
    let e := ofBe (H.tagged "BIP0340/challenge" (bytes32 r ++ bytes32 (ofBe pk) ++ m)) % E.n
    let R := E.add (E.mul s E.g) (E.neg (E.mul e P))
    match E.xy R with
    | none => false
    | some (xR, yR) => yR % 2 = 0 && xR = r

/-- Default signing with secret key `d'`, message `m` and auxiliary data `a`; `a = none` is libsecp256k1's
    "no auxiliary randomness" mode in which the key is not masked (`t = bytes(d)`) -/
def sign (d' : Nat) (m : Bytes) (a : Option Bytes) : Option Bytes :=
  if d' = 0 ∨ d' ≥ E.n then none else
  match E.xy (E.mul d' E.g) with
  | none => none
  | some (xP, yP) =>
    let d := if yP % 2 = 0 then d' else E.n - d'
    let t := match a with
      | some a => bytes32 (d ^^^ ofBe (H.tagged "BIP0340/aux" a))
      | none => bytes32 d
    let rand := H.tagged "BIP0340/nonce" (t ++ bytes32 xP ++ m)
    let k' := ofBe rand % E.n
    if k' = 0 then none else
    match E.xy (E.mul k' E.g) with
    | none => none
    | some (xR, yR) =>
      let k := if yR % 2 = 0 then k' else E.n - k'
      let e := ofBe (H.tagged "BIP0340/challenge" (bytes32 xR ++ bytes32 xP ++ m)) % E.n
      some (bytes32 xR ++ bytes32 ((k + e * d) % E.n))

end Embit.Spec.Bip340
