import EmbitModel.Model.EcOps
import EmbitModel.Basic.Parse
import EmbitModel.Spec.Der
import EmbitModel.Spec.Rfc6979
import EmbitModel.Spec.Ecdsa
import EmbitModel.Spec.Bip340
/-
  The contract of every libsecp256k1 function that `embit/util/ctypes_secp256k1.py` shares with the pure-python
  fallback, AS WRAPPED: the documented result of the C function for each argument class (secp256k1.h,
  secp256k1_recovery.h, secp256k1_extrakeys.h, secp256k1_schnorrsig.h of the bundled secp256k1-zkp build) combined
  with what the Python wrapper does before the call (length / range / structure checks) and with the return code
  (0 -> ValueError). `none` = the wrapper raises an ordinary exception.

  Written from the headers and the standards (SEC 1, RFC 6979, BIP340, X.690), not from py_secp256k1. The opaque
  64-byte structures are those of this build: `secp256k1_pubkey` = x ‖ y and `secp256k1_ecdsa_signature` = r ‖ s,
  each half 32 bytes little-endian; `secp256k1_ecdsa_recoverable_signature` = r ‖ s ‖ recid;
  `secp256k1_keypair` = seckey (32 bytes big-endian) ‖ pubkey structure.
  Whether libsecp256k1 really behaves like this is validated differentially on every run (correspondence (ii)).
-/
namespace Embit.Spec.Libsecp
open Embit

variable (E : EcOps) (H : HashOps)

def EC_COMPRESSED : Nat := 258
def EC_UNCOMPRESSED : Nat := 2

/-! ### argument classes -/

/-- `secp256k1_ec_seckey_verify`: 32 big-endian bytes denoting an integer in `[1, n-1]` -/
def seckey (b : Bytes) : Option Nat :=
  if b.length = 32 ∧ 0 < ofBe b ∧ ofBe b < E.n then some (ofBe b) else none

/-- a tweak: a valid secret key or 32 zero bytes, i.e. an integer in `[0, n-1]` -/
def tweak (b : Bytes) : Option Nat :=
  if b.length = 32 ∧ ofBe b < E.n then some (ofBe b) else none

/-- a `secp256k1_pubkey` structure as the wrappers accept it (`_check_pubkey`): coordinates below `p`
    that satisfy the curve equation -/
def pubkeyOf (b : Bytes) : Option E.Pt :=
  if b.length = 64 then
    let x := ofLe (b.take 32)
    let y := ofLe (b.drop 32)
    if x < E.p ∧ y < E.p then E.ofXY x y else none
  else none

/-- the structure libsecp256k1 writes for a (finite) point -/
def pubkeyStruct (P : E.Pt) : Option Bytes :=
  (E.xy P).map fun (x, y) => leN 32 x ++ leN 32 y

/-- a `secp256k1_ecdsa_signature` structure: `(r, s)`, no range condition by itself -/
def sigOf (b : Bytes) : Option (Nat × Nat) :=
  if b.length = 64 then some (ofLe (b.take 32), ofLe (b.drop 32)) else none

def sigStruct (r s : Nat) : Bytes := leN 32 r ++ leN 32 s

/-! ### keys -/

/-- `secp256k1_ec_pubkey_create`: 0 when the secret is invalid -/
def ec_pubkey_create (secret : Bytes) : Option Bytes :=
  (seckey E secret).bind fun d => pubkeyStruct E (E.mul d E.g)

/-- `secp256k1_ec_pubkey_parse` restricted by the wrapper to 33 bytes with header 02/03 and 65 bytes with
    header 04: X (and Y) must be field elements and the point must be on the curve -/
def ec_pubkey_parse (sec : Bytes) : Option Bytes :=
  match sec with
  | hdr :: rest =>
    if rest.length = 32 ∧ (hdr = 0x02 ∨ hdr = 0x03) then
      let x := ofBe rest
      if x ≥ E.p then none else
      (E.liftX x).bind fun P => pubkeyStruct E (if hdr = 0x03 then E.neg P else P)
    else if rest.length = 64 ∧ hdr = 0x04 then
      let x := ofBe (rest.take 32)
      let y := ofBe (rest.drop 32)
      if x ≥ E.p ∨ y ≥ E.p then none else
      (E.ofXY x y).bind (pubkeyStruct E)
    else none
  | [] => none

/-- `secp256k1_ec_pubkey_serialize` (returns 1 always); the wrapper checks the flag and the structure -/
def ec_pubkey_serialize (pub : Bytes) (flag : Nat) : Option Bytes :=
  if flag ≠ EC_COMPRESSED ∧ flag ≠ EC_UNCOMPRESSED then none else
  (pubkeyOf E pub).bind fun P =>
    (E.xy P).map fun (x, y) =>
      if flag = EC_COMPRESSED then (if y % 2 = 0 then 0x02 else 0x03) :: beN 32 x
      else 0x04 :: beN 32 x ++ beN 32 y

def ec_seckey_verify (secret : Bytes) : Option Bool :=
  if secret.length ≠ 32 then none else some (seckey E secret).isSome

/-- `secp256k1_ec_seckey_negate`: 0 for an invalid key (the wrapper raises, fix 05), else `n - d` -/
def ec_privkey_negate (secret : Bytes) : Option Bytes :=
  (seckey E secret).map fun d => beN 32 (E.n - d)

/-- `secp256k1_ec_pubkey_negate` (returns 1 always) -/
def ec_pubkey_negate (pub : Bytes) : Option Bytes :=
  (pubkeyOf E pub).bind fun P => pubkeyStruct E (E.neg P)

/-- `secp256k1_ec_seckey_tweak_add`: 0 if the key or the tweak is invalid or the resulting key would be invalid
    (only when the tweak is the negation of the key); otherwise the sum modulo `n` -/
def ec_privkey_add (secret tweak32 : Bytes) : Option Bytes :=
  (seckey E secret).bind fun d =>
    (tweak E tweak32).bind fun t =>
      if d + t = E.n then none
      else some (beN 32 (if d + t < E.n then d + t else d + t - E.n))

/-- `secp256k1_ec_pubkey_tweak_add`: 0 if the tweak is invalid or the resulting key would be invalid
    (the point at infinity); otherwise `P + tG` -/
def ec_pubkey_add (pub tweak32 : Bytes) : Option Bytes :=
  (pubkeyOf E pub).bind fun P =>
    (tweak E tweak32).bind fun t =>
      pubkeyStruct E (E.add (E.mul t E.g) P)

/-- in-place variants: the buffer content after a successful call -/
def ec_privkey_tweak_add := ec_privkey_add E
def ec_pubkey_tweak_add := ec_pubkey_add E

/-! ### ECDSA signature codecs -/

/-- `secp256k1_ecdsa_signature_parse_compact`: R ‖ S big-endian; invalid when R or S is outside `[0, n-1]`;
    zero is allowed -/
def ecdsa_signature_parse_compact (c : Bytes) : Option Bytes :=
  if c.length ≠ 64 then none else
  let r := ofBe (c.take 32)
  let s := ofBe (c.drop 32)
  if r < E.n ∧ s < E.n then some (sigStruct r s) else none

def ecdsa_signature_serialize_compact (sig : Bytes) : Option Bytes :=
  (sigOf sig).map fun (r, s) => beN 32 r ++ beN 32 s

/-- `secp256k1_ecdsa_signature_serialize_der`: DER with shortest non-negative INTEGERs (78 bytes always suffice) -/
def ecdsa_signature_serialize_der (sig : Bytes) : Option Bytes :=
  (sigOf sig).map fun (r, s) => Spec.Der.encode r s

/-- DER length octets, X.690 8.1.3 definite form, shortest encoding only (what libsecp256k1 accepts) -/
def readLen : Parser Nat
  | [] => none
  | b1 :: rest =>
    if b1 = 0xFF then none
    else if b1.toNat < 0x80 then some (b1.toNat, rest)
    else if b1 = 0x80 then none
    else
      let k := b1.toNat - 0x80
      if k > rest.length then none
      else if rest.head? = some 0 then none
      else if k > 8 then none
      else
        let l := ofBe (rest.take k)
        let rest' := rest.drop k
        if l > rest'.length then none
        else if l < 0x80 then none
        else some (l, rest')

/-- X.690 8.3.2: the first nine bits of a multi-octet INTEGER content may be neither all zero nor all one -/
def excessivePadding : Bytes → Bool
  | c0 :: c1 :: _ => (c0 = 0x00 && c1.toNat < 0x80) || (c0 = 0xFF && c1.toNat ≥ 0x80)
  | _ => false

/-- significant octets: at most one leading zero octet is skipped -/
def significant : Bytes → Bytes
  | c0 :: ctl => if c0 = 0x00 then ctl else c0 :: ctl
  | [] => []

def isNegative : Bytes → Bool
  | c0 :: _ => c0.toNat ≥ 0x80
  | [] => false

/-- the scalar libsecp256k1 stores for INTEGER content octets: the value when it is a non-negative integer below
    `n`, otherwise 0 ("even if the encoded numbers are out of range … signature validation with it is guaranteed to
    fail") -/
def contentValue (c : Bytes) : Nat :=
  if isNegative c ∨ (significant c).length > 32 ∨ ofBe (significant c) ≥ E.n then 0 else ofBe (significant c)

/-- an INTEGER element: tag 0x02, definite length ≥ 1 within bounds, no excessive padding -/
def readInt : Parser Nat
  | 0x02 :: rest =>
    match readLen rest with
    | none => none
    | some (l, body) =>
      if l = 0 ∨ l > body.length then none
      else if excessivePadding (body.take l) then none
      else some (contentValue E (body.take l), body.drop l)
  | _ => none

/-- `secp256k1_ecdsa_signature_parse_der`: SEQUENCE of exactly two INTEGERs filling the input -/
def parseDerRS (der : Bytes) : Option (Nat × Nat) :=
  match der with
  | 0x30 :: rest =>
    match readLen rest with
    | none => none
    | some (l, body) =>
      if l ≠ body.length then none else
      match readInt E body with
      | none => none
      | some (r, b1) =>
        match readInt E b1 with
        | none => none
        | some (s, b2) => if b2.isEmpty then some (r, s) else none
  | _ => none

def ecdsa_signature_parse_der (der : Bytes) : Option Bytes :=
  (parseDerRS E der).map fun (r, s) => sigStruct r s

/-- `secp256k1_ecdsa_signature_normalize`; the wrapper ignores the return code and (fix 11) rejects structures
    with r or s ≥ n -/
def ecdsa_signature_normalize (sig : Bytes) : Option Bytes :=
  (sigOf sig).bind fun (r, s) =>
    if r < E.n ∧ s < E.n then some (sigStruct r (Spec.Ecdsa.normalizeS E s)) else none

/-! ### ECDSA -/

/-- `secp256k1_ecdsa_verify`: 1 for a correct signature in lower-S form, 0 otherwise -/
def ecdsa_verify (sig msg pub : Bytes) : Option Bool :=
  if msg.length ≠ 32 then none else
  (sigOf sig).bind fun (r, s) =>
    (pubkeyOf E pub).map fun Q =>
      Spec.Ecdsa.isLowS E s && Spec.Ecdsa.verify E Q (ofBe msg) r s

/-- signing attempt `i` of `secp256k1_ecdsa_sign`: the `i`-th RFC 6979 candidate is skipped when it is not a
    valid nonce or yields r = 0 or s = 0 -/
def signAttempts (d z : Nat) (kv : Bytes × Bytes) : List Nat → Option (Nat × Nat × Nat)
  | [] => none
  | i :: rest =>
    let k := (Spec.Rfc6979.candidate H.hmac256 kv i).1
    if 1 ≤ k ∧ k < E.n then
      match Spec.Ecdsa.signWith E d z k with
      | some (r, s) => some (k, r, s)
      | none => signAttempts d z kv rest
    else signAttempts d z kv rest

/-- `(k, r, s)` of `secp256k1_ecdsa_sign` with the default nonce function (`nonce_function_rfc6979`: HMAC-DRBG of
    RFC 6979 seeded with key ‖ msg32 ‖ ndata) — `s` before the lower-S normalisation -/
def signCore (fuel : Nat) (d : Nat) (msg : Bytes) (extra : Option Bytes) : Option (Nat × Nat × Nat) :=
  signAttempts E H d (ofBe msg) (Spec.Rfc6979.init H.hmac256 (beN 32 d ++ msg ++ extra.getD [])) (List.range fuel)

/-- `secp256k1_ecdsa_sign`: "The created signature is always in lower-S form"; 0 when the secret key is invalid.
    The wrappers demand `extra_data` of exactly 32 bytes when given (fix 10). -/
def ecdsa_sign (fuel : Nat) (msg secret : Bytes) (extra : Option Bytes) : Option Bytes :=
  if msg.length ≠ 32 then none else
  if (extra.map fun e => e.length != 32) = some true then none else
  (seckey E secret).bind fun d =>
    (signCore E H fuel d msg extra).map fun (_, r, s) => sigStruct r (Spec.Ecdsa.normalizeS E s)

/-! ### x-only keys, keypairs, BIP340 -/

/-- `secp256k1_xonly_pubkey_from_pubkey` (returns 1 always): the even-Y point with the same X, and whether the
    key had to be negated -/
def xonly_pubkey_from_pubkey (pub : Bytes) : Option (Bytes × Bool) :=
  (pubkeyOf E pub).bind fun P =>
    (E.xy P).bind fun (_, y) =>
      let odd := y % 2 = 1
      (pubkeyStruct E (if odd then E.neg P else P)).map fun b => (b, odd)

/-- `secp256k1_keypair_create`: 0 when the secret is invalid -/
def keypair_create (secret : Bytes) : Option Bytes :=
  (ec_pubkey_create E secret).map fun pub => secret ++ pub

/-- `secp256k1_schnorrsig_verify`; the key must be a `secp256k1_xonly_pubkey` structure, i.e. hold the point
    with even Y (the wrappers reject anything else, fix 14) -/
def schnorrsig_verify (sig msg pub : Bytes) : Option Bool :=
  if sig.length ≠ 64 ∨ msg.length ≠ 32 then none else
  (pubkeyOf E pub).bind fun P =>
    (E.xy P).bind fun (x, y) =>
      if y % 2 = 1 then none else some (Spec.Bip340.verify E H (beN 32 x) msg sig)

/-- `secp256k1_schnorrsig_sign` with the default nonce function; both wrappers also take a bare 32-byte secret
    and (fix 12) demand that a 96-byte keypair is the one `keypair_create` makes from its secret half -/
def schnorrsig_sign (msg keypair : Bytes) (aux : Option Bytes) : Option Bytes :=
  if msg.length ≠ 32 then none else
  if (aux.map fun e => e.length != 32) = some true then none else
  let secret := if keypair.length = 32 then some keypair
                else if keypair.length = 96 ∧ keypair_create E (keypair.take 32) = some keypair
                then some (keypair.take 32) else none
  secret.bind fun sk => (seckey E sk).bind fun d => Spec.Bip340.sign E H d msg aux

/-! ### recoverable signatures -/

/-- `secp256k1_ecdsa_recoverable_signature_parse_compact`: like parse_compact; recid must be 0..3
    (an ARG_CHECK in the library — the wrapper tests it first, fix 08) -/
def ecdsa_recoverable_signature_parse_compact (c : Bytes) (recid : Int) : Option Bytes :=
  if recid < 0 ∨ recid > 3 then none else
  (ecdsa_signature_parse_compact E c).map fun s => s ++ [UInt8.ofNat recid.toNat]

def ecdsa_recoverable_signature_serialize_compact (sig : Bytes) : Option (Bytes × Nat) :=
  if sig.length ≠ 65 then none else
  (ecdsa_signature_serialize_compact (sig.take 64)).map fun c => (c, (sig.getD 64 0).toNat)

def ecdsa_recoverable_signature_convert (sig : Bytes) : Option Bytes :=
  if sig.length ≠ 65 then none else some (sig.take 64)

/-- public key recovery, SEC 1 §4.1.6 with the candidate chosen by `recid`
    (bit 0: Y parity of R, bit 1: X_R = r + n): `Q = r⁻¹ (s R − z G)` -/
def recoverPoint (r s z recid : Nat) : Option E.Pt :=
  if r = 0 ∨ s = 0 then none else
  let x := if recid / 2 = 1 then r + E.n else r
  if x ≥ E.p then none else
  (E.liftX x).bind fun R0 =>
    let R := if recid % 2 = 1 then E.neg R0 else R0
    let Q := E.mul (E.invN r) (E.add (E.mul s R) (E.neg (E.mul (z % E.n) E.g)))
    match E.xy Q with
    | none => none
    | some _ => some Q

/-- `secp256k1_ecdsa_recover`; the wrapper rejects recid > 3 and r, s ≥ n (fixes 08, 11) -/
def ecdsa_recover (sig msg : Bytes) : Option Bytes :=
  if sig.length ≠ 65 ∨ msg.length ≠ 32 then none else
  let recid := (sig.getD 64 0).toNat
  let r := ofLe (sig.take 32)
  let s := ofLe ((sig.drop 32).take 32)
  if recid > 3 ∨ r ≥ E.n ∨ s ≥ E.n then none else
  (recoverPoint E r s (ofBe msg) recid).bind (pubkeyStruct E)

/-- `secp256k1_ecdsa_sign_recoverable`: the signature of `ecdsa_sign` (no extra data) followed by the recovery id
    of the nonce point (bit 0: Y odd, bit 1: X ≥ n), bit 0 flipped when S was negated -/
def ecdsa_sign_recoverable (fuel : Nat) (msg secret : Bytes) : Option Bytes :=
  if msg.length ≠ 32 then none else
  (seckey E secret).bind fun d =>
    (signCore E H fuel d msg none).bind fun (k, r, s) =>
      (E.xy (E.mul k E.g)).map fun (xR, yR) =>
        let recid0 := (if xR ≥ E.n then 2 else 0) + yR % 2
        let high := !Spec.Ecdsa.isLowS E s
        let recid := if high then (if recid0 % 2 = 0 then recid0 + 1 else recid0 - 1) else recid0
        sigStruct r (Spec.Ecdsa.normalizeS E s) ++ [UInt8.ofNat recid]

end Embit.Spec.Libsecp
