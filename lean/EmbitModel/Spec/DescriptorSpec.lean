import EmbitModel.Spec.MiniscriptSpec
import EmbitModel.Model.Owns
/-
  What BIP380–386 (+ BIP341 for the tap tree, BIP67 for sorted keys, BIP389 for `<a;b>`) prescribe, written from
  the BIPs — not from embit:

  * BIP380 checksum: `INPUT_CHARSET`, `CHECKSUM_CHARSET`, `GENERATOR`, `descsum_polymod` over a symbol list,
    `descsum_expand`, `descsum_create`, `descsum_check` (the reference code of the BIP, transcribed).
  * the script of every descriptor form from the public keys of its key expressions (`SExpr.script`):
    pkh, wpkh (BIP381/382), sh, wsh (BIP381/382), multi, sortedmulti (BIP383), miniscript expressions (their
    translation table: `Spec.Miniscript.scriptBytes`, C13), tr with and without a script tree (BIP386 + BIP341).
  * which child key a key expression denotes at (index i, branch b): the path of the expression with `*` replaced
    by i and `<…>` by its b-th element (BIP380 "KEY expressions", BIP389).
  * the ownership relation of C14 as the property words it.

  Data types for keys / expressions are shared with the model (`KeyExpr`, `DMs`, `Step`: plain syntax).
-/
namespace Embit.Spec.Descriptor
open Embit Embit.Miniscript Embit.Model.Descriptor

/-! ### BIP380: checksum -/

def INPUT_CHARSET : List Char :=
  ['0', '1', '2', '3', '4', '5', '6', '7', '8', '9', '(', ')', '[', ']', ',', '\'', '/', '*', 'a', 'b', 'c', 'd', 'e', 'f', 'g', 'h', '@', ':', '$', '%', '{', '}', 'I', 'J', 'K', 'L', 'M', 'N', 'O', 'P', 'Q', 'R', 'S', 'T', 'U', 'V', 'W', 'X', 'Y', 'Z', '&', '+', '-', '.', ';', '<', '=', '>', '?', '!', '^', '_', '|', '~', 'i', 'j', 'k', 'l', 'm', 'n', 'o', 'p', 'q', 'r', 's', 't', 'u', 'v', 'w', 'x', 'y', 'z', 'A', 'B', 'C', 'D', 'E', 'F', 'G', 'H', '`', '#', '"', '\\', ' ']

def CHECKSUM_CHARSET : List Char := ['q', 'p', 'z', 'r', 'y', '9', 'x', '8', 'g', 'f', '2', 't', 'v', 'd', 'w', '0', 's', '3', 'j', 'n', '5', '4', 'k', 'h', 'c', 'e', '6', 'm', 'u', 'a', '7', 'l']

def GENERATOR : List Nat := [0xf5dee51989, 0xa9fdca3312, 0x1bab10e32d, 0x3706b1677a, 0x644d626ffd]

/-- `chk ^= GENERATOR[i] if ((top >> i) & 1) else 0` for i in range(5) -/
def applyGen (top : Nat) : Nat → List Nat → Nat → Nat
  | _, [], chk => chk
  | i, g :: gs, chk => applyGen top (i + 1) gs (if (top >>> i) &&& 1 = 1 then chk ^^^ g else chk)

/-- one round of `descsum_polymod` -/
def polymodRound (chk value : Nat) : Nat :=
  let top := chk >>> 35
  let chk := ((chk &&& 0x7ffffffff) <<< 5) ^^^ value
  applyGen top 0 GENERATOR chk

/-- `descsum_polymod(symbols)` -/
def descsumPolymod (symbols : List Nat) : Nat := symbols.foldl polymodRound 1

def charsetFind : List Char → Char → Option Nat
  | [], _ => none
  | x :: xs, c => if x = c then some 0 else (charsetFind xs c).map (· + 1)

/-- `descsum_expand(s)`: state = collected groups (at most two pending) -/
def expandAux : List Char → List Nat → Option (List Nat)
  | [], groups =>
    match groups with
    | [] => some []
    | [a] => some [a]
    | [a, b] => some [a * 3 + b]
    | _ => some []                       -- unreachable: at most two pending groups
  | c :: r, groups =>
    match charsetFind INPUT_CHARSET c with
    | none => none
    | some v =>
      let groups := groups ++ [v >>> 5]
      match groups with
      | [a, b, d] => (expandAux r []).map fun t => (v &&& 31) :: (a * 9 + b * 3 + d) :: t
      | _ => (expandAux r groups).map fun t => (v &&& 31) :: t

def descsumExpand (s : List Char) : Option (List Nat) := expandAux s []

/-- the eight checksum symbols of a polymod value -/
def checksumSymbols (checksum : Nat) : List Nat :=
  (List.range 8).map fun i => (checksum >>> (5 * (7 - i))) &&& 31

/-- the 8 characters `descsum_create` appends after `#` -/
def descsumChecksum (s : List Char) : Option (List Char) :=
  (descsumExpand s).map fun sym =>
    let checksum := descsumPolymod (sym ++ [0, 0, 0, 0, 0, 0, 0, 0]) ^^^ 1
    (checksumSymbols checksum).map fun v => CHECKSUM_CHARSET.getD v 'q'

/-- `descsum_create(s)` -/
def descsumCreate (s : List Char) : Option (List Char) :=
  (descsumChecksum s).map fun cs => s ++ '#' :: cs

def mapFind (cs : List Char) : Option (List Nat) :=
  match cs with
  | [] => some []
  | c :: r =>
    match charsetFind CHECKSUM_CHARSET c, mapFind r with
    | some v, some t => some (v :: t)
    | _, _ => none

/-- `descsum_check(body ‖ '#' ‖ cs)` for a text already split at its last `#`: 8 checksum characters, all of the
    checksum alphabet, and the polymod of the expanded body followed by them is 1 -/
def descsumCheck (body cs : List Char) : Bool :=
  cs.length = 8 &&
  match descsumExpand body, mapFind cs with
  | some sym, some c => descsumPolymod (sym ++ c) = 1
  | _, _ => false

/-! ### BIP380 / BIP389: the child a key expression denotes -/

/-- the derivation steps of a key expression at index `i` on branch `b` -/
def pathAt (i b : Nat) : List Step → Option (List Nat)
  | [] => some []
  | .idx n :: r => (pathAt i b r).map (n :: ·)
  | .wild :: r => (pathAt i b r).map (i :: ·)
  | .set l :: r =>
    match l[b]?, pathAt i b r with
    | some (some n), some t => some (n :: t)
    | _, _ => none

variable {K : Type}

/-- `deriveKey k i b`: the SEC public key bytes of key expression `k` at index `i` on branch `b`
    (BIP32 itself = `ops.derive`, C09): indices below 2^31 only -/
def deriveKey (ops : KeyOps K) (k : KeyExpr K) (i b : Nat) : Option Bytes :=
  if i ≥ 2 ^ 31 then none else
  match k.key with
  | .raw _ => none
  | .obj key =>
    match k.deriv with
    | none => some (ops.sec key)
    | some steps =>
      match pathAt i b steps with
      | none => none
      | some p => (ops.derive key (p.map some)).map ops.sec

/-! ### BIP381–386: scripts from public keys -/

def OP_DUP : UInt8 := 0x76
def OP_HASH160 : UInt8 := 0xa9
def OP_EQUALVERIFY : UInt8 := 0x88
def OP_CHECKSIG : UInt8 := 0xac
def OP_EQUAL : UInt8 := 0x87
def OP_0 : UInt8 := 0x00
def OP_1 : UInt8 := 0x51
def OP_CHECKMULTISIG : UInt8 := 0xae

/-- tap tree over compiled leaf scripts -/
inductive STree
  | leaf (script : Bytes)
  | node (l r : STree)

/-- a descriptor with every key expression resolved to public-key bytes -/
inductive SExpr
  | pkh (key : Bytes)
  | wpkh (key : Bytes)
  | ms (e : Ms)                      -- pk, multi, sortedmulti, any miniscript: the translation table
  | sh (x : SExpr)
  | wsh (x : SExpr)
  | tr (xonly : Bytes) (tree : Option STree)

/-- BIP341 `tapleaf_hash`: leaf version 0xc0, `compact_size(len(script)) ‖ script` -/
def leafHash (h : Hashes) (script : Bytes) : Bytes :=
  h.tagged "TapLeaf" (0xc0 :: (Compact.enc script.length ++ script))

/-- BIP341 `tapbranch_hash`: the two child hashes in lexicographic order -/
def branchHash (h : Hashes) (a b : Bytes) : Bytes :=
  if bytesLe a b then h.tagged "TapBranch" (a ++ b) else h.tagged "TapBranch" (b ++ a)

/-- BIP341 merkle root of a script tree -/
def merkleRoot (h : Hashes) : STree → Bytes
  | .leaf s => leafHash h s
  | .node l r => branchHash h (merkleRoot h l) (merkleRoot h r)

/-- BIP383 `multi(k, KEY_1, …, KEY_n)`: `k KEY_1 … KEY_n n OP_CHECKMULTISIG` -/
def multiScript (k : Nat) (keys : List Bytes) : Bytes :=
  Spec.Miniscript.pushNum k ++ keys.flatMap Spec.Miniscript.pushData ++ Spec.Miniscript.pushNum keys.length
    ++ [OP_CHECKMULTISIG]

/-- BIP383 `sortedmulti`: the same over the keys in lexicographic (BIP67) order -/
def sortedmultiScript (k : Nat) (keys : List Bytes) : Bytes := multiScript k (sortBytes keys)

/-- the scriptPubKey of a resolved descriptor; `tweakAdd x t` = x-only of `lift_x(x) + t·G` (BIP341
    `taproot_tweak_pubkey`, `none` when it fails) -/
def SExpr.script (h : Hashes) (tweakAdd : Bytes → Bytes → Option Bytes) : SExpr → Option Bytes
  | .pkh key => some ([OP_DUP, OP_HASH160, 0x14] ++ h.hash160 key ++ [OP_EQUALVERIFY, OP_CHECKSIG])
  | .wpkh key => some ([OP_0, 0x14] ++ h.hash160 key)
  | .ms e => some (Spec.Miniscript.scriptBytes e)
  | .sh x => (x.script h tweakAdd).map fun s => [OP_HASH160, 0x14] ++ h.hash160 s ++ [OP_EQUAL]
  | .wsh x => (x.script h tweakAdd).map fun s => [OP_0, 0x20] ++ h.sha256 s
  | .tr x tree =>
    let m : Bytes := match tree with
      | none => []
      | some t => merkleRoot h t
    (tweakAdd x (h.tagged "TapTweak" (x ++ m))).map fun q => [OP_1, 0x20] ++ q

/-! ### resolving a descriptor at (i, b) -/

/-- a descriptor as the grammar of BIP380–386 sees it (the seven forms embit supports) -/
inductive Form (K : Type)
  | pkh (k : KeyExpr K)
  | wpkh (k : KeyExpr K)
  | shWpkh (k : KeyExpr K)
  | sh (m : DMs K)
  | wsh (m : DMs K)
  | shWsh (m : DMs K)
  | tr (k : KeyExpr K) (t : TapTree K)

/-- the form an embit `Descriptor` object stands for (the one `to_string` prints) -/
def formOf (d : Desc K) : Option (Form K) :=
  if d.taproot then d.key.map fun k => .tr k d.taptree
  else
    match d.miniscript, d.key with
    | some m, _ =>
      if d.wsh then (if d.sh then some (.shWsh m) else some (.wsh m))
      else if d.sh then some (.sh m) else none
    | none, some k =>
      if d.sh then (if d.wpkh then some (.shWpkh k) else none)
      else if d.wsh then none               -- key-only object with the wsh flag: `script_pubkey()` raises
      else if d.wpkh then some (.wpkh k) else some (.pkh k)
    | none, none => none

/-- what a key argument contributes inside a script expression: the key (x-only in tapscript) or its HASH160;
    `kb` gives the SEC bytes of a key expression -/
def argBytes (h : Hashes) (tap : Bool) (kb : KeyExpr K → Option Bytes) (f : KeyFrag) (k : KeyExpr K) :
    Option Bytes :=
  let keyB : Option Bytes := (kb k).map fun sec => if tap then (sec.drop 1).take 32 else sec
  match f with
  | .pk_k => keyB
  | .pk => keyB
  | _ =>
    match k.key with
    | .raw s => unhexlify s
    | .obj _ => keyB.map h.hash160

def resolveTree (h : Hashes) (kb : KeyExpr K → Option Bytes) : TapTree K → Option STree
  | .empty => none
  | .leaf m => ((m.toMs (argBytes h true kb)).map Spec.Miniscript.scriptBytes).map STree.leaf
  | .node l r =>
    match resolveTree h kb l, resolveTree h kb r with
    | some a, some b => some (.node a b)
    | _, _ => none

def resolve (h : Hashes) (kb : KeyExpr K → Option Bytes) : Form K → Option SExpr
  | .pkh k => (kb k).map .pkh
  | .wpkh k => (kb k).map .wpkh
  | .shWpkh k => (kb k).map fun b => .sh (.wpkh b)
  | .sh m => (m.toMs (argBytes h false kb)).map fun e => .sh (.ms e)
  | .wsh m => (m.toMs (argBytes h false kb)).map fun e => .wsh (.ms e)
  | .shWsh m => (m.toMs (argBytes h false kb)).map fun e => .sh (.wsh (.ms e))
  | .tr k t =>
    match kb k with
    | none => none
    | some sec =>
      match t with
      | .empty => some (.tr ((sec.drop 1).take 32) none)
      | t => (resolveTree h kb t).map fun st => .tr ((sec.drop 1).take 32) (some st)

/-- THE SPECIFIED SCRIPT of descriptor `d` at index `i` on branch `b`: resolve every key expression with
    `deriveKey` and build the script the BIPs prescribe -/
def scriptAt (ops : KeyOps K) (h : Hashes) (tweakAdd : Bytes → Bytes → Option Bytes) (d : Desc K) (i b : Nat) :
    Option Bytes :=
  match formOf d with
  | none => none
  | some f =>
    match resolve h (fun k => deriveKey ops k i b) f with
    | none => none
    | some e => e.script h tweakAdd

/-! ### C14: the ownership relation -/

/-- derivation record `r` is the metadata of key `k` at (i, b): the key's origin fingerprint with the origin path
    followed by the key's steps at (i, b), or the key's own fingerprint with just those steps -/
def RecordOf (k : KeyView) (r : DerivRec) (i b : Nat) : Prop :=
  ∃ steps p, k.allowed = some steps ∧ pathAt i b steps = some p ∧
    ((k.fingerprint = some r.fingerprint ∧ (r.path.map Int.ofNat) = k.originPath ++ p.map Int.ofNat)
      ∨ (k.myFingerprint = some r.fingerprint ∧ r.path = p))

/-- number of branches a key allows (1 without a set) -/
def branchCount (k : KeyView) : Nat :=
  match k.allowed.bind branchesOf with
  | some l => l.length
  | none => 1

/-- "the scope's scriptPubKey equals the script the descriptor derives for a derivation path recorded in that
    scope" (with the path matching one of the descriptor's extended keys, on an allowed branch, at an unhardened
    index) -/
def Owned (keys : List KeyView) (deriveScript : Nat → Nat → Option Bytes) (sc : Scope) : Prop :=
  ∃ spk, sc.spk = some spk ∧
    ∃ r, r ∈ sc.derivs ++ sc.tapDerivs ∧
      ∃ k, k ∈ keys ∧ k.extended = true ∧
        ∃ i b, RecordOf k r i b ∧ i < 2 ^ 31 ∧ b < branchCount k ∧ deriveScript i b = some spk

end Embit.Spec.Descriptor
