import EmbitModel.Spec.Base58Check
import EmbitModel.Spec.Bech32
/-
  Standard output scripts and their addresses (BIP13/BIP16 Base58Check addresses, BIP141/BIP173 native
  segwit v0, BIP341/BIP350 taproot). Written from the BIPs.
-/
namespace Embit.Spec.Address

/-- the five standard output script templates with their payload -/
inductive Std
  | p2pkh (h : Bytes)     -- OP_DUP OP_HASH160 <20> OP_EQUALVERIFY OP_CHECKSIG
  | p2sh (h : Bytes)      -- OP_HASH160 <20> OP_EQUAL
  | p2wpkh (h : Bytes)    -- 0 <20>
  | p2wsh (h : Bytes)     -- 0 <32>
  | p2tr (x : Bytes)      -- 1 <32>
deriving DecidableEq, Repr

def Std.WF : Std → Prop
  | .p2pkh h => h.length = 20
  | .p2sh h => h.length = 20
  | .p2wpkh h => h.length = 20
  | .p2wsh h => h.length = 32
  | .p2tr x => x.length = 32

instance : (s : Std) → Decidable s.WF
  | .p2pkh _ | .p2sh _ | .p2wpkh _ | .p2wsh _ | .p2tr _ => by unfold Std.WF; infer_instance

def Std.script : Std → Bytes
  | .p2pkh h => [0x76, 0xa9, 0x14] ++ h ++ [0x88, 0xac]
  | .p2sh h => [0xa9, 0x14] ++ h ++ [0x87]
  | .p2wpkh h => [0x00, 0x14] ++ h
  | .p2wsh h => [0x00, 0x20] ++ h
  | .p2tr x => [0x51, 0x20] ++ x

/-- network parameters: version bytes and human-readable part -/
structure Params where
  pkhVersion : UInt8
  shVersion : UInt8
  hrp : List Char

/-- the address text of a standard script -/
def addressOf (sha256 : Bytes → Bytes) (p : Params) : Std → List Char
  | .p2pkh h => Base58.encodeCheck sha256 (p.pkhVersion :: h)
  | .p2sh h => Base58.encodeCheck sha256 (p.shVersion :: h)
  | .p2wpkh h => Bech32.segwitEncode p.hrp 0 h
  | .p2wsh h => Bech32.segwitEncode p.hrp 0 h
  | .p2tr x => Bech32.segwitEncode p.hrp 1 x

end Embit.Spec.Address
