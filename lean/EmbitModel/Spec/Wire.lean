import EmbitModel.Model.Tx
/-
  Bitcoin transaction wire format, written from the protocol documentation / BIP144
  (not from embit): this is what C03 means by "the Bitcoin wire encoding".
  Structures `Tx`, `TxIn`, `TxOut` are shared with the model (they are plain data).
  `TxIn.txid` holds the hash in display order (reversed wire order), as RPC and embit both do.
-/
namespace Embit.Spec.Wire

def varStr (d : Bytes) : Bytes := Compact.enc d.length ++ d

def outpoint (i : TxIn) : Bytes := i.txid.reverse ++ leN 4 i.vout

def encIn (i : TxIn) : Bytes := outpoint i ++ varStr i.scriptSig ++ leN 4 i.sequence

def encOut (o : TxOut) : Bytes := leN 8 o.value ++ varStr o.spk

def encWitness (w : List Bytes) : Bytes := Compact.enc w.length ++ w.flatMap varStr

/-- BIP144: the extended format is used iff at least one input has a non-empty witness stack -/
def hasWitness (t : Tx) : Bool := t.vin.any fun i => !i.witness.isEmpty

/-- original (witness-stripped) format; the txid pre-image -/
def encodeLegacy (t : Tx) : Bytes :=
  leN 4 t.version
  ++ Compact.enc t.vin.length ++ t.vin.flatMap encIn
  ++ Compact.enc t.vout.length ++ t.vout.flatMap encOut
  ++ leN 4 t.locktime

def encodeWitness (t : Tx) : Bytes :=
  leN 4 t.version ++ [0x00, 0x01]
  ++ Compact.enc t.vin.length ++ t.vin.flatMap encIn
  ++ Compact.enc t.vout.length ++ t.vout.flatMap encOut
  ++ t.vin.flatMap (fun i => encWitness i.witness)
  ++ leN 4 t.locktime

def encode (t : Tx) : Bytes := if hasWitness t then encodeWitness t else encodeLegacy t

def txid (sha : Bytes → Bytes) (t : Tx) : Bytes := (sha (sha (encodeLegacy t))).reverse

/-! Well-formed transactions: every field fits its wire width. -/

def WFItem (d : Bytes) : Prop := d.length < 2^64

structure WFIn (i : TxIn) : Prop where
  txid : i.txid.length = 32
  vout : i.vout < 2^32
  script : i.scriptSig.length < 2^64
  sequence : i.sequence < 2^32
  witCount : i.witness.length < 2^64
  witItems : ∀ d ∈ i.witness, d.length < 2^64

structure WFOut (o : TxOut) : Prop where
  value : o.value < 2^64
  script : o.spk.length < 2^64

structure WF (t : Tx) : Prop where
  version : t.version < 2^32
  locktime : t.locktime < 2^32
  nin : 1 ≤ t.vin.length
  ninLt : t.vin.length < 2^64
  noutLt : t.vout.length < 2^64
  ins : ∀ i ∈ t.vin, WFIn i
  outs : ∀ o ∈ t.vout, WFOut o

/-- The wire format assigns transaction `t` to byte string `b`. -/
def Decodes (b : Bytes) (t : Tx) : Prop := WF t ∧ encode t = b

end Embit.Spec.Wire
