import EmbitModel.Model.KeyCurve
/-
  Key encodings as the standards define them, independently of embit:
  * SEC1 §2.3.3/2.3.4 (as used by Bitcoin): compressed `02|03 ‖ X`, uncompressed `04 ‖ X ‖ Y`; a decoder accepts
    exactly these two forms (no hybrid 06/07), with reduced coordinates satisfying the curve equation;
  * BIP340 x-only key: the 32-byte big-endian X coordinate;
  * WIF: Base58Check(version byte ‖ 32-byte secret ‖ [01 if the public key is to be compressed]).
  (The extended-key layout is in `Spec/Bip32.lean`.)
-/
namespace Embit.Spec.KeyEnc
open Embit Embit.Keys

def sec (E : EcOps) (P : E.Pt) (compressed : Bool) : Bytes :=
  if compressed then (if E.y P % 2 = 0 then 0x02 else 0x03) :: beN 32 (E.x P)
  else 0x04 :: (beN 32 (E.x P) ++ beN 32 (E.y P))

/-- strict decoder: the point and whether the encoding was compressed -/
def secDecode (E : EcOps) (b : Bytes) : Option (E.Pt × Bool) :=
  match b with
  | [] => none
  | f :: r =>
    if f = 0x02 ∧ r.length = 32 then (E.liftX (ofBe r)).map (fun P => (P, true))
    else if f = 0x03 ∧ r.length = 32 then (E.liftX (ofBe r)).map (fun P => (E.neg P, true))
    else if f = 0x04 ∧ r.length = 64 then (E.ofXY (ofBe (r.take 32)) (ofBe (r.drop 32))).map (fun P => (P, false))
    else none

def xonly (E : EcOps) (P : E.Pt) : Bytes := beN 32 (E.x P)

def wifPayload (version : Bytes) (d : Nat) (compressed : Bool) : Bytes :=
  version ++ beN 32 d ++ (if compressed then [0x01] else [])

def wif (b58check : Bytes → Text) (version : Bytes) (d : Nat) (compressed : Bool) : Text :=
  b58check (wifPayload version d compressed)

end Embit.Spec.KeyEnc
