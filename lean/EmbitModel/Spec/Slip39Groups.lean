import EmbitModel.Spec.Slip39Spec
/-
  SLIP-0039, two-level scheme: recovering the master secret from a set of shares, written from the text of the
  standard ("Format of the share mnemonic": validity of a set of mnemonics; "Generating/recovering": the group
  shares are recovered with RecoverSecret(T_i, ·) from the member shares of each group, the encrypted master
  secret with RecoverSecret(GT, ·) from the group shares, then decrypted).  Mathlib-free and executable.

  Only non-extendable backups (ext = 0) are covered: the Feistel round function of `Slip39Spec.lean` is the one
  with salt "shamir" ‖ id.
-/
namespace Embit.Spec.Slip39
open Embit

/-- the given shares of group `gi`, in the order given -/
def membersOf (shares : List ShareFields) (gi : Nat) : List ShareFields := shares.filter fun s => s.GI == gi

/-- the group indices for which shares are given (group indices are 4-bit), ascending -/
def groupIndices (shares : List ShareFields) : List Nat :=
  (List.range 16).filter fun gi => shares.any fun s => s.GI == gi

def pairwiseDistinct : List Nat → Bool
  | [] => true
  | a :: l => !l.contains a && pairwiseDistinct l

/-- the member shares of one group are usable: one member threshold T_i, pairwise distinct member indices, and
    exactly T_i of them -/
def validGroup (ms : List ShareFields) : Bool :=
  match ms with
  | [] => false
  | m0 :: _ => ms.all (fun m => m.t == m0.t) && pairwiseDistinct (ms.map (·.I)) && ms.length == m0.t

/-- validity of a set of shares:
    1. all shares have the same identifier, extendable flag, iteration exponent, group threshold, group count
       and share value length;
    2. the group threshold does not exceed the group count (and group indices are x-coordinates 0 … G−1 of
       SplitSecret(GT, G, ·));
    3. the number of distinct group indices equals the group threshold;
    4. within each group: same member threshold, pairwise distinct member indices, count = member threshold -/
def validSet (shares : List ShareFields) : Bool :=
  match shares with
  | [] => false
  | s0 :: _ =>
    shares.all (fun s => s.id == s0.id && s.ext == s0.ext && s.e == s0.e && s.Gt == s0.Gt && s.g == s0.g &&
      s.value.length == s0.value.length) &&
    decide (s0.Gt ≤ s0.g) && shares.all (fun s => decide (s.GI < s0.g)) &&
    (groupIndices shares).length == s0.Gt &&
    (groupIndices shares).all fun gi => validGroup (membersOf shares gi)

/-- the group share of group `gi`: RecoverSecret(T_i, member shares) at x = `gi` -/
def groupShare (P : Prims) (gi : Nat) (ms : List ShareFields) : Option (Nat × Bytes) :=
  match ms with
  | [] => none
  | m0 :: _ => (recoverSecret P m0.t (ms.map fun m => (m.I, m.value))).map fun v => (gi, v)

def mapOpt {α β : Type} (f : α → Option β) : List α → Option (List β)
  | [] => some []
  | a :: l =>
    match f a with
    | none => none
    | some b =>
      match mapOpt f l with
      | none => none
      | some bs => some (b :: bs)

/-- the master secret recovered from a valid set of shares (`none`: invalid set, or a digest does not verify) -/
def combineShares (P : Prims) (shares : List ShareFields) (passphrase : Bytes) : Option Bytes :=
  match shares with
  | [] => none
  | s0 :: _ =>
    if !validSet shares then none else
    if s0.ext ≠ 0 then none else
    match mapOpt (fun gi => groupShare P gi (membersOf shares gi)) (groupIndices shares) with
    | none => none
    | some groupShares =>
      match recoverSecret P s0.Gt groupShares with
      | none => none
      | some ems => some (decryptMS P ems s0.id s0.e passphrase)

end Embit.Spec.Slip39
