import EmbitModel.Spec.Wire
/-
  The signature hashes Bitcoin consensus defines, written from Bitcoin Core's `SignatureHash`
  (legacy: "serialise a modified copy of the transaction"), BIP143 and BIP341 — not from embit.
  `sha` is SHA-256; the script code is an argument (OP_CODESEPARATOR handling is the caller's).
-/
namespace Embit.Spec.Consensus
open Embit.Spec.Wire

def dsha (sha : Bytes → Bytes) (b : Bytes) : Bytes := sha (sha b)

/-- hash types for which consensus defines the legacy / BIP143 digest and which the property quantifies over -/
def validFlag (f : Nat) : Bool := f ∈ [0, 1, 2, 3, 0x80, 0x81, 0x82, 0x83]

def base (f : Nat) : Nat := f % 0x20           -- nHashType & 0x1f
def anyoneCanPay (f : Nat) : Bool := f / 0x80 % 2 == 1   -- nHashType & 0x80
def isNone (f : Nat) : Bool := base f == 2
def isSingle (f : Nat) : Bool := base f == 3

/-- `CTxOut()` : nValue = -1 (eight `ff` bytes), empty script -/
def blankOut : TxOut := { value := 2^64 - 1, spk := [] }

/-- the modified transaction copy of the original `SignatureHash` -/
def legacyTxCopy (t : Tx) (idx : Nat) (scriptCode : Bytes) (f : Nat) : Tx :=
  let vinAll := t.vin.mapIdx fun i inp =>
    if i = idx then { inp with scriptSig := scriptCode }
    else { inp with scriptSig := [], sequence := if isNone f || isSingle f then 0 else inp.sequence }
  let vin := if anyoneCanPay f then (vinAll[idx]?).toList else vinAll
  let vout :=
    if isNone f then []
    else if isSingle f then List.replicate idx blankOut ++ (t.vout[idx]?).toList
    else t.vout
  { version := t.version, vin := vin, vout := vout, locktime := t.locktime }

/-- legacy digest; `uint256::ONE` (bytes `01 00 … 00`) for SINGLE without a matching output -/
def legacy (sha : Bytes → Bytes) (t : Tx) (idx : Nat) (scriptCode : Bytes) (f : Nat) : Bytes :=
  if isSingle f && idx ≥ t.vout.length then 1 :: List.replicate 31 0
  else dsha sha (encodeLegacy (legacyTxCopy t idx scriptCode f) ++ leN 4 f)

/-! BIP143 -/

def zero32 : Bytes := List.replicate 32 0

def bip143 (sha : Bytes → Bytes) (t : Tx) (idx : Nat) (inp : TxIn) (scriptCode : Bytes) (amount : Nat)
    (f : Nat) : Bytes :=
  let hashPrevouts :=
    if !anyoneCanPay f then dsha sha (t.vin.flatMap outpoint) else zero32
  let hashSequence :=
    if !anyoneCanPay f && !isSingle f && !isNone f then dsha sha (t.vin.flatMap fun i => leN 4 i.sequence)
    else zero32
  let hashOutputs :=
    if !isSingle f && !isNone f then dsha sha (t.vout.flatMap encOut)
    else if isSingle f && idx < t.vout.length then
      match t.vout[idx]? with
      | some o => dsha sha (encOut o)
      | none => zero32
    else zero32
  dsha sha (leN 4 t.version ++ hashPrevouts ++ hashSequence ++ outpoint inp ++ varStr scriptCode
    ++ leN 8 amount ++ leN 4 inp.sequence ++ hashOutputs ++ leN 4 t.locktime ++ leN 4 f)

/-! BIP341 -/

def tagged (sha : Bytes → Bytes) (tag : String) (m : Bytes) : Bytes :=
  sha (sha tag.toUTF8.toList ++ sha tag.toUTF8.toList ++ m)

/-- hash types valid under BIP341 -/
def validTaprootFlag (f : Nat) : Bool := f ∈ [0, 1, 2, 3, 0x81, 0x82, 0x83]

structure Leaf where
  script : Bytes
  version : Nat
  codesepPos : Nat        -- 0xffffffff when no OP_CODESEPARATOR was executed

/-- `SigMsg(hash_type, ext_flag)` followed by the BIP342 extension; `none` where BIP341 says the
    signature check fails (invalid hash type, SINGLE without matching output, wrong list sizes). -/
def bip341 (sha : Bytes → Bytes) (t : Tx) (idx : Nat) (spks : List Bytes) (amounts : List Nat)
    (f : Nat) (annex : Option Bytes) (leaf : Option Leaf) : Option Bytes :=
  if !validTaprootFlag f then none else
  if spks.length ≠ t.vin.length || amounts.length ≠ t.vin.length then none else
  match t.vin[idx]?, amounts[idx]?, spks[idx]? with
  | some inp, some amount, some spk =>
    let outType := if f = 0 then 1 else f % 4     -- hash_type & 3, DEFAULT behaves as ALL
    let acp := f / 0x80 % 2 == 1
    if outType = 3 && idx ≥ t.vout.length then none else
    let extFlag := if leaf.isSome then 1 else 0
    let spendType := extFlag * 2 + (if annex.isSome then 1 else 0)
    let msg : Bytes :=
      [UInt8.ofNat f] ++ leN 4 t.version ++ leN 4 t.locktime
      ++ (if !acp then
            sha (t.vin.flatMap outpoint) ++ sha (amounts.flatMap (leN 8)) ++ sha (spks.flatMap varStr)
            ++ sha (t.vin.flatMap fun i => leN 4 i.sequence)
          else [])
      ++ (if outType ≠ 2 && outType ≠ 3 then sha (t.vout.flatMap encOut) else [])
      ++ [UInt8.ofNat spendType]
      ++ (if acp then outpoint inp ++ leN 8 amount ++ varStr spk ++ leN 4 inp.sequence else leN 4 idx)
      ++ (match annex with | some a => sha (Compact.enc a.length ++ a) | none => [])
      ++ (if outType = 3 then
            match t.vout[idx]? with | some o => sha (encOut o) | none => []
          else [])
    let ext : Bytes := match leaf with
      | none => []
      | some l => tagged sha "TapLeaf" ([UInt8.ofNat l.version] ++ varStr l.script) ++ [0x00] ++ leN 4 l.codesepPos
    some (tagged sha "TapSighash" ([0x00] ++ msg ++ ext))
  | _, _, _ => none

end Embit.Spec.Consensus
