import EmbitModel.Basic.Bytes
/-
  Bech32 (BIP173), Bech32m (BIP350) and segwit addresses as specified. Written from the BIPs, not from embit.

  * A Bech32 string is `hrp ++ "1" ++ data-part`, at most 90 characters, hrp 1–83 characters in [33,126],
    data part ≥ 6 characters of the 32-character set, not mixed case; the checksum is verified on the
    lower-case form.
  * Checksum (BIP173 "Checksum", BIP350): `polymod(hrp_expand(hrp) ++ data) = const`, const = 1 for Bech32
    and 0x2bc830a3 for Bech32m, `polymod` being the BCH code over GF(32) given by the generator constants.
  * Segwit address: data = [version] ++ program regrouped 8→5 bits (zero padded); version 0 uses Bech32,
    versions 1–16 use Bech32m; program 2–40 bytes, 20 or 32 bytes for version 0; on decoding, padding
    is at most 4 bits and all zero.
  Decoding is specified declaratively (`IsBech32`, `IsSegwitAddress`).
-/
namespace Embit.Spec.Bech32

def charset : List Char :=
  ['q','p','z','r','y','9','x','8','g','f','2','t','v','d','w','0',
   's','3','j','n','5','4','k','h','c','e','6','m','u','a','7','l']

def gen : List Nat := [0x3b6a57b2, 0x26508e6d, 0x1ea119fa, 0x3d4233dd, 0x2a1462b3]

/-- one step of the BIP173 checksum recurrence, generator selection by `testBit` -/
def step (chk v : Nat) : Nat :=
  let b := chk >>> 25
  let c := ((chk &&& 0x1ffffff) <<< 5) ^^^ v
  (List.range 5).foldl (fun c i => if b.testBit i then c ^^^ gen.getD i 0 else c) c

def polymod (values : List Nat) : Nat := values.foldl step 1

def hrpExpand (hrp : List Char) : List Nat :=
  hrp.map (fun c => c.toNat / 32) ++ [0] ++ hrp.map (fun c => c.toNat % 32)

/-- the checksum constant of each variant -/
def bech32 : Nat := 1
def bech32m : Nat := 0x2bc830a3

/-- a complete data part (with its six checksum symbols) is valid for constant `c` -/
def ChecksumOk (c : Nat) (hrp : List Char) (dataWithChecksum : List Nat) : Prop :=
  polymod (hrpExpand hrp ++ dataWithChecksum) = c

/-- the six checksum symbols: base-32 digits of `polymod(… ++ [0]*6) xor c`, most significant first -/
def checksum (c : Nat) (hrp : List Char) (data : List Nat) : List Nat :=
  let p := polymod (hrpExpand hrp ++ data ++ List.replicate 6 0) ^^^ c
  [p / 32^5 % 32, p / 32^4 % 32, p / 32^3 % 32, p / 32^2 % 32, p / 32 % 32, p % 32]

def encode (c : Nat) (hrp : List Char) (data : List Nat) : List Char :=
  hrp ++ ['1'] ++ (data ++ checksum c hrp data).map (fun d => charset.getD d '?')

def isUpper (c : Char) : Bool := 'A' ≤ c && c ≤ 'Z'
def isLower (c : Char) : Bool := 'a' ≤ c && c ≤ 'z'
def mixedCase (s : List Char) : Bool := s.any isUpper && s.any isLower
def toLower (s : List Char) : List Char := s.map (fun c => if isUpper c then Char.ofNat (c.toNat + 32) else c)

def ValidHrp (hrp : List Char) : Prop :=
  1 ≤ hrp.length ∧ hrp.length ≤ 83 ∧ ∀ c ∈ hrp, 33 ≤ c.toNat ∧ c.toNat ≤ 126

/-- BIP173: `s` is a valid Bech32 (constant `c`) string with lower-case human-readable part `hrp` and data
    symbols `data` (checksum excluded) -/
def IsBech32 (c : Nat) (s : List Char) (hrp : List Char) (data : List Nat) : Prop :=
  s.length ≤ 90 ∧ mixedCase s = false ∧ ValidHrp hrp ∧ (∀ d ∈ data, d < 32) ∧ toLower s = encode c hrp data

/-- 8→5 regrouping with zero padding: the program as a big-endian number of `8·n` bits, shifted left to a
    multiple of 5 bits, in base 32 with exactly `⌈8n/5⌉` digits -/
def value (b : Bytes) : Nat := b.foldl (fun a x => 256 * a + x.toNat) 0

def digitsFixed (B : Nat) : Nat → Nat → List Nat
  | 0, _ => []
  | k+1, n => digitsFixed B k (n / B) ++ [n % B]

def toBase32 (prog : Bytes) : List Nat :=
  let bits := 8 * prog.length
  let k := (bits + 4) / 5
  digitsFixed 32 k (value prog * 2 ^ (5 * k - bits))

def ValidProgram (ver : Nat) (prog : Bytes) : Prop :=
  ver ≤ 16 ∧ 2 ≤ prog.length ∧ prog.length ≤ 40 ∧ (ver = 0 → prog.length = 20 ∨ prog.length = 32)

def variantOf (ver : Nat) : Nat := if ver = 0 then bech32 else bech32m

/-- BIP173/BIP350 segwit address text -/
def segwitEncode (hrp : List Char) (ver : Nat) (prog : Bytes) : List Char :=
  encode (variantOf ver) hrp (ver :: toBase32 prog)

/-- `s` is a valid segwit address for the (lower-case) `hrp`, with witness version `ver` and program `prog` -/
def IsSegwitAddress (hrp : List Char) (s : List Char) (ver : Nat) (prog : Bytes) : Prop :=
  ValidProgram ver prog ∧ IsBech32 (variantOf ver) s hrp (ver :: toBase32 prog)

end Embit.Spec.Bech32
