import EmbitModel.Basic.Bytes
/-
  SLIP-0077 (deterministic blinding keys), written from the standard — NOT from embit. Paraphrase of the rules:

    1. The master blinding key is the SLIP-0021 symmetric key of the node m/"SLIP-0077" derived from the seed S.
       SLIP-0021: master node  m = HMAC-SHA512(key = b"Symmetric key seed", msg = S);
                  child node   ChildNode(N, label) = HMAC-SHA512(key = N[0:32], msg = b"\x00" + label);
                  the symmetric key of a node N is N[32:64] (the first half is used only for derivation).
    2. The private blinding key of a script is HMAC-SHA256(key = master_blinding_key, msg = script_pubkey).

  The HMAC functions are parameters. Labels are given as ASCII byte literals, the node path as a list of labels.
-/
namespace Embit.Spec.Slip77
open Embit

/-- ASCII "Symmetric key seed" (SLIP-0021 domain separator) -/
def domain : Bytes :=
  [0x53, 0x79, 0x6d, 0x6d, 0x65, 0x74, 0x72, 0x69, 0x63, 0x20, 0x6b, 0x65, 0x79, 0x20, 0x73, 0x65, 0x65, 0x64]

/-- ASCII "SLIP-0077" -/
def label : Bytes := [0x53, 0x4c, 0x49, 0x50, 0x2d, 0x30, 0x30, 0x37, 0x37]

/-- SLIP-0021 master node -/
def slip21Master (hmac512 : Bytes → Bytes → Bytes) (S : Bytes) : Bytes := hmac512 domain S

/-- SLIP-0021 child node -/
def slip21Child (hmac512 : Bytes → Bytes → Bytes) (N lbl : Bytes) : Bytes := hmac512 (N.take 32) (0x00 :: lbl)

/-- SLIP-0021 node at a path of labels -/
def slip21Node (hmac512 : Bytes → Bytes → Bytes) (S : Bytes) (path : List Bytes) : Bytes :=
  path.foldl (slip21Child hmac512) (slip21Master hmac512 S)

/-- SLIP-0021 symmetric key of a node: `N[32:64]` -/
def slip21Key (N : Bytes) : Bytes := (N.drop 32).take 32

/-- SLIP-0077 master blinding key -/
def masterBlindingKey (hmac512 : Bytes → Bytes → Bytes) (S : Bytes) : Bytes :=
  slip21Key (slip21Node hmac512 S [label])

/-- SLIP-0077 private blinding key of a script -/
def blindingKey (hmac256 : Bytes → Bytes → Bytes) (mbk script : Bytes) : Bytes := hmac256 mbk script

end Embit.Spec.Slip77
