import EmbitModel.Model.EcOps
/-
  RFC 6979 §3.2 deterministic nonce generation for a 256-bit group order `q` and HMAC-SHA256
  (hlen = qlen = 256, so one HMAC output per candidate and bits2int is the identity on 32 bytes),
  with the optional additional data of §3.6 appended after bits2octets(h1). Written from the RFC.
  The HMAC function is a parameter.
-/
namespace Embit.Spec.Rfc6979

variable (hmac : Bytes → Bytes → Bytes)

/-- int2octets for qlen = 256 -/
def int2octets (x : Nat) : Bytes := beN 32 x

/-- bits2octets(h1) = int2octets(bits2int(h1) mod q) (§2.3.4; `z2 = z1 mod q`) -/
def bits2octets (q : Nat) (h1 : Bytes) : Bytes := int2octets (ofBe h1 % q)

/-- state `(K, V)` after steps b–g, for the octet string `seed = int2octets(x) ‖ bits2octets(h1) ‖ k'` -/
def init (seed : Bytes) : Bytes × Bytes :=
  let v0 : Bytes := List.replicate 32 0x01
  let k0 : Bytes := List.replicate 32 0x00
  let k1 := hmac k0 (v0 ++ [0x00] ++ seed)
  let v1 := hmac k1 v0
  let k2 := hmac k1 (v1 ++ [0x01] ++ seed)
  let v2 := hmac k2 v1
  (k2, v2)

/-- step h: the `i`-th candidate (0-based) and the state after producing it -/
def candidate (kv : Bytes × Bytes) : Nat → Nat × (Bytes × Bytes)
  | 0 =>
    let v := hmac kv.1 kv.2
    (ofBe v, (kv.1, v))
  | i + 1 =>
    let (_, (k, v)) := candidate kv i
    let k' := hmac k (v ++ [0x00])
    let v' := hmac k' v
    let v'' := hmac k' v'
    (ofBe v'', (k', v''))

/-- the first candidate within `[1, q-1]` among the first `fuel` ones -/
def firstValid (q : Nat) (kv : Bytes × Bytes) (fuel : Nat) : Option Nat :=
  ((List.range fuel).map fun i => (candidate hmac kv i).1).find? fun c => 1 ≤ c ∧ c < q

/-- RFC 6979 nonce for private key `x`, message hash octets `h1` and optional additional data -/
def nonce (fuel : Nat) (q x : Nat) (h1 : Bytes) (extra : Option Bytes) : Option Nat :=
  firstValid hmac q (init hmac (int2octets x ++ bits2octets q h1 ++ extra.getD [])) fuel

/-- libsecp256k1's `nonce_function_rfc6979`: the same generator seeded with the 32 message bytes as they are
    (no bits2octets reduction) — identical to RFC 6979 whenever the message value is below `q` -/
def nonceRaw (fuel : Nat) (q x : Nat) (msg32 : Bytes) (extra : Option Bytes) : Option Nat :=
  firstValid hmac q (init hmac (int2octets x ++ msg32 ++ extra.getD [])) fuel

end Embit.Spec.Rfc6979
