import EmbitModel.Model.LiquidTx
import EmbitModel.Spec.Wire
/-
  Elements transaction wire format, transcribed from the Elements serialisation rules
  (`CTransaction::Serialize`, `CTxIn`, `CAssetIssuance`, `CTxOut`, `CConfidentialAsset/Value/Nonce`,
  `CTxInWitness`, `CTxOutWitness`) — not from embit. Structures are shared with the model (plain data).

  * transaction: version(4 LE) ‖ flags(1: bit 0 = witness present) ‖ vin ‖ vout ‖ locktime(4 LE) ‖ [witness]
    — the witness part is all input witnesses followed by all output witnesses and is present exactly when some
    witness is non-null;
  * input: prevout hash ‖ index(4 LE, bit 31 = issuance present, bit 30 = peg-in; never for the null index
    0xffffffff) ‖ scriptSig ‖ sequence ‖ [issuance: nonce(32) ‖ entropy(32) ‖ amount ‖ inflation keys];
  * output: asset ‖ value ‖ nonce ‖ scriptPubKey, each confidential field being one prefix byte followed by
    8 (explicit value), 32 (explicit asset, commitments, nonce) or 0 (null) bytes.
-/
namespace Embit.Spec.LWire
open Embit.Spec.Wire (varStr encWitness)

def encAmount : Commit → Bytes
  | .null => [0x00]
  | .explicit v => [0x01] ++ beN 8 v
  | .conf b => b

def encIssuance (a : Issuance) : Bytes := a.nonce ++ a.entropy ++ encAmount a.amount ++ encAmount a.token

/-- outpoint index with the two flag bits -/
def outpointIndex (i : LTxIn) : Nat :=
  i.vout ||| (if i.issuance.isSome then 0x80000000 else 0) ||| (if i.isPegin then 0x40000000 else 0)

def encIn (i : LTxIn) : Bytes :=
  i.txid.reverse ++ leN 4 (outpointIndex i) ++ varStr i.scriptSig ++ leN 4 i.sequence
  ++ (match i.issuance with | some a => encIssuance a | none => [])

def encAsset (a : Bytes) : Bytes := if a.length = 32 then [0x01] ++ a else a

def encValue : LValue → Bytes
  | .explicit v => [0x01] ++ beN 8 v
  | .conf b => b

def encNonce : Option Bytes → Bytes
  | none => [0x00]
  | some n => n

def encOut (o : LTxOut) : Bytes := encAsset o.asset ++ encValue o.value ++ encNonce o.nonce ++ varStr o.spk

def encInWitness (w : LInWitness) : Bytes :=
  varStr w.amountProof ++ varStr w.tokenProof ++ encWitness w.scriptWitness ++ encWitness w.peginWitness

def encOutWitness (w : LOutWitness) : Bytes := varStr w.surjProof ++ varStr w.rangeProof

def inWitnessNull (w : LInWitness) : Bool :=
  w.amountProof.isEmpty && w.tokenProof.isEmpty && w.scriptWitness.isEmpty && w.peginWitness.isEmpty

def outWitnessNull (w : LOutWitness) : Bool := w.surjProof.isEmpty && w.rangeProof.isEmpty

def hasWitness (t : LTx) : Bool :=
  t.vin.any (fun i => !inWitnessNull i.witness) || t.vout.any (fun o => !outWitnessNull o.witness)

def encodeBody (t : LTx) : Bytes :=
  Compact.enc t.vin.length ++ t.vin.flatMap encIn ++ Compact.enc t.vout.length ++ t.vout.flatMap encOut
  ++ leN 4 t.locktime

def encode (t : LTx) : Bytes :=
  if hasWitness t then
    leN 4 t.version ++ [0x01] ++ encodeBody t
    ++ t.vin.flatMap (fun i => encInWitness i.witness) ++ t.vout.flatMap (fun o => encOutWitness o.witness)
  else leN 4 t.version ++ [0x00] ++ encodeBody t

/-- txid pre-image: flags 0, no witness -/
def txid (sha : Bytes → Bytes) (t : LTx) : Bytes :=
  (sha (sha (leN 4 t.version ++ [0x00] ++ encodeBody t))).reverse

/-! ### well-formed values (every field fits its wire width; the prefix bytes are those embit can represent) -/

def WFCommit : Commit → Prop
  | .null => True
  | .explicit v => v < 2^64
  | .conf b => b.length = 33 ∧ b.head? ≠ some 0 ∧ b.head? ≠ some 1

structure WFIssuance (a : Issuance) : Prop where
  nonce : a.nonce.length = 32
  entropy : a.entropy.length = 32
  amount : WFCommit a.amount
  token : WFCommit a.token

def WFStack (w : List Bytes) : Prop := w.length < 2^64 ∧ ∀ d ∈ w, d.length < 2^64

structure WFInWitness (w : LInWitness) : Prop where
  amountProof : w.amountProof.length < 2^64
  tokenProof : w.tokenProof.length < 2^64
  script : WFStack w.scriptWitness
  pegin : WFStack w.peginWitness

structure WFOutWitness (w : LOutWitness) : Prop where
  surj : w.surjProof.length < 2^64
  range : w.rangeProof.length < 2^64

/-- the index: a real output number below 2^30 whose flagged encoding is not the null index, or the null index
    itself without flags -/
def WFIndex (i : LTxIn) : Prop :=
  (i.vout < 2^30 ∧ ¬ (i.vout = 2^30 - 1 ∧ i.isPegin = true ∧ i.issuance.isSome = true))
  ∨ (i.vout = 0xFFFFFFFF ∧ i.isPegin = false ∧ i.issuance = none)

structure WFIn (i : LTxIn) : Prop where
  txid : i.txid.length = 32
  index : WFIndex i
  script : i.scriptSig.length < 2^64
  sequence : i.sequence < 2^32
  issuance : ∀ a, i.issuance = some a → WFIssuance a
  witness : WFInWitness i.witness

def WFAsset (a : Bytes) : Prop := a.length = 32 ∨ (a.length = 33 ∧ a.head? ≠ some 1)

def WFValue : LValue → Prop
  | .explicit v => v < 2^64
  | .conf b => b.length = 33 ∧ b.head? ≠ some 1

def WFNonce : Option Bytes → Prop
  | none => True
  | some n => n.length = 33 ∧ n.head? ≠ some 0

structure WFOut (o : LTxOut) : Prop where
  asset : WFAsset o.asset
  value : WFValue o.value
  nonce : WFNonce o.nonce
  script : o.spk.length < 2^64
  witness : WFOutWitness o.witness

structure WF (t : LTx) : Prop where
  version : t.version < 2^32
  locktime : t.locktime < 2^32
  ninLt : t.vin.length < 2^64
  noutLt : t.vout.length < 2^64
  ins : ∀ i ∈ t.vin, WFIn i
  outs : ∀ o ∈ t.vout, WFOut o

/-- The Elements wire format assigns transaction `t` to byte string `b`. -/
def Decodes (b : Bytes) (t : LTx) : Prop := WF t ∧ encode t = b

end Embit.Spec.LWire
