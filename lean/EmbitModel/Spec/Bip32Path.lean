import EmbitModel.Spec.Bip32
/-
  BIP32 derivation along a path WITH the bookkeeping of the "Serialization format" section, transcribed from
  the BIP text, independently of embit:

    * 1 byte depth: 0x00 for master nodes, 0x01 for level-1 derived keys, …        (parent depth + 1)
    * 4 bytes: the fingerprint of the parent's key (0x00000000 if master key)      (HASH160(serP(K_par))[:4])
    * 4 bytes: child number. This is ser32(i) for i in x_i = x_par/i               (the index of the last step)

  A node is an extended key together with these three fields; a step is CKDpriv / CKDpub on the key and the
  update above on the fields; a path is the left fold of steps (`derivePriv` / `derivePub` of `Spec/Bip32.lean`
  on the key component — `Proofs/Bip32Path.lean` proves the projection).
-/
namespace Embit.Spec.Bip32
open Embit Embit.Keys

structure NodePrv where
  x : XPrv
  depth : Nat
  parentFp : Bytes
  childNum : Nat

structure NodePub (E : EcOps) where
  x : XPub E
  depth : Nat
  parentFp : Bytes
  childNum : Nat

def stepPrv (E : EcOps) (hmac : Bytes → Bytes → Bytes) (hash160 : Bytes → Bytes) (nd : NodePrv) (i : Nat) :
    Option NodePrv :=
  (CKDpriv E hmac nd.x i).map fun r => ⟨r, nd.depth + 1, fingerprint E hash160 (point E nd.x.k), i⟩

def stepPub (E : EcOps) (hmac : Bytes → Bytes → Bytes) (hash160 : Bytes → Bytes) (nd : NodePub E) (i : Nat) :
    Option (NodePub E) :=
  (CKDpub E hmac nd.x i).map fun r => ⟨r, nd.depth + 1, fingerprint E hash160 nd.x.K, i⟩

def deriveNodePrv (E : EcOps) (hmac : Bytes → Bytes → Bytes) (hash160 : Bytes → Bytes) (nd : NodePrv) :
    List Nat → Option NodePrv
  | [] => some nd
  | i :: r => (stepPrv E hmac hash160 nd i).bind (fun c => deriveNodePrv E hmac hash160 c r)

def deriveNodePub (E : EcOps) (hmac : Bytes → Bytes → Bytes) (hash160 : Bytes → Bytes) (nd : NodePub E) :
    List Nat → Option (NodePub E)
  | [] => some nd
  | i :: r => (stepPub E hmac hash160 nd i).bind (fun c => deriveNodePub E hmac hash160 c r)

/-- N on nodes: the neutered key, the bookkeeping untouched -/
def NodePrv.neuter (E : EcOps) (nd : NodePrv) : NodePub E := ⟨N E nd.x, nd.depth, nd.parentFp, nd.childNum⟩

end Embit.Spec.Bip32
