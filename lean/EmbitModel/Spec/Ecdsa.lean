import EmbitModel.Model.EcOps
/-
  ECDSA over an abstract curve, from SEC 1 v2 §4.1.3 (signing) and §4.1.4 (verification).
  `e` is the integer derived from the message hash (already reduced or not — only its residue matters).
-/
namespace Embit.Spec.Ecdsa

variable (E : EcOps)

/-- signing with ephemeral key `k`: `R = kG`, `r = x_R mod n`, `s = k⁻¹(e + r d) mod n`; fails when r = 0 or s = 0 -/
def signWith (d e k : Nat) : Option (Nat × Nat) :=
  match E.xy (E.mul k E.g) with
  | none => none
  | some (xR, _) =>
    let r := xR % E.n
    let s := (E.invN k * (e + r * d)) % E.n
    if r = 0 ∨ s = 0 then none else some (r, s)

/-- §4.1.4 -/
def verify (Q : E.Pt) (e r s : Nat) : Bool :=
  if r < 1 ∨ r ≥ E.n ∨ s < 1 ∨ s ≥ E.n then false else
  let w := E.invN s
  let u1 := (e % E.n) * w % E.n
  let u2 := r * w % E.n
  match E.xy (E.add (E.mul u1 E.g) (E.mul u2 Q)) with
  | none => false
  | some (xR, _) => xR % E.n == r

/-- the low-S rule of BIP62/BIP146: `s ≤ (n-1)/2` -/
def isLowS (s : Nat) : Bool := s ≤ (E.n - 1) / 2

/-- the canonical (low-S) form of a signature -/
def normalizeS (s : Nat) : Nat := if isLowS E s then s else E.n - s

end Embit.Spec.Ecdsa
