import EmbitModel.Basic.Bytes
/-
  Strict DER encoding of an ECDSA signature (BIP66 / X.690), written from the standard:
    0x30 L 0x02 Lr R 0x02 Ls S
  where R, S are the shortest big-endian two's-complement encodings of the non-negative integers r, s
  (X.690 8.3.2: the first nine bits are neither all zero nor all one; non-negative: sign bit clear), all
  lengths in the short form. Stated as a relation (what a valid encoding IS) and as an executable encoder.
-/
namespace Embit.Spec.Der

/-- `x` is the DER INTEGER content of the non-negative integer `v` -/
structure IsDerInt (x : Bytes) (v : Nat) : Prop where
  value : ofBe x = v
  nonempty : x ≠ []
  /-- non-negative: the sign bit of the first octet is clear -/
  positive : ∀ a, x[0]? = some a → a.toNat < 0x80
  /-- shortest form: a leading zero octet is present only when the next octet has its top bit set -/
  minimal : ∀ a b, x[0]? = some a → x[1]? = some b → a = 0 → b.toNat ≥ 0x80

/-- `b` is the BIP66 encoding of the pair `(r, s)` with INTEGER contents `x`, `y` -/
def IsDerSig (b : Bytes) (r s : Nat) : Prop :=
  ∃ x y : Bytes, IsDerInt x r ∧ IsDerInt y s ∧ 4 + x.length + y.length < 0x80 ∧
    b = 0x30 :: UInt8.ofNat (4 + x.length + y.length) :: 0x02 :: UInt8.ofNat x.length ::
          (x ++ 0x02 :: UInt8.ofNat y.length :: y)

/-- shortest big-endian digits of `v < 256^33` (empty for 0) -/
def minBe (v : Nat) : Bytes := (beN 33 v).dropWhile (· == 0)

/-- executable INTEGER content -/
def intContent (v : Nat) : Bytes :=
  match minBe v with
  | [] => [0x00]
  | a :: rest => if a.toNat ≥ 0x80 then 0x00 :: a :: rest else a :: rest

/-- executable encoder (`r, s < 2^256`) -/
def encode (r s : Nat) : Bytes :=
  let x := intContent r
  let y := intContent s
  [0x30, UInt8.ofNat (4 + x.length + y.length), 0x02, UInt8.ofNat x.length] ++ x ++
    [0x02, UInt8.ofNat y.length] ++ y

end Embit.Spec.Der
