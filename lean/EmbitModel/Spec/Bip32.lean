import EmbitModel.Model.KeyCurve
/-
  BIP32 child key derivation, transcribed from the BIP text ("Child key derivation (CKD) functions",
  "Serialization format"), independently of embit. Over an abstract curve and HMAC-SHA512; executable.

    ser32(i), ser256(p), serP(P) = (0x02 or 0x03) || ser256(x),  parse256(p),  point(p) = p·G
-/
namespace Embit.Spec.Bip32
open Embit Embit.Keys

abbrev ser32 (i : Nat) : Bytes := beN 4 i
abbrev ser256 (p : Nat) : Bytes := beN 32 p
abbrev parse256 (b : Bytes) : Nat := ofBe b
abbrev point (E : EcOps) (p : Nat) : E.Pt := E.mulG p
/-- SEC1 compressed form -/
def serP (E : EcOps) (P : E.Pt) : Bytes := (if E.y P % 2 = 0 then 0x02 else 0x03) :: ser256 (E.x P)

/-- extended private key (k, c) / extended public key (K, c) -/
structure XPrv where
  k : Nat
  c : Bytes
deriving DecidableEq, Repr

structure XPub (E : EcOps) where
  K : E.Pt
  c : Bytes

/-- the 64-byte HMAC output split into I_L, I_R -/
abbrev split (I : Bytes) : Bytes × Bytes := (I.take 32, I.drop 32)

/--
  CKDpriv((k_par, c_par), i) → (k_i, c_i):
  * i ≥ 2^31 (hardened): I = HMAC-SHA512(Key = c_par, Data = 0x00 || ser256(k_par) || ser32(i))
  * otherwise:            I = HMAC-SHA512(Key = c_par, Data = serP(point(k_par)) || ser32(i))
  * k_i = parse256(I_L) + k_par (mod n), c_i = I_R
  * in case parse256(I_L) ≥ n or k_i = 0, the resulting key is invalid (`none`; proceeding with the next
    index is the caller's business)
-/
def CKDpriv (E : EcOps) (hmac : Bytes → Bytes → Bytes) (par : XPrv) (i : Nat) : Option XPrv :=
  let I := if i ≥ 2 ^ 31 then hmac par.c (0x00 :: (ser256 par.k ++ ser32 i))
           else hmac par.c (serP E (point E par.k) ++ ser32 i)
  let IL := (split I).1
  let IR := (split I).2
  let ki := (parse256 IL + par.k) % E.n
  if parse256 IL ≥ E.n ∨ ki = 0 then none else some ⟨ki, IR⟩

/--
  CKDpub((K_par, c_par), i) → (K_i, c_i), only for non-hardened i:
  * i ≥ 2^31: failure
  * I = HMAC-SHA512(Key = c_par, Data = serP(K_par) || ser32(i))
  * K_i = point(parse256(I_L)) + K_par, c_i = I_R
  * in case parse256(I_L) ≥ n or K_i is the point at infinity, the resulting key is invalid
-/
def CKDpub (E : EcOps) (hmac : Bytes → Bytes → Bytes) (par : XPub E) (i : Nat) : Option (XPub E) :=
  if i ≥ 2 ^ 31 then none
  else
    let I := hmac par.c (serP E par.K ++ ser32 i)
    let IL := (split I).1
    let IR := (split I).2
    let Ki := E.add (point E (parse256 IL)) par.K
    if parse256 IL ≥ E.n ∨ E.isInf Ki = true then none else some ⟨Ki, IR⟩

/-- N((k, c)) → (K, c): the "neutered" version -/
def N (E : EcOps) (x : XPrv) : XPub E := ⟨point E x.k, x.c⟩

/-- key identifier prefix: the first 32 bits of HASH160(serP(K)) -/
def fingerprint (E : EcOps) (hash160 : Bytes → Bytes) (K : E.Pt) : Bytes := (hash160 (serP E K)).take 4

/-- derivation along a path: CKDpriv(CKDpriv(CKDpriv(m, a), b), c) … -/
def derivePriv (E : EcOps) (hmac : Bytes → Bytes → Bytes) (m : XPrv) : List Nat → Option XPrv
  | [] => some m
  | i :: r => (CKDpriv E hmac m i).bind (fun c => derivePriv E hmac c r)

def derivePub (E : EcOps) (hmac : Bytes → Bytes → Bytes) (m : XPub E) : List Nat → Option (XPub E)
  | [] => some m
  | i :: r => (CKDpub E hmac m i).bind (fun c => derivePub E hmac c r)

/-- Serialization format: 4 byte version, 1 byte depth, 4 byte parent fingerprint, 4 byte child number
    (ser32(i), 0 for the master key), 32 byte chain code, 33 bytes key data (serP(K) or 0x00 || ser256(k)) -/
def serializePub (E : EcOps) (version : Bytes) (depth : Nat) (fp : Bytes) (i : Nat) (x : XPub E) : Bytes :=
  version ++ [UInt8.ofNat depth] ++ fp ++ ser32 i ++ x.c ++ serP E x.K

def serializePrv (version : Bytes) (depth : Nat) (fp : Bytes) (i : Nat) (x : XPrv) : Bytes :=
  version ++ [UInt8.ofNat depth] ++ fp ++ ser32 i ++ x.c ++ (0x00 :: ser256 x.k)

end Embit.Spec.Bip32
