import EmbitModel.Model.KeyCurve
/-
  BIP341 "Constructing and spending Taproot outputs": `taproot_tweak_pubkey` and `taproot_tweak_seckey`,
  transcribed from the reference code of the BIP, independently of embit. Abstract curve and tagged hash.

    def taproot_tweak_pubkey(pubkey, h):
        t = int_from_bytes(tagged_hash("TapTweak", pubkey + h))
        if t >= SECP256K1_ORDER: raise ValueError
        P = lift_x(int_from_bytes(pubkey))
        if P is None: raise ValueError
        Q = point_add(P, point_mul(G, t))
        return 0 if has_even_y(Q) else 1, bytes_from_int(x(Q))

    def taproot_tweak_seckey(seckey0, h):
        seckey0 = int_from_bytes(seckey0)
        P = point_mul(G, seckey0)
        seckey = seckey0 if has_even_y(P) else SECP256K1_ORDER - seckey0
        t = int_from_bytes(tagged_hash("TapTweak", bytes_from_int(x(P)) + h))
        if t >= SECP256K1_ORDER: raise ValueError
        return bytes_from_int((seckey + t) % SECP256K1_ORDER)
-/
namespace Embit.Spec.Bip341
open Embit Embit.Keys

def tapTweak : Text := [0x54, 0x61, 0x70, 0x54, 0x77, 0x65, 0x61, 0x6b]   -- "TapTweak"

/-- t = int(hash_TapTweak(bytes(x) || h)) -/
def tweakOf (tagged : Text → Bytes → Bytes) (x : Nat) (h : Bytes) : Nat := ofBe (tagged tapTweak (beN 32 x ++ h))

/-- the output key point `Q = lift_x(x) + t·G` of an internal key with X coordinate `x` and merkle root `h`
    (`h = []` when there is no script tree); `none` when `t ≥ n`, `x` is not on the curve, or `Q` has no
    coordinates -/
def outputPoint (E : EcOps) (tagged : Text → Bytes → Bytes) (x : Nat) (h : Bytes) : Option E.Pt :=
  if tweakOf tagged x h ≥ E.n then none
  else
    match E.liftX x with
    | none => none
    | some P =>
      let Q := E.add P (E.mulG (tweakOf tagged x h))
      if E.isInf Q then none else some Q

/-- `taproot_tweak_pubkey`: (parity of Q, x(Q)) -/
def tweakPubkey (E : EcOps) (tagged : Text → Bytes → Bytes) (x : Nat) (h : Bytes) : Option (Bool × Nat) :=
  (outputPoint E tagged x h).map (fun Q => (E.yOdd Q, E.x Q))

/-- `taproot_tweak_seckey` -/
def tweakSeckey (E : EcOps) (tagged : Text → Bytes → Bytes) (d : Nat) (h : Bytes) : Option Nat :=
  let P := E.mulG d
  let seckey := if E.yOdd P then E.n - d else d
  if tweakOf tagged (E.x P) h ≥ E.n then none
  else some ((seckey + tweakOf tagged (E.x P) h) % E.n)

end Embit.Spec.Bip341
