import EmbitModel.Basic.Bytes
/-
  Base58 and Base58Check as specified (Bitcoin wiki "Base58Check encoding"; the encoding used by
  Bitcoin Core's `EncodeBase58` / `EncodeBase58Check`). Written from the description, not from embit:
  * the byte string is read as a big-endian number and written in base 58, most significant digit first,
    without leading zero digits;
  * every leading zero byte is represented by one extra leading character `1`;
  * Base58Check appends the first four bytes of SHA-256(SHA-256(payload)) before encoding.
  Decoding is specified declaratively: `s` decodes to `b` iff `s` is the encoding of `b`.
-/
namespace Embit.Spec.Base58

def alphabet : List Char :=
  ['1','2','3','4','5','6','7','8','9',
   'A','B','C','D','E','F','G','H','J','K','L','M','N','P','Q','R','S','T','U','V','W','X','Y','Z',
   'a','b','c','d','e','f','g','h','i','j','k','m','n','o','p','q','r','s','t','u','v','w','x','y','z']

/-- value of a byte string read as a big-endian number -/
def value (b : Bytes) : Nat := b.foldl (fun a x => 256 * a + x.toNat) 0

/-- base-58 digits of `n`, most significant first, no leading zeros (`[]` for 0) -/
def digitsBE (n : Nat) : List Nat :=
  if _h : n = 0 then [] else digitsBE (n / 58) ++ [n % 58]
termination_by n
decreasing_by omega

def zeroPrefix (b : Bytes) : Nat := (b.takeWhile (· = 0)).length

def encode (b : Bytes) : List Char :=
  List.replicate (zeroPrefix b) '1' ++ (digitsBE (value b)).map (fun d => alphabet.getD d '?')

def checksum (sha256 : Bytes → Bytes) (payload : Bytes) : Bytes := (sha256 (sha256 payload)).take 4

def encodeCheck (sha256 : Bytes → Bytes) (payload : Bytes) : List Char :=
  encode (payload ++ checksum sha256 payload)

/-- `s` is a Base58 string for `b` -/
def Decodes (s : List Char) (b : Bytes) : Prop := s = encode b

/-- `s` is a Base58Check string carrying `payload` -/
def DecodesCheck (sha256 : Bytes → Bytes) (s : List Char) (payload : Bytes) : Prop :=
  s = encodeCheck sha256 payload

end Embit.Spec.Base58
