import EmbitModel.Model.Tx
/-
  BIP370 (PSBT version 2), section "Unsigned Transaction" / "Determining Lock Time": the transaction a PSBTv2
  describes, written from the BIP (not from embit) as a function of the RAW maps — the global map, the input
  maps and the output maps, each a list of <key, value> byte-string pairs with unique keys.

  Structures `Tx`, `TxIn`, `TxOut` are shared with the model (plain data). `TxIn.txid` holds the hash in display
  order (reversed wire order), so the 32 bytes of PSBT_IN_PREVIOUS_TXID — which are in transaction
  serialisation order — are stored reversed and `Spec.Wire.outpoint` writes them back unchanged.
-/
namespace Embit.Spec.Bip370

abbrev Map := List (Bytes × Bytes)

/-- the value stored under a key -/
def get : Map → Bytes → Option Bytes
  | [], _ => none
  | (k', v) :: r, k => if k' = k then some v else get r k

/-! key types (BIP174 / BIP370 tables) -/
def GLOBAL_TX_VERSION : Bytes := [0x02]
def GLOBAL_FALLBACK_LOCKTIME : Bytes := [0x03]
def IN_PREVIOUS_TXID : Bytes := [0x0e]
def IN_OUTPUT_INDEX : Bytes := [0x0f]
def IN_SEQUENCE : Bytes := [0x10]
def IN_REQUIRED_TIME_LOCKTIME : Bytes := [0x11]
def IN_REQUIRED_HEIGHT_LOCKTIME : Bytes := [0x12]
def OUT_AMOUNT : Bytes := [0x03]
def OUT_SCRIPT : Bytes := [0x04]

/-- `<32-bit little endian uint>` -/
def u32 (v : Bytes) : Option Nat := if v.length = 4 then some (ofLe v) else none
/-- `<64-bit little endian int>`; read as unsigned — in the serialised transaction the eight bytes are the same -/
def u64 (v : Bytes) : Option Nat := if v.length = 8 then some (ofLe v) else none

/-- all-or-nothing -/
def allSome {α : Type} : List (Option α) → Option (List α)
  | [] => some []
  | none :: _ => none
  | some x :: r => (allSome r).map (x :: ·)

def maxOf : List Nat → Nat
  | [] => 0
  | x :: r => max x (maxOf r)

/-- "Determining Lock Time": without any required lock time the fallback lock time (0 when absent); otherwise
    the lock-time type supported by all inputs that require one (height preferred when both are possible), and
    the maximum over the values of that type; `none` when no type is supported by all of them -/
def lockTime (g : Map) (ins : List Map) : Option Nat :=
  let constrained := ins.filter fun m =>
    (get m IN_REQUIRED_TIME_LOCKTIME).isSome || (get m IN_REQUIRED_HEIGHT_LOCKTIME).isSome
  if constrained.isEmpty then
    match get g GLOBAL_FALLBACK_LOCKTIME with
    | none => some 0
    | some v => u32 v
  else if constrained.all fun m => (get m IN_REQUIRED_HEIGHT_LOCKTIME).isSome then
    (allSome (constrained.map fun m => (get m IN_REQUIRED_HEIGHT_LOCKTIME).bind u32)).map maxOf
  else if constrained.all fun m => (get m IN_REQUIRED_TIME_LOCKTIME).isSome then
    (allSome (constrained.map fun m => (get m IN_REQUIRED_TIME_LOCKTIME).bind u32)).map maxOf
  else none

/-- input i = (previous txid, output index, sequence — 0xffffffff when absent), empty scriptSig and witness -/
def input (m : Map) : Option TxIn :=
  match get m IN_PREVIOUS_TXID, get m IN_OUTPUT_INDEX with
  | some txid, some idx =>
    if txid.length ≠ 32 then none else
    match u32 idx, (match get m IN_SEQUENCE with | none => some 0xffffffff | some v => u32 v) with
    | some n, some sq => some { txid := txid.reverse, vout := n, scriptSig := [], sequence := sq, witness := [] }
    | _, _ => none
  | _, _ => none

/-- output j = (amount, script) -/
def output (m : Map) : Option TxOut :=
  match get m OUT_AMOUNT, get m OUT_SCRIPT with
  | some a, some sc => (u64 a).map fun v => { value := v, spk := sc }
  | _, _ => none

/-- the unsigned transaction of a PSBTv2; `none` when a required field is missing or has the wrong width -/
def unsignedTx (g : Map) (ins outs : List Map) : Option Tx :=
  match (get g GLOBAL_TX_VERSION).bind u32, lockTime g ins, allSome (ins.map input), allSome (outs.map output) with
  | some ver, some lt, some vin, some vout => some { version := ver, vin := vin, vout := vout, locktime := lt }
  | _, _, _, _ => none

end Embit.Spec.Bip370
