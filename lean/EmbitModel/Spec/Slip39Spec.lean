import EmbitModel.Basic.Bytes
/-
  SLIP-0039 (Shamir's secret sharing for mnemonic codes), written from the text of the standard, not from
  embit: GF(256) arithmetic by carry-less multiplication modulo the Rijndael polynomial, Lagrange
  interpolation, SplitSecret / RecoverSecret, the Feistel cipher, the share layout and the RS1024 code
  (as the Reed-Solomon code over GF(1024) it is, with generator polynomial (x-a)(x-a^2)(x-a^3)).
  Mathlib-free and executable; HMAC-SHA256 and PBKDF2-HMAC-SHA256 are parameters.
-/
namespace Embit.Spec.Slip39
open Embit

/-! ### GF(2^m) by carry-less ("Russian peasant") multiplication -/

/-- multiply `a` by `x` in GF(2)[x]/(poly), `poly` of degree `m` given with its leading bit -/
def xtime (m poly a : Nat) : Nat :=
  let a2 := a <<< 1
  if a2.testBit m then a2 ^^^ poly else a2

/-- `a · b` for `b` given by its low `n` bits: Σ_{i<n, b_i = 1} a·x^i -/
def clmul (m poly : Nat) : Nat → Nat → Nat → Nat
  | 0, _, _ => 0
  | n + 1, a, b => (if b.testBit 0 then a else 0) ^^^ clmul m poly n (xtime m poly a) (b >>> 1)

/-- GF(256) = GF(2)[x]/(x^8 + x^4 + x^3 + x + 1) -/
def gfMul (a b : Nat) : Nat := clmul 8 0x11B 8 a b

def gfPow (a : Nat) : Nat → Nat
  | 0 => 1
  | n + 1 => gfMul (gfPow a n) a

/-- multiplicative inverse: a^254 = a^2 · a^4 · a^8 · a^16 · a^32 · a^64 · a^128 (and 0 ↦ 0) -/
def gfInv (a : Nat) : Nat :=
  let a2 := gfMul a a
  let a4 := gfMul a2 a2
  let a8 := gfMul a4 a4
  let a16 := gfMul a8 a8
  let a32 := gfMul a16 a16
  let a64 := gfMul a32 a32
  let a128 := gfMul a64 a64
  gfMul a2 (gfMul a4 (gfMul a8 (gfMul a16 (gfMul a32 (gfMul a64 a128)))))

/-- GF(1024) = GF(2)[z]/(z^10 + z^3 + 1), the field of the RS1024 code -/
def gf1024Mul (a b : Nat) : Nat := clmul 10 0x409 10 a b

/-! ### Lagrange interpolation over GF(256), addition and subtraction are XOR -/

def xorAll (l : List Nat) : Nat := l.foldr (· ^^^ ·) 0
def gfProd (l : List Nat) : Nat := l.foldr gfMul 1

/-- the Lagrange basis value ℓ_i(x) = Π_{j ≠ i} (x − x_j) / (x_i − x_j) for the i-th of the points `xs` -/
def basisAt (x : Nat) (xs : List Nat) (i : Nat) : Nat :=
  let xi := xs.getD i 0
  gfProd ((xs.eraseIdx i).map fun xj => gfMul (x ^^^ xj) (gfInv (xi ^^^ xj)))

/-- all basis values ℓ_0(x) … ℓ_{m-1}(x) for the points `xs` -/
def basisValues (x : Nat) (xs : List Nat) : List Nat := (List.range xs.length).map (basisAt x xs)

/-- f(x) = Σ_i y_i ℓ_i(x) for scalar points -/
def lagrange (x : Nat) (pts : List (Nat × Nat)) : Nat :=
  xorAll (List.zipWith (fun p l => gfMul p.2 l) pts (basisValues x (pts.map (·.1))))

/-- `Interpolation(x, {(x_i, y_i)})` on byte strings of length `n`: the scalar formula applied bytewise
    (the basis values depend on the x-coordinates only) -/
def interpolation (n : Nat) (x : Nat) (pts : List (Nat × Bytes)) : Bytes :=
  let ls := basisValues x (pts.map (·.1))
  (List.range n).map fun b => UInt8.ofNat (xorAll (List.zipWith (fun p l => gfMul (p.2.getD b 0).toNat l) pts ls))

/-! ### SplitSecret / RecoverSecret -/

structure Prims where
  hmac : Bytes → Bytes → Bytes                    -- HMAC-SHA256(key, msg)
  pbkdf2 : Bytes → Bytes → Nat → Nat → Bytes      -- PBKDF2(PRF = HMAC-SHA256, password, salt, c, dkLen)

/-- `SplitSecret(T, N, S)` with the random choices given: `R` (n − 4 bytes) and `y_0 … y_{T−3}` -/
def splitSecret (P : Prims) (T N : Nat) (S : Bytes) (R : Bytes) (ys : List Bytes) : Option (List (Nat × Bytes)) :=
  if !(1 ≤ T ∧ T ≤ N ∧ N ≤ 16) then none else
  if T = 1 then some ((List.range N).map fun i => (i, S)) else
  let n := S.length
  if R.length ≠ n - 4 ∨ ys.length ≠ T - 2 ∨ ys.any (·.length ≠ n) then none else
  let D := (P.hmac R S).take 4 ++ R
  let base := (List.range (T - 2)).map fun i => (i, ys.getD i [])
  let pts := base ++ [(254, D), (255, S)]
  some ((List.range N).map fun i => if i < T - 2 then (i, ys.getD i []) else (i, interpolation n i pts))

/-- `RecoverSecret(T, shares)`: aborts (none) when the digest does not verify -/
def recoverSecret (P : Prims) (T : Nat) (shares : List (Nat × Bytes)) : Option Bytes :=
  match shares with
  | [] => none
  | s0 :: _ =>
    if T = 1 then some s0.2 else
    let n := s0.2.length
    let S := interpolation n 255 shares
    let D := interpolation n 254 shares
    if D.take 4 = (P.hmac (D.drop 4) S).take 4 then some S else none

/-! ### encryption of the master secret (4-round Feistel, F = PBKDF2-HMAC-SHA256) -/

def xorBytes (a b : Bytes) : Bytes := List.zipWith (· ^^^ ·) a b

/-- ASCII "shamir" -/
def asciiShamir : Bytes := [0x73, 0x68, 0x61, 0x6d, 0x69, 0x72]
/-- ASCII "shamir_extendable" -/
def asciiShamirExtendable : Bytes :=
  [0x73, 0x68, 0x61, 0x6d, 0x69, 0x72, 0x5f, 0x65, 0x78, 0x74, 0x65, 0x6e, 0x64, 0x61, 0x62, 0x6c, 0x65]

/-- the round function F(i, R) = PBKDF2(password = i ‖ passphrase, salt = "shamir" ‖ id ‖ R,
    iterations = 2500·2^e, dkLen = n/2) — non-extendable backups -/
def roundF (P : Prims) (id e : Nat) (passphrase : Bytes) (half : Nat) (i : Nat) (R : Bytes) : Bytes :=
  P.pbkdf2 (UInt8.ofNat i :: passphrase) (asciiShamir ++ beN 2 id ++ R) (2500 * 2 ^ e) half

def feistel (P : Prims) (id e : Nat) (passphrase : Bytes) (half : Nat) : List Nat → Bytes × Bytes → Bytes × Bytes
  | [], st => st
  | i :: is, (L, R) => feistel P id e passphrase half is (R, xorBytes L (roundF P id e passphrase half i R))

def encryptMS (P : Prims) (ms : Bytes) (id e : Nat) (passphrase : Bytes) : Bytes :=
  let half := ms.length / 2
  let (L, R) := feistel P id e passphrase half [0, 1, 2, 3] (ms.take half, ms.drop half)
  R ++ L

def decryptMS (P : Prims) (ems : Bytes) (id e : Nat) (passphrase : Bytes) : Bytes :=
  let half := ems.length / 2
  let (L, R) := feistel P id e passphrase half [3, 2, 1, 0] (ems.take half, ems.drop half)
  R ++ L

/-! ### share layout: id(15) ext(1) e(4) GI(4) Gt(4) g(4) I(4) t(4) padded-share-value checksum(30) -/

structure ShareFields where
  id : Nat          -- 15 bits
  ext : Nat         -- extendable-backup flag, 1 bit (0 in everything embit produces or accepts)
  e : Nat           -- iteration exponent, 4 bits
  GI : Nat          -- group index, 4 bits
  Gt : Nat          -- group threshold (stored minus one)
  g : Nat           -- group count (stored minus one)
  I : Nat           -- member index
  t : Nat           -- member threshold (stored minus one)
  value : Bytes     -- share value, big-endian
deriving DecidableEq, Repr

/-- big-endian bits of `v`, `w` of them -/
def bitsBE (w v : Nat) : List Bool := (List.range w).map fun i => v.testBit (w - 1 - i)

def natOfBitsBE (bs : List Bool) : Nat := bs.foldl (fun a b => 2 * a + (if b then 1 else 0)) 0

/-- chop a bit string into 10-bit words -/
def words10 : Nat → List Bool → List Nat
  | 0, _ => []
  | n + 1, bs => natOfBitsBE (bs.take 10) :: words10 n (bs.drop 10)

def headerBits (s : ShareFields) : List Bool :=
  bitsBE 15 s.id ++ bitsBE 1 s.ext ++ bitsBE 4 s.e ++ bitsBE 4 s.GI ++ bitsBE 4 (s.Gt - 1) ++
  bitsBE 4 (s.g - 1) ++ bitsBE 4 s.I ++ bitsBE 4 (s.t - 1)

/-- the share words without checksum: header, then the value left-padded with zero bits to a multiple of 10 -/
def dataWords (s : ShareFields) : List Nat :=
  let vbits := s.value.flatMap fun b => bitsBE 8 b.toNat
  let pad := (10 - vbits.length % 10) % 10
  let bits := headerBits s ++ List.replicate pad false ++ vbits
  words10 (bits.length / 10) bits

/-! ### RS1024: Reed-Solomon over GF(1024), g(x) = (x − a)(x − a²)(x − a³) with a = z -/

def rsA : Nat := 2
def rsA2 : Nat := gf1024Mul rsA rsA
def rsA3 : Nat := gf1024Mul rsA2 rsA
/-- g(x) = x³ + g2 x² + g1 x + g0 -/
def rsG2 : Nat := rsA ^^^ rsA2 ^^^ rsA3
def rsG1 : Nat := gf1024Mul rsA rsA2 ^^^ gf1024Mul rsA rsA3 ^^^ gf1024Mul rsA2 rsA3
def rsG0 : Nat := gf1024Mul rsA (gf1024Mul rsA2 rsA3)

/-- remainder state (c2, c1, c0) of c(x)·x + v modulo g(x) -/
def rsStep (c : Nat × Nat × Nat) (v : Nat) : Nat × Nat × Nat :=
  let (c2, c1, c0) := c
  (c1 ^^^ gf1024Mul c2 rsG2, c0 ^^^ gf1024Mul c2 rsG1, v ^^^ gf1024Mul c2 rsG0)

/-- the residue of (1·x^len + values as polynomial) modulo g -/
def rsResidue (values : List Nat) : Nat × Nat × Nat := values.foldl rsStep (0, 0, 1)

def customization (ext : Nat) : List Nat :=
  (if ext = 1 then asciiShamirExtendable else asciiShamir).map (·.toNat)

/-- a word sequence is a code word iff the residue is the constant 1 -/
def rsValid (ext : Nat) (words : List Nat) : Bool := rsResidue (customization ext ++ words) == (0, 0, 1)

/-- the three checksum words making `data ++ checksum` a code word -/
def rsChecksum (ext : Nat) (data : List Nat) : List Nat :=
  let (c2, c1, c0) := rsResidue (customization ext ++ data ++ [0, 0, 0])
  [c2, c1, c0 ^^^ 1]

def encodeShare (s : ShareFields) : List Nat :=
  let d := dataWords s
  d ++ rsChecksum s.ext d

/-- decoding with the validity checks of the standard: checksum, length (padding ≤ 8 bits, at least 128 bits,
    a multiple of 16 bits), zero padding, Gt ≤ g -/
def decodeShare (words : List Nat) : Option ShareFields :=
  if words.length < 20 then none else
  let ext := ((words.getD 1 0) >>> 4) &&& 1
  if !rsValid ext words then none else
  let bits := (words.take (words.length - 3)).flatMap (bitsBE 10)
  let fld (off w : Nat) : Nat := natOfBitsBE ((bits.drop off).take w)
  let vbitsPadded := bits.drop 40
  let pad := vbitsPadded.length % 16
  if pad > 8 then none else
  if (vbitsPadded.take pad).any id then none else
  let vbits := vbitsPadded.drop pad
  let Gt := fld 24 4 + 1
  let g := fld 28 4 + 1
  if Gt > g then none else
  some { id := fld 0 15, ext := ext, e := fld 16 4, GI := fld 20 4, Gt := Gt, g := g, I := fld 32 4,
         t := fld 36 4 + 1,
         value := (List.range (vbits.length / 8)).map fun k => UInt8.ofNat (natOfBitsBE ((vbits.drop (8 * k)).take 8)) }

end Embit.Spec.Slip39
