import EmbitModel.Basic.Ms
/-
  The miniscript specification (https://bitcoin.sipa.be/miniscript — "Correctness properties" table and
  "Translation table"), restricted to what property C13 names: base types B/V/K/W, properties z/o/n/d/u,
  argument ranges, the P2WSH / tapscript context rules, and the script each fragment stands for.
  Written from the published tables, NOT from embit.

  The tables are given for the CORE fragments only (`Frag`). The syntactic sugar is removed first, exactly as
  the specification defines it:
      pk(K) = c:pk_k(K)      pkh(K) = c:pk_h(K)      and_n(X,Y) = andor(X,Y,0)
      t:X = and_v(X,1)       l:X = or_i(0,X)         u:X = or_i(X,0)
      sortedmulti(k,…) / sortedmulti_a(k,…) = multi / multi_a over the keys in lexicographic order (BIP383/BIP387)
  so the rules for the sugared forms are DERIVED here, never restated.
-/
namespace Embit.Spec.Miniscript
open Embit.Miniscript

/-! ### core fragments -/

inductive CoreBin | and_v | and_b | or_b | or_c | or_d | or_i
deriving DecidableEq, Repr
inductive CoreWrap | a | s | c | d | v | j | n
deriving DecidableEq, Repr

inductive Frag where
  | zero
  | one
  | pk_k (key : Bytes)
  | pk_h (keyhash : Bytes)
  | older (n : Nat)
  | after (n : Nat)
  | hash (f : HashFrag) (h : Bytes)
  | andor (x y z : Frag)
  | bin (f : CoreBin) (x y : Frag)
  | thresh (k : Nat) (xs : List Frag)
  | multi (k : Nat) (keys : List Bytes)
  | multi_a (k : Nat) (keys : List Bytes)
  | wrap (w : CoreWrap) (x : Frag)
deriving Repr, Inhabited

mutual
def desugar : Ms → Frag
  | .key .pk_k a => .pk_k a
  | .key .pk_h a => .pk_h a
  | .key .pk a => .wrap .c (.pk_k a)
  | .key .pkh a => .wrap .c (.pk_h a)
  | .time .older n => .older n
  | .time .after n => .after n
  | .hash f h => .hash f h
  | .andor x y z => .andor (desugar x) (desugar y) (desugar z)
  | .bin .and_v x y => .bin .and_v (desugar x) (desugar y)
  | .bin .and_b x y => .bin .and_b (desugar x) (desugar y)
  | .bin .and_n x y => .andor (desugar x) (desugar y) .zero
  | .bin .or_b x y => .bin .or_b (desugar x) (desugar y)
  | .bin .or_c x y => .bin .or_c (desugar x) (desugar y)
  | .bin .or_d x y => .bin .or_d (desugar x) (desugar y)
  | .bin .or_i x y => .bin .or_i (desugar x) (desugar y)
  | .thresh k xs => .thresh k (desugarL xs)
  | .multi .multi k keys => .multi k keys
  | .multi .sortedmulti k keys => .multi k (sortBytes keys)
  | .multi .multi_a k keys => .multi_a k keys
  | .multi .sortedmulti_a k keys => .multi_a k (sortBytes keys)
  | .wrap .a x => .wrap .a (desugar x)
  | .wrap .s x => .wrap .s (desugar x)
  | .wrap .c x => .wrap .c (desugar x)
  | .wrap .t x => .bin .and_v (desugar x) .one
  | .wrap .d x => .wrap .d (desugar x)
  | .wrap .v x => .wrap .v (desugar x)
  | .wrap .j x => .wrap .j (desugar x)
  | .wrap .n x => .wrap .n (desugar x)
  | .wrap .l x => .bin .or_i .zero (desugar x)
  | .wrap .u x => .bin .or_i (desugar x) .zero
def desugarL : List Ms → List Frag
  | [] => []
  | x :: xs => desugar x :: desugarL xs
end

/-! ### the correctness table -/

/-- a type: base type and the set of properties among z o n d u -/
abbrev TP := Ty × Props

def isBKV (t : Ty) : Bool := t == .B || t == .K || t == .V

/-- andor(X,Y,Z): X is Bdu; Y and Z are both B, K, or V. Type: same as Y/Z.
    z=zXzYzZ; o=zXoYoZ or oXzYzZ; u=uYuZ; d=dZ -/
def andorRule (X Y Z : TP) : Option TP :=
  if X.1 == .B && X.2.d && X.2.u && Y.1 == Z.1 && isBKV Y.1 then
    some (Y.1, { z := X.2.z && Y.2.z && Z.2.z
                 o := (X.2.z && Y.2.o && Z.2.o) || (X.2.o && Y.2.z && Z.2.z)
                 u := Y.2.u && Z.2.u
                 d := Z.2.d })
  else none

def binRule (f : CoreBin) (X Y : TP) : Option TP :=
  match f with
  | .and_v =>
    -- X is V; Y is B, K, or V. same as Y. z=zXzY; o=zXoY or zYoX; n=nX or zXnY; u=uY
    if X.1 == .V && isBKV Y.1 then
      some (Y.1, { z := X.2.z && Y.2.z, o := (X.2.z && Y.2.o) || (Y.2.z && X.2.o),
                   n := X.2.n || (X.2.z && Y.2.n), u := Y.2.u })
    else none
  | .and_b =>
    -- X is B; Y is W. B. z=zXzY; o=zXoY or zYoX; n=nX or zXnY; d=dXdY; u
    if X.1 == .B && Y.1 == .W then
      some (.B, { z := X.2.z && Y.2.z, o := (X.2.z && Y.2.o) || (Y.2.z && X.2.o),
                  n := X.2.n || (X.2.z && Y.2.n), d := X.2.d && Y.2.d, u := true })
    else none
  | .or_b =>
    -- X is Bd; Z is Wd. B. z=zXzZ; o=zXoZ or zZoX; d; u
    if X.1 == .B && X.2.d && Y.1 == .W && Y.2.d then
      some (.B, { z := X.2.z && Y.2.z, o := (X.2.z && Y.2.o) || (Y.2.z && X.2.o), d := true, u := true })
    else none
  | .or_c =>
    -- X is Bdu; Z is V. V. z=zXzZ; o=oXzZ
    if X.1 == .B && X.2.d && X.2.u && Y.1 == .V then
      some (.V, { z := X.2.z && Y.2.z, o := X.2.o && Y.2.z })
    else none
  | .or_d =>
    -- X is Bdu; Z is B. B. z=zXzZ; o=oXzZ; d=dZ; u=uZ
    if X.1 == .B && X.2.d && X.2.u && Y.1 == .B then
      some (.B, { z := X.2.z && Y.2.z, o := X.2.o && Y.2.z, d := Y.2.d, u := Y.2.u })
    else none
  | .or_i =>
    -- both are B, K, or V. same as X/Z. o=zXzZ; u=uXuZ; d=dX or dZ
    if X.1 == Y.1 && isBKV X.1 then
      some (X.1, { o := X.2.z && Y.2.z, u := X.2.u && Y.2.u, d := X.2.d || Y.2.d })
    else none

def wrapRule (ctx : Ctx) (w : CoreWrap) (X : TP) : Option TP :=
  match w with
  | .a => if X.1 == .B then some (.W, { d := X.2.d, u := X.2.u }) else none            -- X is B. W. d=dX; u=uX
  | .s => if X.1 == .B && X.2.o then some (.W, { d := X.2.d, u := X.2.u }) else none   -- X is Bo. W. d=dX; u=uX
  | .c => if X.1 == .K then some (.B, { o := X.2.o, n := X.2.n, d := X.2.d, u := true }) else none  -- X is K
  | .d =>
    -- X is Vz. B. o; n; d; (tapscript only) u
    if X.1 == .V && X.2.z then some (.B, { o := true, n := true, d := true, u := ctx == .tap }) else none
  | .v => if X.1 == .B then some (.V, { z := X.2.z, o := X.2.o, n := X.2.n }) else none  -- X is B. V. z=zX; o=oX; n=nX
  | .j =>
    -- X is Bn. B. o=oX; n; d; u=uX
    if X.1 == .B && X.2.n then some (.B, { o := X.2.o, n := true, d := true, u := X.2.u }) else none
  | .n =>
    -- X is B. B. z=zX; o=oX; n=nX; d=dX; u
    if X.1 == .B then some (.B, { z := X.2.z, o := X.2.o, n := X.2.n, d := X.2.d, u := true }) else none

/-- stack elements one argument of thresh consumes beyond zero, capped at 2 -/
def argCost (p : Props) : Nat := if p.z then 0 else if p.o then 1 else 2

def costSum : List TP → Nat
  | [] => 0
  | t :: ts => argCost t.2 + costSum ts

/-- thresh(k,X1,…,Xn): 1 ≤ k ≤ n; X1 is Bdu; others are Wdu. B.
    z=all are z; o=all are z except one is o; d; u -/
def threshRule (k : Nat) (ts : List TP) : Option TP :=
  match ts with
  | [] => none
  | X1 :: rest =>
    if 1 ≤ k && k ≤ ts.length && X1.1 == .B && X1.2.d && X1.2.u
        && rest.all (fun X => X.1 == .W && X.2.d && X.2.u) then
      some (.B, { z := costSum ts == 0, o := costSum ts == 1, d := true, u := true })
    else none

/-- multi(k,key1,…,keyn): 1 ≤ k ≤ n ≤ 20; P2WSH only. B. n; d; u -/
def multiRule (ctx : Ctx) (k n : Nat) : Option TP :=
  if ctx == .wsh && 1 ≤ k && k ≤ n && n ≤ 20 then some (.B, { n := true, d := true, u := true }) else none

/-- multi_a(k,key1,…,keyn): 1 ≤ k ≤ n (≤ 999); tapscript only. B. d; u -/
def multiARule (ctx : Ctx) (k n : Nat) : Option TP :=
  if ctx == .tap && 1 ≤ k && k ≤ n && n ≤ 999 then some (.B, { d := true, u := true }) else none

mutual
/-- the type of a core expression, `none` when some requirement of the table is not met -/
def typeOf (ctx : Ctx) : Frag → Option TP
  | .zero => some (.B, { z := true, u := true, d := true })
  | .one => some (.B, { z := true, u := true })
  | .pk_k _ => some (.K, { o := true, n := true, d := true, u := true })
  | .pk_h _ => some (.K, { n := true, d := true, u := true })
  | .older n => if 1 ≤ n && n < 2 ^ 31 then some (.B, { z := true }) else none
  | .after n => if 1 ≤ n && n < 2 ^ 31 then some (.B, { z := true }) else none
  | .hash _ _ => some (.B, { o := true, n := true, d := true, u := true })
  | .andor x y z =>
    match typeOf ctx x, typeOf ctx y, typeOf ctx z with
    | some X, some Y, some Z => andorRule X Y Z
    | _, _, _ => none
  | .bin f x y =>
    match typeOf ctx x, typeOf ctx y with
    | some X, some Y => binRule f X Y
    | _, _ => none
  | .thresh k xs =>
    match typeOfL ctx xs with
    | some ts => threshRule k ts
    | none => none
  | .multi k keys => multiRule ctx k keys.length
  | .multi_a k keys => multiARule ctx k keys.length
  | .wrap w x =>
    match typeOf ctx x with
    | some X => wrapRule ctx w X
    | none => none
def typeOfL (ctx : Ctx) : List Frag → Option (List TP)
  | [] => some []
  | x :: xs =>
    match typeOf ctx x, typeOfL ctx xs with
    | some X, some Xs => some (X :: Xs)
    | _, _ => none
end

/-- a miniscript is valid at the top level of `wsh(…)` / of a tapscript leaf when it has type B -/
def wellTyped (ctx : Ctx) (e : Ms) : Bool :=
  match typeOf ctx (desugar e) with
  | some (.B, _) => true
  | _ => false

/-! ### the translation table -/

inductive Op
  | IF | NOTIF | ELSE | ENDIF | VERIFY | TOALTSTACK | FROMALTSTACK | IFDUP | DUP | SWAP | SIZE
  | EQUAL | EQUALVERIFY | ZERONOTEQUAL | ADD | BOOLAND | BOOLOR | NUMEQUAL | NUMEQUALVERIFY
  | RIPEMD160 | SHA256 | HASH160 | HASH256 | CHECKSIG | CHECKSIGVERIFY | CHECKMULTISIG | CHECKMULTISIGVERIFY
  | CHECKLOCKTIMEVERIFY | CHECKSEQUENCEVERIFY | CHECKSIGADD
deriving DecidableEq, Repr

/-- opcode numbers (Bitcoin Core `script.h`) -/
def Op.code : Op → UInt8
  | .IF => 0x63 | .NOTIF => 0x64 | .ELSE => 0x67 | .ENDIF => 0x68 | .VERIFY => 0x69
  | .TOALTSTACK => 0x6b | .FROMALTSTACK => 0x6c | .IFDUP => 0x73 | .DUP => 0x76 | .SWAP => 0x7c
  | .SIZE => 0x82 | .EQUAL => 0x87 | .EQUALVERIFY => 0x88 | .ZERONOTEQUAL => 0x92 | .ADD => 0x93
  | .BOOLAND => 0x9a | .BOOLOR => 0x9b | .NUMEQUAL => 0x9c | .NUMEQUALVERIFY => 0x9d
  | .RIPEMD160 => 0xa6 | .SHA256 => 0xa8 | .HASH160 => 0xa9 | .HASH256 => 0xaa
  | .CHECKSIG => 0xac | .CHECKSIGVERIFY => 0xad | .CHECKMULTISIG => 0xae | .CHECKMULTISIGVERIFY => 0xaf
  | .CHECKLOCKTIMEVERIFY => 0xb1 | .CHECKSEQUENCEVERIFY => 0xb2 | .CHECKSIGADD => 0xba

/-- script elements: an opcode, a data push `<data>`, a number push `<n>` -/
inductive Elem
  | op (o : Op)
  | push (d : Bytes)
  | num (n : Nat)
deriving DecidableEq, Repr

def hashOp : HashFrag → Op
  | .sha256 => .SHA256
  | .hash256 => .HASH256
  | .ripemd160 => .RIPEMD160
  | .hash160 => .HASH160

/-- "[X] VERIFY (or VERIFY version of last opcode in [X])" -/
def verifyVersion : Op → Option Op
  | .EQUAL => some .EQUALVERIFY
  | .NUMEQUAL => some .NUMEQUALVERIFY
  | .CHECKSIG => some .CHECKSIGVERIFY
  | .CHECKMULTISIG => some .CHECKMULTISIGVERIFY
  | _ => none

def addVerify (s : List Elem) : List Elem :=
  match s.getLast? with
  | some (.op o) =>
    match verifyVersion o with
    | some ov => s.dropLast ++ [.op ov]
    | none => s ++ [.op .VERIFY]
  | _ => s ++ [.op .VERIFY]

/-- [X2] ADD … [Xn] ADD -/
def addChain : List (List Elem) → List Elem
  | [] => []
  | s :: ss => s ++ [.op .ADD] ++ addChain ss

/-- <key2> CHECKSIGADD … <keyn> CHECKSIGADD -/
def sigAddChain : List Bytes → List Elem
  | [] => []
  | k :: ks => [.push k, .op .CHECKSIGADD] ++ sigAddChain ks

mutual
def script : Frag → List Elem
  | .zero => [.num 0]
  | .one => [.num 1]
  | .pk_k key => [.push key]
  | .pk_h h => [.op .DUP, .op .HASH160, .push h, .op .EQUALVERIFY]
  | .older n => [.num n, .op .CHECKSEQUENCEVERIFY]
  | .after n => [.num n, .op .CHECKLOCKTIMEVERIFY]
  | .hash f h => [.op .SIZE, .num 32, .op .EQUALVERIFY, .op (hashOp f), .push h, .op .EQUAL]
  | .andor x y z => script x ++ [.op .NOTIF] ++ script z ++ [.op .ELSE] ++ script y ++ [.op .ENDIF]
  | .bin .and_v x y => script x ++ script y
  | .bin .and_b x y => script x ++ script y ++ [.op .BOOLAND]
  | .bin .or_b x z => script x ++ script z ++ [.op .BOOLOR]
  | .bin .or_c x z => script x ++ [.op .NOTIF] ++ script z ++ [.op .ENDIF]
  | .bin .or_d x z => script x ++ [.op .IFDUP, .op .NOTIF] ++ script z ++ [.op .ENDIF]
  | .bin .or_i x z => [.op .IF] ++ script x ++ [.op .ELSE] ++ script z ++ [.op .ENDIF]
  | .thresh k xs =>
    match scriptL xs with
    | [] => [.num k, .op .EQUAL]      -- n = 0 is never well-typed
    | s1 :: rest => s1 ++ addChain rest ++ [.num k, .op .EQUAL]
  | .multi k keys => [.num k] ++ keys.map .push ++ [.num keys.length, .op .CHECKMULTISIG]
  | .multi_a k keys =>
    match keys with
    | [] => [.num k, .op .NUMEQUAL]   -- n = 0 is never well-typed
    | k1 :: rest => [.push k1, .op .CHECKSIG] ++ sigAddChain rest ++ [.num k, .op .NUMEQUAL]
  | .wrap .a x => [.op .TOALTSTACK] ++ script x ++ [.op .FROMALTSTACK]
  | .wrap .s x => [.op .SWAP] ++ script x
  | .wrap .c x => script x ++ [.op .CHECKSIG]
  | .wrap .d x => [.op .DUP, .op .IF] ++ script x ++ [.op .ENDIF]
  | .wrap .v x => addVerify (script x)
  | .wrap .j x => [.op .SIZE, .op .ZERONOTEQUAL, .op .IF] ++ script x ++ [.op .ENDIF]
  | .wrap .n x => script x ++ [.op .ZERONOTEQUAL]
def scriptL : List Frag → List (List Elem)
  | [] => []
  | x :: xs => script x :: scriptL xs
end

/-! ### serialisation of script elements (Bitcoin Core `CScript::operator<<`) -/

/-- minimal little-endian magnitude bytes of `n` (`fuel` ≥ the byte length; `n` itself always suffices) -/
def minLEAux : Nat → Nat → Bytes
  | 0, _ => []
  | f + 1, n => if n = 0 then [] else UInt8.ofNat (n % 256) :: minLEAux f (n / 256)

/-- `CScriptNum::serialize` for a non-negative number: minimal little-endian, with an extra 0x00 when the
    top bit of the last byte is set (that bit is the sign) -/
def scriptNum (n : Nat) : Bytes :=
  let b := minLEAux n n
  match b.getLast? with
  | some l => if l.toNat ≥ 128 then b ++ [0x00] else b
  | none => b

/-- data push: direct push below 76 bytes, then PUSHDATA1/2/4 -/
def pushData (d : Bytes) : Bytes :=
  if d.length < 0x4c then UInt8.ofNat d.length :: d
  else if d.length ≤ 0xff then 0x4c :: UInt8.ofNat d.length :: d
  else if d.length ≤ 0xffff then 0x4d :: leN 2 d.length ++ d
  else 0x4e :: leN 4 d.length ++ d

/-- number push: OP_0, OP_1 … OP_16, else the CScriptNum bytes as data -/
def pushNum (n : Nat) : Bytes :=
  if n = 0 then [0x00]
  else if n ≤ 16 then [UInt8.ofNat (0x50 + n)]
  else pushData (scriptNum n)

def Elem.ser : Elem → Bytes
  | .op o => [o.code]
  | .push d => pushData d
  | .num n => pushNum n

def serScript (s : List Elem) : Bytes := s.flatMap Elem.ser

/-- the script the specification assigns to an expression -/
def scriptBytes (e : Ms) : Bytes := serScript (script (desugar e))

end Embit.Spec.Miniscript
