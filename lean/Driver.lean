import EmbitModel.Driver.Tx
import EmbitModel.Driver.Hash
import EmbitModel.Driver.Sighash
import EmbitModel.Driver.Psbt
import EmbitModel.Driver.Bip39
import EmbitModel.Driver.Miniscript
import EmbitModel.Driver.View
import EmbitModel.Driver.SigCheck
import EmbitModel.Driver.Sign
import EmbitModel.Driver.Addr
import EmbitModel.Driver.Secp
import EmbitModel.Driver.Slip39
import EmbitModel.Driver.Heap
import EmbitModel.Driver.Lock
import EmbitModel.Driver.Keys
import EmbitModel.Driver.Descriptor
import EmbitModel.Driver.Liquid
import EmbitModel.Driver.KeysX
import EmbitModel.Driver.PsbtX
import EmbitModel.Driver.Slip39X
import EmbitModel.Driver.ViewX
import EmbitModel.Driver.SignWith
import EmbitModel.Driver.SignWithViewBytes
import EmbitModel.Driver.Cost
import EmbitModel.Driver.LockX
import EmbitModel.Driver.MiniscriptX
import EmbitModel.Driver.HeapX
import EmbitModel.Driver.HeapDeep
import EmbitModel.Driver.LiquidX
import EmbitModel.Driver.PyCurve
import EmbitModel.Driver.HeapY
import EmbitModel.Driver.PsbtVerify
import EmbitModel.Driver.SecpToy
/-
  Native line-protocol driver over the executable model and spec (no Mathlib reachable from here).
  One request per line `op arg…`; one answer per line: `ok …`, `none` (model rejects), or `bad-op`.
-/
open Embit.Driver

def handlers : List (String → List String → Option String) := [handleTx, handleHash, handleSighash, handlePsbt, handleBip39, handleMiniscript, handleView, handleSigCheck, handleSign, handleAddr, handleSecp, handleSlip39, handleHeap, handleLock, handleKeys, handleDescriptor, handleLiquid, handleKeysX, handlePsbtX, handleSlip39X, handleViewX, handleSignWith, handleCost, handleLockX, handleMiniscriptX, handleHeapX, handleLiquidX, handlePyCurve, handleEcOps, handleHeapY, handlePsbtVerify, handleSignWithViewBytes, Embit.Driver.Toy.handleSecpToy, handleHeapDeep]

def dispatch (line : String) : String :=
  match (line.splitOn " ").filter (· ≠ "") with
  | [] => "bad-op"
  | op :: args =>
    let rec go : List (String → List String → Option String) → String
      | [] => "bad-op"
      | h :: hs => match h op args with
        | some r => r
        | none => go hs
    go handlers

partial def loop (h : IO.FS.Stream) (out : IO.FS.Stream) : IO Unit := do
  let line ← h.getLine
  if line.isEmpty then return ()
  let l := line.trimAscii.toString
  out.putStrLn (dispatch l)
  loop h out

def main : IO Unit := do
  let stdin ← IO.getStdin
  let stdout ← IO.getStdout
  loop stdin stdout
