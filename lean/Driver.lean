import EmbitModel
def main : IO Unit := IO.println "ok"
