import EmbitModel.Basic.Bytes
import EmbitModel.Basic.Compact
