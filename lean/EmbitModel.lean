-- Root of the library: everything `lake build` must check. One line per module family.
import EmbitModel.Basic.Bytes
import EmbitModel.Basic.Compact
import EmbitModel.Basic.Parse
import EmbitModel.Crypto.Sha256
import EmbitModel.Crypto.Sha512
import EmbitModel.Crypto.Hmac
import EmbitModel.Crypto.Ripemd160
import EmbitModel.Crypto.Secp256k1
import EmbitModel.Model.Tx
import EmbitModel.Spec.Wire
import EmbitModel.Props.C03
import EmbitModel.Model.Sighash
import EmbitModel.Spec.Consensus
import EmbitModel.Props.C01
import EmbitModel.Generated.Networks
import EmbitModel.Model.Psbt
import EmbitModel.Props.C04
