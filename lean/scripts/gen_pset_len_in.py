"""Prints the Lean text of one branch-by-branch lemma about `InputScope.read_value` / `OutputScope.read_value`
(C18 deepening); the output is pasted into Proofs/PsetEmit.lean (gen_pset_len_*) resp. Proofs/PsetParseWF.lean
(gen_pset_frame_*). For gen_pset_frame_* dedent the by_cases chain by two spaces (top-level tactic block) and close the
last branch with `rcases hu with … ; exact he a b` as in the file. Usage: python3 lean/scripts/gen_pset_len_in.py"""
import sys
PRE = '''      repeat' (split at h)
      all_goals (try (simp at h; done))
      all_goals (try (obtain rfl := Option.some.inj h))
'''
CLOSE = '''      all_goals (first
        | (simp_all (config := { decide := true }); done)
        | (simp only [InScope.size_eq]; simp_all (config := { decide := true }) [txFieldKey]; done)
        | (simp only [InScope.size_eq]; simp_all (config := { decide := true }) [txFieldKey] <;> omega))
'''
def br(n):
    return ("    by_cases h%s : k0 = %s\n    · simp only [h%s, if_true] at h\n" % (n,n,n)) + PRE + ("      all_goals (try subst h%s)\n" % n) + CLOSE + "    simp only [h%s, if_false] at h\n" % n
def brk(name, lit):
    return ("    by_cases h%s : k0 :: krest = %s\n    · simp only [h%s, if_true] at h\n      obtain ⟨rfl, rfl⟩ := List.cons.inj h%s\n" % (name, lit, name, name)) + PRE + CLOSE + "    simp only [h%s, if_false] at h\n" % name
out = '''/-- one step of `InputScope.read_value` (KEEP_ALL) adds exactly one pair to what `write_to` emits (version 2; in
    version 0 unless the key is a transaction field) -/
theorem InScope.pairs_length_step (ko : KeyOps) (sha : Bytes → Bytes) (s s' : InScope) (k v : Bytes) (hk : k ≠ [])
    (ver : Option Nat) (hv : ver = some 2 ∨ txFieldKey k = false)
    (h : InScope.addPair ko sha 0 s k v = some s') :
    (s'.pairs ver).length = (s.pairs ver).length + 1 := by
  unfold InScope.addPair at h
  split at h
  · exact absurd rfl hk
  · rename_i k0 krest
    simp only [] at h
'''
for n in ["0x00","0x01","0x02","0x03","0x04","0x05","0x06","0x07","0x08"]:
    out += br(n)
out += brk("e","[0x0e]") + brk("f","[0x0f]") + brk("g","[0x10]")
for n in ["0x14","0x15","0x16","0x17","0x18"]:
    out += br(n)
out += PRE.replace("      ","    ") + CLOSE.replace("      ","    ")
sys.stdout.write(out)
