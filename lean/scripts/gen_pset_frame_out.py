"""Prints the Lean text of one branch-by-branch lemma about `InputScope.read_value` / `OutputScope.read_value`
(C18 deepening); the output is pasted into Proofs/PsetEmit.lean (gen_pset_len_*) resp. Proofs/PsetParseWF.lean
(gen_pset_frame_*). For gen_pset_frame_* dedent the by_cases chain by two spaces (top-level tactic block) and close the
last branch with `rcases hu with … ; exact he a b` as in the file. Usage: python3 lean/scripts/gen_pset_frame_out.py"""
import sys
PRE = '''    repeat' (split at h)
    all_goals (try (simp at h; done))
    all_goals (try (obtain rfl := Option.some.inj h))
'''
CLOSE = '''    all_goals (first
      | (simp_all (config := { decide := true }); done)
      | (refine ⟨rfl, ?_, ?_, ?_⟩
         · (first | rfl | (simp_all (config := { decide := true }) [OutScope.typed]; done))
         all_goals (intro e he; simp only [List.mem_append, List.mem_singleton] at he
                    first | exact Or.inl he | (rcases he with he | he
                                               · exact Or.inl he
                                               · subst he; exact Or.inr rfl))))
'''
def br(n):
    return ("  by_cases h%s : k0 = %s\n  · simp only [h%s, if_true] at h\n" % (n,n,n)) + PRE + ("    all_goals (try subst h%s)\n" % n) + CLOSE + "  simp only [h%s, if_false] at h\n" % n
def brk(name, lit):
    return ("  by_cases h%s : k0 :: krest = %s\n  · simp only [h%s, if_true] at h\n    obtain ⟨rfl, rfl⟩ := List.cons.inj h%s\n" % (name, lit, name, name)) + PRE + CLOSE + "  simp only [h%s, if_false] at h\n" % name
out = '''theorem OutScope.addPair_typed_frame (ko : KeyOps) (s s' : OutScope) (k0 : UInt8) (krest v : Bytes)
    (hu : unkKeyOut (k0 :: krest) = false) (h : OutScope.addPair ko s (k0 :: krest) v = some s') :
    s'.unknown = s.unknown ∧ OutScope.addPair ko s.typed (k0 :: krest) v = some s'.typed
    ∧ (∀ e ∈ s'.bip32, e ∈ s.bip32 ∨ (0x02 :: e.1) = k0 :: krest)
    ∧ (∀ e ∈ s'.tapBip32, e ∈ s.tapBip32 ∨ (0x07 :: e.1) = k0 :: krest) := by
  unfold OutScope.addPair at h ⊢
  simp only [] at h ⊢
'''
for n in ["0x00","0x01","0x02"]:
    out += br(n)
out += brk("c","[0x03]") + brk("d","[0x04]")
for n in ["0x05","0x07"]:
    out += br(n)
out += '''  exfalso
  simp only [unkKeyOut, typedOut, txFieldKeyOut, Bool.and_eq_false_iff, Bool.not_eq_false', Bool.or_eq_true, beq_iff_eq] at hu
  simp_all
'''
sys.stdout.write(out)
