"""Prints the Lean text of one branch-by-branch lemma about `InputScope.read_value` / `OutputScope.read_value`
(C18 deepening); the output is pasted into Proofs/PsetEmit.lean (gen_pset_len_*) resp. Proofs/PsetParseWF.lean
(gen_pset_frame_*). For gen_pset_frame_* dedent the by_cases chain by two spaces (top-level tactic block) and close the
last branch with `rcases hu with … ; exact he a b` as in the file. Usage: python3 lean/scripts/gen_pset_frame_in.py"""
import sys
PRE = '''      repeat' (split at h)
      all_goals (try (simp at h; done))
      all_goals (try (obtain rfl := Option.some.inj h))
'''
CLOSE = '''      all_goals (first
        | (simp_all (config := { decide := true }); done)
        | (refine ⟨rfl, rfl, rfl, ?_, ?_, ?_, ?_, ?_, ?_⟩
           · (first | rfl | (simp_all (config := { decide := true }) [InScope.typed]; done))
           all_goals (intro e he; simp only [List.mem_append, List.mem_singleton] at he
                      first | exact Or.inl he | (rcases he with he | he
                                                 · exact Or.inl he
                                                 · subst he; exact Or.inr rfl))))
'''
def br(n):
    return ("    by_cases h%s : k0 = %s\n    · simp only [h%s, if_true] at h\n" % (n,n,n)) + PRE + ("      all_goals (try subst h%s)\n" % n) + CLOSE + "    simp only [h%s, if_false] at h\n" % n
def brk(name, lit):
    return ("    by_cases h%s : k0 :: krest = %s\n    · simp only [h%s, if_true] at h\n      obtain ⟨rfl, rfl⟩ := List.cons.inj h%s\n" % (name, lit, name, name)) + PRE + CLOSE + "    simp only [h%s, if_false] at h\n" % name
out = '''/-- one step of `InputScope.read_value` (KEEP_ALL) on a TYPED key other than a utxo key: the unknown map and the utxos
    are untouched, the step does not look at the unknown map, and the dict-valued fields grow by entries under that
    key only -/
theorem InScope.addPair_typed_frame (ko : KeyOps) (sha : Bytes → Bytes) (s s' : InScope) (k0 : UInt8) (krest v : Bytes)
    (h0 : k0 ≠ 0x00) (h1 : k0 ≠ 0x01) (hu : unkKeyIn (k0 :: krest) = false)
    (h : InScope.addPair ko sha 0 s (k0 :: krest) v = some s') :
    s'.unknown = s.unknown ∧ s'.nonWitnessUtxo = s.nonWitnessUtxo ∧ s'.witnessUtxo = s.witnessUtxo
    ∧ InScope.addPair ko sha 0 s.typed (k0 :: krest) v = some s'.typed
    ∧ (∀ e ∈ s'.partialSigs, e ∈ s.partialSigs ∨ (0x02 :: e.1) = k0 :: krest)
    ∧ (∀ e ∈ s'.bip32, e ∈ s.bip32 ∨ (0x06 :: e.1) = k0 :: krest)
    ∧ (∀ e ∈ s'.tapSigs, e ∈ s.tapSigs ∨ (0x14 :: e.1) = k0 :: krest)
    ∧ (∀ e ∈ s'.tapScripts, e ∈ s.tapScripts ∨ (0x15 :: e.1) = k0 :: krest)
    ∧ (∀ e ∈ s'.tapBip32, e ∈ s.tapBip32 ∨ (0x16 :: e.1) = k0 :: krest) := by
  unfold InScope.addPair at h ⊢
  simp only [] at h ⊢
  simp only [h0, h1, if_false] at h ⊢
'''
for n in ["0x02","0x03","0x04","0x05","0x06","0x07","0x08"]:
    out += br(n)
out += brk("e","[0x0e]") + brk("f","[0x0f]") + brk("g","[0x10]")
for n in ["0x14","0x15","0x16","0x17","0x18"]:
    out += br(n)
out += '''    exfalso
    simp only [unkKeyIn, typedIn, txFieldKey, Bool.and_eq_false_iff, Bool.not_eq_false', Bool.or_eq_true, beq_iff_eq] at hu
    simp_all
'''
sys.stdout.write(out)
