"""Prints the Lean text of one branch-by-branch lemma about `InputScope.read_value` / `OutputScope.read_value`
(C18 deepening); the output is pasted into Proofs/PsetEmit.lean (gen_pset_len_*) resp. Proofs/PsetParseWF.lean
(gen_pset_frame_*). For gen_pset_frame_* dedent the by_cases chain by two spaces (top-level tactic block) and close the
last branch with `rcases hu with … ; exact he a b` as in the file. Usage: python3 lean/scripts/gen_pset_len_out.py"""
import sys
PRE = '''      repeat' (split at h)
      all_goals (try (simp at h; done))
      all_goals (try (obtain rfl := Option.some.inj h))
'''
CLOSE = '''      all_goals (first
        | (simp_all (config := { decide := true }); done)
        | (simp only [OutScope.size_eq]; simp_all (config := { decide := true }) [txFieldKeyOut]; done)
        | (simp only [OutScope.size_eq]; simp_all (config := { decide := true }) [txFieldKeyOut] <;> omega))
'''
def br(n):
    return ("    by_cases h%s : k0 = %s\n    · simp only [h%s, if_true] at h\n" % (n,n,n)) + PRE + ("      all_goals (try subst h%s)\n" % n) + CLOSE + "    simp only [h%s, if_false] at h\n" % n
def brk(name, lit):
    return ("    by_cases h%s : k0 :: krest = %s\n    · simp only [h%s, if_true] at h\n      obtain ⟨rfl, rfl⟩ := List.cons.inj h%s\n" % (name, lit, name, name)) + PRE + CLOSE + "    simp only [h%s, if_false] at h\n" % name
out = '''theorem OutScope.size_eq (s : OutScope) (ver : Option Nat) : (s.pairs ver).length =
    s.redeemScript.isSome.toNat + s.witnessScript.isSome.toNat + s.bip32.length
    + (if ver = some 2 then s.value.isSome.toNat + s.spk.isSome.toNat else 0)
    + s.tapInternalKey.isSome.toNat + s.tapBip32.length + s.unknown.length := by
  have h : ∀ (k : Bytes) (o : Option Bytes), (optKV k o).length = o.isSome.toNat := by
    intro k o; cases o <;> rfl
  simp only [OutScope.pairs, List.length_append, List.length_map, h, Option.isSome_map]
  split <;> simp [h]

set_option maxHeartbeats 1000000 in
theorem OutScope.pairs_length_step (ko : KeyOps) (s s' : OutScope) (k v : Bytes) (hk : k ≠ [])
    (ver : Option Nat) (hv : ver = some 2 ∨ txFieldKeyOut k = false)
    (h : OutScope.addPair ko s k v = some s') :
    (s'.pairs ver).length = (s.pairs ver).length + 1 := by
  unfold OutScope.addPair at h
  split at h
  · exact absurd rfl hk
  · rename_i k0 krest
    simp only [] at h
'''
for n in ["0x00","0x01","0x02"]:
    out += br(n)
out += brk("c","[0x03]") + brk("d","[0x04]")
for n in ["0x05","0x07"]:
    out += br(n)
out += PRE.replace("      ","    ") + CLOSE.replace("      ","    ")
sys.stdout.write(out)
