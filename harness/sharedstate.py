"""Translator for C19, second part: hidden shared state at MODULE and CLASS level, memoisation outside the
`if self._m is None` shape, `global` statements, native code reached through an alias.

`harness/aliasfacts.py` (part one) looks at parameters: mutable defaults, writes through parameters, the one memo shape, the
buffers of literal `_secp.<sym>(...)` calls. This module looks at everything that is shared WITHOUT being a parameter:

  inventory (loaded modules, values): every module-level binding and every class-level attribute that is a list / dict / set /
      bytearray or an instance with attributes, every functools cache wrapper, every opaque handle (CDLL, lock);
  ast: for every function which of those objects it WRITES (`TABLE.append`, `NETWORKS['x'] = ..`, `cls.cache[k] = v`,
      `self.cache[k] = v` with a class-level `cache`, through a local alias), which names it rebinds under `global`, which it
      STORES in an instance attribute or hands back (`self.vin = vin or _EMPTY`, `if vin is None: vin = _EMPTY`, a default
      `vin=_EMPTY`, `self.items = self.shared`, `return _CACHE[x]`), memo fields in other shapes (inverted guard, try/except
      AttributeError, hasattr / getattr), cache decorators, module-level memo dictionaries, aliases of the native library;
  probes (executed, each in its own child forked from THIS process, which is started fresh for the purpose, has imported embit
      and has taken the import-time picture of the whole inventory before executing anything): identity sweep (two instances of
      every class that can be built: which attributes ARE inventory objects, do the two instances share them), call probes
      (the writing / rebinding / caching function called with fixtures and simple arguments: pictures before / after, identity
      and mutability of what two equal calls hand back), an exercise of the public API after which every inventory object must
      still equal its import-time picture, and a binding-wide "results of two calls are independent objects" probe.

A CONSTANT TABLE is an inventory object that is non-empty at import (it carries data: NETWORKS, word lists, GF tables): sharing
it by reference is by design and safe exactly when nothing ever changes it (the probe here, and the fork server after every
history). An object that is EMPTY at import carries nothing: it can only be filled or handed out, so any flow of it into an
instance attribute or a return value is unsafe unless the identity probe refutes the sharing.

Output: JSON on stdout (`python sharedstate.py`), consumed by aliasfacts.generate() -> `Gen.Alias.sharedSites`."""
import ast
import copy
import functools
import hashlib
import inspect
import json
import os
import sys
import types

import aliasfacts as A

MUTABLE = A.MUTABLE
SCALARS = (int, str, bytes, bool, float, complex, type(None), range, frozenset)


def immutable_value(x, depth=0):
    if isinstance(x, SCALARS) or isinstance(x, (type, types.FunctionType, types.BuiltinFunctionType, types.ModuleType)):
        return True
    if isinstance(x, tuple) and depth < 4:
        return all(immutable_value(y, depth + 1) for y in x)
    return False


# ------------------------------------------------------------------------------------------------ inventory

class SObj:
    """one shared object: a module-level binding or a class-level attribute"""

    def __init__(self, name, obj, mod, cls, attr, level):
        self.name = name      # "networks.NETWORKS" / "slip39.ShareSet.exp"
        self.obj = obj
        self.mod = mod
        self.cls = cls
        self.attr = attr
        self.level = level    # "module" | "class"
        self.table = self._nonempty(obj)
        self.pic = picture(obj)

    @staticmethod
    def _nonempty(o):
        if isinstance(o, MUTABLE):
            return len(o) > 0
        return True           # an instance with attributes: a constant object


def picture(o, depth=0):
    """value-level picture of an inventory object (compared within one process family only)"""
    if isinstance(o, MUTABLE):
        return "%s:%s" % (type(o).__name__, hashlib.sha1(repr(o).encode("utf-8", "replace")).hexdigest())
    return "obj:" + hashlib.sha1(repr(A.snapshot(o)).encode("utf-8", "replace")).hexdigest()


def short(o, n=80):
    s = repr(o)
    return s if len(s) <= n else s[:n - 3] + "..."


def is_cache_wrapper(v):
    return isinstance(v, functools._lru_cache_wrapper) or (hasattr(v, "cache_info") and hasattr(v, "__wrapped__"))


def defined_names(tree):
    """names assigned (not imported) at module level, also under top-level if / try / with / for"""
    out = set()

    def visit(body):
        for st in body:
            if isinstance(st, (ast.Assign, ast.AnnAssign, ast.AugAssign)):
                tg = st.targets if isinstance(st, ast.Assign) else [st.target]
                for t in tg:
                    for n in ast.walk(t):
                        if isinstance(n, ast.Name):
                            out.add(n.id)
            elif isinstance(st, (ast.If, ast.For, ast.While, ast.With, ast.Try)):
                for fld in ("body", "orelse", "finalbody"):
                    visit(getattr(st, fld, []) or [])
                for h in getattr(st, "handlers", []) or []:
                    visit(h.body)
    visit(tree.body)
    return out


class Inventory:
    def __init__(self, mods, trees=None):
        self.mods = mods
        self.objects = []
        self.by_id = {}
        self.parts = {}        # id(element of a shared container) -> (SObj, path text)
        self.caches = []       # (name, wrapper, mod, cls)
        self.handles = []      # (name, object)
        self.bindings = {}     # (module name, class name or "", attribute) -> id(value) for EVERY non-dunder binding
        self.classes = []      # (short module, class)
        trees = trees or {}
        cand = []
        for mod in mods:
            sm = A.short_mod(mod.__name__)
            defs = defined_names(trees[mod.__name__]) if mod.__name__ in trees else None
            for k, v in list(vars(mod).items()):
                if k.startswith("__"):
                    continue
                self.bindings[(mod.__name__, "", k)] = id(v)
                here = defs is None or k in defs
                if isinstance(v, type):
                    if v.__module__ == mod.__name__:
                        self.classes.append((sm, v))
                        self._class(sm, mod, v, cand)
                    continue
                self._value("%s.%s" % (sm, k), v, mod, None, k, "module", here, cand)
        # one SObj per object: prefer the module that assigns the name
        cand.sort(key=lambda c: (0 if c[6] else 1, c[0]))
        for (name, v, mod, cls, attr, level, here) in cand:
            if id(v) in self.by_id:
                continue
            so = SObj(name, v, mod, cls, attr, level)
            self.by_id[id(v)] = so
            self.objects.append(so)
        self.objects.sort(key=lambda s: s.name)
        for so in sorted(self.objects, key=lambda s: (len(s.name), s.name)):
            self._parts(so, so.obj, "", 0)

    def _value(self, name, v, mod, cls, attr, level, here, cand):
        if isinstance(v, (classmethod, staticmethod)):
            v = v.__func__
        if is_cache_wrapper(v):
            self.caches.append((name, v, mod, cls))
            return
        if isinstance(v, (types.ModuleType, types.FunctionType, types.BuiltinFunctionType, types.MethodType, type, property,
                          types.MemberDescriptorType, types.GetSetDescriptorType)) or immutable_value(v):
            return
        if isinstance(v, MUTABLE) or isinstance(v, tuple):     # a tuple holding mutable objects: its elements are shared
            cand.append((name, v, mod, cls, attr, level, here))
            return
        tm = getattr(type(v), "__module__", "") or ""
        if hasattr(v, "__dict__") and tm.startswith("embit"):
            cand.append((name, v, mod, cls, attr, level, here))
            return
        if callable(v) and not hasattr(v, "__dict__"):
            return
        if callable(v) and type(v).__module__ in ("typing", "builtins", "functools", "ctypes"):
            return
        # CDLL, locks, compiled patterns, struct.Struct ...: state lives outside Python objects we can picture
        if (id(v), name) not in [(id(h[1]), h[0]) for h in self.handles] and not any(h[1] is v for h in self.handles):
            self.handles.append((name, v))

    def _class(self, sm, mod, cls, cand):
        for a, b in list(vars(cls).items()):
            if a.startswith("__"):
                continue
            self.bindings[(mod.__name__, cls.__qualname__, a)] = id(b)
            self._value("%s.%s.%s" % (sm, cls.__qualname__, a), b, mod, cls, a, "class", True, cand)

    def _parts(self, so, o, path, depth):
        if depth >= 2:
            return
        items = []
        if isinstance(o, dict):
            items = [("[%r]" % (k,), v) for k, v in o.items()]
        elif isinstance(o, (list, tuple)):
            items = [("[%d]" % i, v) for i, v in enumerate(o)]
        elif not isinstance(o, MUTABLE) and hasattr(o, "__dict__"):
            items = [("." + k, v) for k, v in vars(o).items()]
        for p, v in items:
            if isinstance(v, MUTABLE) or (isinstance(v, tuple) and not immutable_value(v)):
                if id(v) not in self.by_id and id(v) not in self.parts:
                    self.parts[id(v)] = (so, path + p)
                self._parts(so, v, path + p, depth + 1)

    def lookup(self, v):
        """-> (SObj, path) when v IS an inventory object or a container inside one"""
        so = self.by_id.get(id(v))
        if so is not None:
            return so, ""
        return self.parts.get(id(v))

    def changed(self):
        """names of inventory objects that differ from their import-time picture, and bindings that were rebound / added"""
        out = []
        for so in self.objects:
            if picture(so.obj) != so.pic:
                out.append((so.name, "is %s" % short(so.obj)))
        for mod in self.mods:
            for k, v in list(vars(mod).items()):
                if k.startswith("__"):
                    continue
                key = (mod.__name__, "", k)
                if key not in self.bindings:
                    out.append(("%s.%s" % (A.short_mod(mod.__name__), k), "is a new module-level binding (%s)" % short(v, 50)))
                elif self.bindings[key] != id(v):
                    out.append(("%s.%s" % (A.short_mod(mod.__name__), k), "was rebound to %s" % short(v, 50)))
                if isinstance(v, type) and v.__module__ == mod.__name__:
                    for a, b in list(vars(v).items()):
                        if a.startswith("__"):
                            continue
                        key = (mod.__name__, v.__qualname__, a)
                        nm = "%s.%s.%s" % (A.short_mod(mod.__name__), v.__qualname__, a)
                        if key not in self.bindings:
                            out.append((nm, "is a new class-level binding (%s)" % short(b, 50)))
                        elif self.bindings[key] != id(b):
                            out.append((nm, "was rebound to %s" % short(b, 50)))
        return out


# ------------------------------------------------------------------------------------------------ AST scan

def local_names(fd):
    """names bound inside the function (flow-insensitive), minus the names declared `global`"""
    params, kwonly, va, kw, _, _ = A.params_of(fd)
    loc = set(params) | set(kwonly)
    if va:
        loc.add(va)
    if kw:
        loc.add(kw)
    glob = set()
    for n in ast.walk(fd):
        if isinstance(n, ast.Global):
            glob |= set(n.names)
        elif isinstance(n, ast.Name) and isinstance(n.ctx, (ast.Store, ast.Del)):
            loc.add(n.id)
        elif isinstance(n, (ast.Import, ast.ImportFrom)):
            for a in n.names:
                loc.add((a.asname or a.name).split(".")[0])
        elif isinstance(n, ast.ExceptHandler) and n.name:
            loc.add(n.name)
        elif isinstance(n, (ast.FunctionDef, ast.AsyncFunctionDef, ast.ClassDef)) and n is not fd:
            loc.add(n.name)
    return loc - glob, glob


def is_self(e):
    return isinstance(e, ast.Name) and e.id in ("self", "cls")


class _Unknown:
    def __repr__(self):
        return "UNKNOWN"


UNKNOWN = _Unknown()


class Ref:
    """an inventory object (or a container inside one) an expression may evaluate to, by reference"""

    def __init__(self, so, path, val):
        self.so, self.path, self.val = so, path, val

    def __hash__(self):
        return hash((self.so.name, self.path))

    def __eq__(self, o):
        return (self.so.name, self.path) == (o.so.name, o.path)

    def __iter__(self):           # unpacks as (SObj, path)
        return iter((self.so, self.path))


class Scan:
    """what one function does with the inventory objects"""

    def __init__(self, sm, mod, q, fd, acls, owner, inv, module_scope=None):
        self.sm, self.mod, self.q, self.fd, self.acls, self.owner, self.inv = sm, mod, q, fd, acls, owner, inv
        self.locals, self.globals_decl = local_names(fd)
        params, kwonly, va, kw, dflt, ann = A.params_of(fd)
        self.params = params + kwonly
        self.recv = params[0] if (acls is not None and params and params[0] in ("self", "cls")) else None
        self.aliases = {}     # local name -> set of (SObj, path)
        self.writes = []      # (SObj, path, description)
        self.rebinds = []     # (global name, description)
        self.flows = []       # ("attr", attribute name, SObj, path, description) | ("return", None, SObj, path, description)
        self.reads = set()    # SObj names read by subscript / `in` / .get
        self.refs = set()     # SObj names the function refers to at all
        self.global_loads = {n.id for n in ast.walk(fd) if isinstance(n, ast.Name) and isinstance(n.ctx, ast.Load)
                             and (n.id not in self.locals) and n.id in vars(mod)}
        for p, d in dflt.items():
            for r in self.resolve(d, at_module=True):
                self.aliases.setdefault(p, set()).add(r)
        self.alias_style = {}    # local name -> "or" when it is bound by `x = p or G` / under `if not p:`
        for n in ast.walk(fd):
            if isinstance(n, ast.If) and isinstance(n.test, ast.UnaryOp) and isinstance(n.test.op, ast.Not) \
                    and isinstance(n.test.operand, ast.Name):
                for st in n.body:
                    if isinstance(st, ast.Assign) and any(isinstance(t, ast.Name) and t.id == n.test.operand.id for t in st.targets):
                        self.alias_style[n.test.operand.id] = "or"
            elif isinstance(n, ast.Assign) and isinstance(n.value, ast.BoolOp) and isinstance(n.value.op, ast.Or):
                for t in n.targets:
                    if isinstance(t, ast.Name):
                        self.alias_style[t.id] = "or"
        for _ in range(3):
            for n in ast.walk(fd):
                if isinstance(n, ast.Assign):
                    rs = self.resolve(n.value)
                    if rs:
                        for t in n.targets:
                            if isinstance(t, ast.Name) and t.id not in self.globals_decl:
                                self.aliases.setdefault(t.id, set()).update(rs)
                elif isinstance(n, (ast.For, ast.comprehension)):
                    rs = self.elements(n.iter)
                    if rs:
                        for t in ast.walk(n.target):
                            if isinstance(t, ast.Name):
                                self.aliases.setdefault(t.id, set()).update(rs)
        self._walk()

    # -- which inventory objects an expression may evaluate to BY REFERENCE: refs (SObj, path, value or UNKNOWN)
    def _ref(self, v):
        r = self.inv.lookup(v)
        if r:
            self.refs.add(r[0].name)
        return {Ref(r[0], r[1], v)} if r else set()

    def class_attr(self, a, cls=None):
        k0 = cls if cls is not None else self.owner
        if not isinstance(k0, type):
            return set()
        for k in k0.__mro__:
            if a in vars(k):
                return self._ref(vars(k)[a])
        return set()

    def resolve(self, e, at_module=False):
        out = set()
        if e is None:
            return out
        if isinstance(e, ast.Name):
            if not at_module and e.id in self.aliases:
                out |= self.aliases[e.id]
            if at_module or e.id not in self.locals:
                if e.id in vars(self.mod):
                    out |= self._ref(vars(self.mod)[e.id])
            return out
        if isinstance(e, ast.Attribute):
            v = e.value
            if is_self(v) or (isinstance(v, ast.Call) and isinstance(v.func, ast.Name) and v.func.id == "type") or (
                    isinstance(v, ast.Attribute) and v.attr == "__class__"):
                # self.a with a class-level `a` (an instance attribute of the same name may shadow it: the probe decides)
                return self.class_attr(e.attr)
            if isinstance(v, ast.Name) and v.id not in self.locals and isinstance(vars(self.mod).get(v.id), type):
                return self.class_attr(e.attr, vars(self.mod)[v.id])
            if isinstance(v, ast.Name) and v.id not in self.locals and isinstance(vars(self.mod).get(v.id), types.ModuleType):
                m2 = vars(self.mod)[v.id]
                if e.attr in vars(m2):
                    out |= self._ref(vars(m2)[e.attr])
                return out
            # attribute of a shared instance
            for r in self.resolve(v, at_module):
                out |= self._member(r, "." + e.attr, attr=e.attr)
            return out
        if isinstance(e, ast.Subscript):
            for r in self.resolve(e.value, at_module):
                self.reads.add(r.so.name)
                if isinstance(e.slice, ast.Constant):
                    out |= self._member(r, "[%r]" % (e.slice.value,), key=e.slice.value)
                elif isinstance(e.slice, ast.Slice):
                    pass       # a slice of a list / bytes is a new object
                else:
                    out |= self._member(r, "[?]")
            return out
        if isinstance(e, ast.BoolOp):
            for v in e.values:
                out |= self.resolve(v, at_module)
            return out
        if isinstance(e, ast.IfExp):
            return self.resolve(e.body, at_module) | self.resolve(e.orelse, at_module)
        if isinstance(e, ast.NamedExpr):
            return self.resolve(e.value, at_module)
        if isinstance(e, ast.Call):
            f = e.func
            # d.get(k) / d.setdefault(k, v) / d.pop(k) hand the stored object back
            if isinstance(f, ast.Attribute) and f.attr in ("get", "setdefault", "pop"):
                for r in self.resolve(f.value, at_module):
                    self.reads.add(r.so.name)
                    out |= self._member(r, "[?]")
            return out
        return out

    def elements(self, e):
        """refs the loop variable of `for x in e` ranges over"""
        if isinstance(e, ast.Call) and isinstance(e.func, ast.Attribute) and e.func.attr in ("values", "items") and not e.args:
            e = e.func.value
        elif isinstance(e, ast.Call) and isinstance(e.func, ast.Name) and e.func.id in ("enumerate", "reversed", "sorted", "list", "iter") and e.args:
            e = e.args[0]
        out = set()
        for r in self.resolve(e):
            out |= self._member(r, "[i]")
        return out

    def _member(self, r, step, key=UNKNOWN, attr=None):
        """the object reached from ref r by one subscript / attribute step, when it can be a mutable object"""
        v = r.val
        if v is UNKNOWN:
            return {Ref(r.so, r.path + step, UNKNOWN)}
        if attr is not None:
            x = getattr(v, attr, UNKNOWN) if not isinstance(v, MUTABLE) else UNKNOWN
            if x is UNKNOWN or immutable_value(x) or callable(x) and not isinstance(x, MUTABLE):
                return set()
            return {Ref(r.so, r.path + step, x)}
        if key is not UNKNOWN:
            try:
                x = v[key]
            except Exception:
                x = UNKNOWN
            if x is not UNKNOWN:
                return set() if immutable_value(x) else {Ref(r.so, r.path + step, x)}
        vals = []
        if isinstance(v, dict):
            vals = list(v.values())
        elif isinstance(v, (list, tuple, set)):
            vals = list(v)
        elif isinstance(v, bytearray):
            return set()
        if vals and all(immutable_value(x) for x in vals):
            return set()
        # a container of mutable objects, or an EMPTY container (what it hands back is what somebody stored in it)
        return {Ref(r.so, r.path + step, UNKNOWN)}

    def _root(self, t):
        """(inventory refs the written object may be, description) for an assignment / mutator target"""
        chain = []
        e = t
        while isinstance(e, (ast.Attribute, ast.Subscript)):
            chain.append(e)
            e = e.value
        return e, chain

    def _walk(self):
        fd = self.fd
        for n in ast.walk(fd):
            if isinstance(n, (ast.Assign, ast.AnnAssign, ast.AugAssign)):
                tg = n.targets if isinstance(n, ast.Assign) else [n.target]
                val = getattr(n, "value", None)
                for t0 in tg:
                    for t in (t0.elts if isinstance(t0, (ast.Tuple, ast.List)) else [t0]):
                        self._target(t, n, val)
            elif isinstance(n, ast.Delete):
                for t in n.targets:
                    self._target(t, n, None)
            elif isinstance(n, ast.Call) and isinstance(n.func, ast.Attribute) and n.func.attr in A.MUTATOR_METHODS:
                if n.func.attr == "add" and len(n.args) != 1:
                    continue
                for (so, path) in self.resolve(n.func.value):
                    self.writes.append((so, path, ast.unparse(n.func) + "(...)"))
                # d.setdefault(k, v): the stored object is handed back
            elif isinstance(n, ast.Return) and n.value is not None:
                for (so, path) in self.resolve(n.value):
                    self.flows.append(("return", None, so, path, "return " + ast.unparse(n.value)[:60], "always"))
            elif isinstance(n, ast.Compare) and any(isinstance(op, (ast.In, ast.NotIn)) for op in n.ops):
                for c in n.comparators:
                    for (so, path) in self.resolve(c):
                        self.reads.add(so.name)

    def _target(self, t, stmt, val):
        if isinstance(t, ast.Name):
            if t.id in self.globals_decl:
                self.rebinds.append((t.id, "%s %s ..." % (t.id, "op=" if isinstance(stmt, ast.AugAssign) else "=")
                                     if not isinstance(stmt, ast.Delete) else "del " + t.id))
            return
        root, chain = self._root(t)
        if not chain:
            return
        what = ("del " if isinstance(stmt, ast.Delete) else "") + ast.unparse(t) + (
            "" if isinstance(stmt, ast.Delete) else (" op= ..." if isinstance(stmt, ast.AugAssign) else " = ..."))
        # (1) a write INTO an inventory object: the written container is t.value
        for (so, path) in self.resolve(t.value):
            self.writes.append((so, path, what))
        # `self.a += [...]` / `cls.a += ...` with a class-level mutable `a`: list.__iadd__ works in place
        if isinstance(stmt, ast.AugAssign) and isinstance(t, ast.Attribute) and is_self(t.value):
            for r in self.class_attr(t.attr):
                self.writes.append((r.so, r.path, what + " (in-place operator on the class-level object)"))
        # (2) a flow INTO an instance attribute: self.x = <inventory object>
        if val is not None and isinstance(stmt, (ast.Assign, ast.AnnAssign)) and self.recv == "self":
            if isinstance(root, ast.Name) and root.id == "self":
                attr = chain[-1].attr if isinstance(chain[-1], ast.Attribute) else None
                if attr is not None:
                    inside = len(chain) > 1
                    refs = set(self.resolve(val))
                    if isinstance(val, (ast.List, ast.Tuple, ast.Set)):
                        for el in val.elts:
                            refs |= self.resolve(el)
                    elif isinstance(val, ast.Dict):
                        for el in val.values:
                            refs |= self.resolve(el)
                    if isinstance(val, ast.BoolOp) and isinstance(val.op, ast.Or):
                        style = "or"
                    elif isinstance(val, ast.Name) and val.id in self.locals:
                        style = self.alias_style.get(val.id, "default")
                    else:
                        style = "always"
                    for (so, path) in refs:
                        self.flows.append(("attr", attr, so, path, "%s = %s%s" % (
                            ast.unparse(t), ast.unparse(val)[:50], " (inside the container)" if inside else ""), style))


# ------------------------------------------------------------------------------------------------ memo shapes, decorators

def self_field(e):
    if isinstance(e, ast.Attribute) and isinstance(e.value, ast.Name) and e.value.id == "self":
        return e.attr
    if isinstance(e, ast.Call) and isinstance(e.func, ast.Name) and e.func.id in ("hasattr", "getattr") and len(e.args) >= 2 \
            and isinstance(e.args[0], ast.Name) and e.args[0].id == "self" and isinstance(e.args[1], ast.Constant) \
            and isinstance(e.args[1].value, str):
        return e.args[1].value
    return None


def fields_in(e):
    out = set()
    for n in ast.walk(e):
        f = self_field(n)
        if f:
            out.add(f)
    return out


def memo_shapes(fd, known):
    """memo fields of a method in OTHER shapes than `if self.X is None / not self.X: self.X = ...`:
    a guard (if / conditional expression / try) that mentions self.X decides between handing self.X back and computing it,
    and the method assigns self.X. -> [(field, shape text, guard node)]"""
    assigned = {}
    for n in ast.walk(fd):
        if isinstance(n, (ast.Assign, ast.AnnAssign)):
            tg = n.targets if isinstance(n, ast.Assign) else [n.target]
            for t0 in tg:
                for t in (t0.elts if isinstance(t0, (ast.Tuple, ast.List)) else [t0]):
                    f = self_field(t)
                    if f and isinstance(t, ast.Attribute):
                        assigned.setdefault(f, []).append(n)
        elif isinstance(n, ast.Call) and isinstance(n.func, ast.Name) and n.func.id == "setattr" and len(n.args) >= 2 \
                and isinstance(n.args[0], ast.Name) and n.args[0].id == "self" and isinstance(n.args[1], ast.Constant):
            assigned.setdefault(n.args[1].value, []).append(n)
    out = []
    for fld in sorted(assigned):
        if not A.returns_field(fd, fld) and not any(
                isinstance(r, ast.Return) and r.value is not None and fld in fields_in(r.value) for r in ast.walk(fd)):
            continue
        shape = None
        for n in ast.walk(fd):
            if isinstance(n, ast.If) and fld in fields_in(n.test):
                if A.memo_field(n.test) == fld and fld in known:
                    shape = None
                    break
                if A.memo_field(n.test) == fld:
                    # the known guard, but the class-level pattern did not take it (e.g. no `return self.X` shape)
                    shape = "if %s:" % ast.unparse(n.test)
                else:
                    shape = "inverted / other guard `if %s:`" % ast.unparse(n.test)[:70]
                node = n
            elif isinstance(n, ast.IfExp) and fld in fields_in(n.test):
                shape = "conditional expression on `%s`" % ast.unparse(n.test)[:60]
                node = n
            elif isinstance(n, ast.Try):
                rets = [r for st in n.body for r in ast.walk(st) if isinstance(r, ast.Return) and r.value is not None
                        and fld in fields_in(r.value)]
                if rets and n.handlers:
                    shape = "try: return self.%s / except %s:" % (
                        fld, ", ".join(ast.unparse(h.type) if h.type is not None else "<any>" for h in n.handlers))
                    node = n
            if shape:
                break
        if shape and fld not in known:
            out.append((fld, shape, node))
    return out


CACHE_DECORATORS = {"lru_cache", "cache", "cached_property", "memoize", "memoized", "cached"}


def cache_decorators(fd):
    out = []
    for d in fd.decorator_list:
        e = d.func if isinstance(d, ast.Call) else d
        nm = e.attr if isinstance(e, ast.Attribute) else (e.id if isinstance(e, ast.Name) else None)
        if nm in CACHE_DECORATORS:
            out.append(ast.unparse(d))
    return out


def returns_constructed(fd):
    """does some `return` hand back a call result / display (an object built by the function)?"""
    for r in ast.walk(fd):
        if isinstance(r, ast.Return) and r.value is not None:
            v = r.value
            if A.is_display(v) or isinstance(v, (ast.Call, ast.Name, ast.Attribute, ast.Subscript)):
                return True
    return False


# ------------------------------------------------------------------------------------------------ native aliases

def native_libs(mod):
    """module-level names bound to a ctypes library object (value level)"""
    try:
        import ctypes
    except Exception:
        return {}
    out = {}
    for k, v in vars(mod).items():
        if isinstance(v, ctypes.CDLL):
            out[k] = v
    return out


def native_aliases(fd, libs):
    """-> (lib aliases {local name: how}, function aliases {local name: symbol or None}, unresolved [text])
    `lib = _secp`, `fn = _secp.sym`, `fn = getattr(_secp, 'sym')`, `getattr(_secp, name)`, `_secp` handed to a call"""
    lib_names = set(libs)
    lib_alias, fn_alias, unresolved = {}, {}, []
    for _ in range(2):
        for n in ast.walk(fd):
            if isinstance(n, ast.Assign) and len(n.targets) == 1 and isinstance(n.targets[0], ast.Name):
                t, v = n.targets[0].id, n.value
                if isinstance(v, ast.Name) and (v.id in lib_names or v.id in lib_alias):
                    lib_alias[t] = "%s = %s" % (t, v.id)
                elif isinstance(v, ast.Attribute) and isinstance(v.value, ast.Name) and (v.value.id in lib_names or v.value.id in lib_alias):
                    fn_alias[t] = v.attr
                elif isinstance(v, ast.Call) and isinstance(v.func, ast.Name) and v.func.id == "getattr" and len(v.args) >= 2 \
                        and isinstance(v.args[0], ast.Name) and (v.args[0].id in lib_names or v.args[0].id in lib_alias):
                    a1 = v.args[1]
                    fn_alias[t] = a1.value if isinstance(a1, ast.Constant) and isinstance(a1.value, str) else None
    names = lib_names | set(lib_alias)
    for n in ast.walk(fd):
        if isinstance(n, ast.Call):
            f = n.func
            if isinstance(f, ast.Name) and f.id == "getattr" and len(n.args) >= 2 and isinstance(n.args[0], ast.Name) \
                    and n.args[0].id in names:
                if not (isinstance(n.args[1], ast.Constant) and isinstance(n.args[1].value, str)):
                    unresolved.append("getattr(%s, %s): the native symbol is computed" % (n.args[0].id, ast.unparse(n.args[1])[:40]))
            else:
                for a in list(n.args) + [k.value for k in n.keywords]:
                    if isinstance(a, ast.Name) and a.id in names and not (isinstance(f, ast.Name) and f.id in ("getattr", "hasattr", "isinstance", "id", "type")):
                        unresolved.append("%s is handed to %s(...)" % (a.id, ast.unparse(f)[:40]))
        elif isinstance(n, ast.Return) and isinstance(n.value, ast.Name) and n.value.id in names:
            unresolved.append("%s is returned" % n.value.id)
    for k, v in fn_alias.items():
        if v is None:
            unresolved.append("%s = getattr(<lib>, <computed name>)" % k)
    return lib_alias, fn_alias, unresolved


# ------------------------------------------------------------------------------------------------ children

def in_child(fn, timeout=60):
    """fn() in a forked child of this (pristine) process -> its JSON-able result"""
    r, w = os.pipe()
    pid = os.fork()
    if pid == 0:
        try:
            os.close(r)
            try:
                import signal
                signal.alarm(timeout)
                res = {"ok": fn()}
            except BaseException as e:  # noqa
                res = {"error": "%s: %s" % (type(e).__name__, e)}
            with os.fdopen(w, "wb") as fh:
                fh.write(json.dumps(res, default=str).encode())
        finally:
            os._exit(0)
    os.close(w)
    chunks = []
    with os.fdopen(r, "rb") as fh:
        while True:
            b = fh.read(1 << 16)
            if not b:
                break
            chunks.append(b)
    os.waitpid(pid, 0)
    data = b"".join(chunks)
    if not data:
        return {"error": "child died"}
    return json.loads(data)


# ------------------------------------------------------------------------------------------------ calling things

def _addr(k):
    from embit.script import Script
    import hashlib as H
    return Script(b"\x00\x14" + H.sha256(b"c19 addr %d" % k).digest()[:20]).address()


# named call fixtures: qualified name -> list of argument tuples (built lazily; every element JSON-able through `enc`)
def named_calls():
    return {
        "embit.hashes.tagged_hash_init": [("TapSighash", b"\x00"), ("TapLeaf", b"")],
        "embit.hashes.tagged_hash": [("TapSighash", b"\x00\x01"), ("TapLeaf", b"\x02")],
        "embit.script.address_to_scriptpubkey": [(_addr(1),), (_addr(2),)],
        "embit.script.Script.from_address": [(_addr(1),), (_addr(2),)],
        "embit.networks.get_network": [("main",), ("test",)],
    }


SIMPLE = [0, 1, b"\x01" * 32, "m/0/1", "main", (0, 1), b"\x02" * 33, 16, "abandon"]


def qualified(mod, q):
    return "%s.%s" % (mod.__name__, q)


def resolve_callable(path):
    """"embit.script.address_to_scriptpubkey" / "embit.script.Script.from_address" -> (callable to call, owner class or None,
    kind: function | classmethod | staticmethod | method)"""
    import importlib
    parts = path.split(".")
    for i in range(len(parts) - 1, 0, -1):
        try:
            mod = importlib.import_module(".".join(parts[:i]))
        except Exception:
            continue
        o = mod
        owner = None
        raw = None
        try:
            for p in parts[i:]:
                if isinstance(o, type):
                    owner = o
                    raw = None
                    for k in o.__mro__:
                        if p in vars(k):
                            raw = vars(k)[p]
                            break
                o = getattr(o, p)
        except AttributeError:
            return None
        if owner is None:
            return o, None, "function"
        if isinstance(raw, classmethod):
            return o, owner, "classmethod"
        if isinstance(raw, staticmethod):
            return o, owner, "staticmethod"
        if isinstance(raw, property):
            return raw.fget, owner, "property"
        return o, owner, "method"
    return None


def candidates(path, limit=40):
    """deterministic list of argument tuples to try for a callable: the named fixtures, then simple arguments"""
    import itertools
    rc = resolve_callable(path)
    if rc is None:
        return []
    fn, owner, kind = rc
    out = list(named_calls().get(path, []))
    target = getattr(fn, "__wrapped__", fn)
    try:
        sig = inspect.signature(target)
    except (TypeError, ValueError):
        return out
    ps = [p for p in sig.parameters.values() if p.kind in (p.POSITIONAL_ONLY, p.POSITIONAL_OR_KEYWORD)]
    if kind in ("method", "property") and ps and ps[0].name == "self":
        ps = ps[1:]
    elif ps and ps[0].name in ("cls",) and kind == "classmethod":
        ps = ps[1:]
    req = [p for p in ps if p.default is inspect.Parameter.empty]
    if not req:
        out.append(())
    if len(req) <= 3:
        for combo in itertools.product(*[SIMPLE] * len(req)):
            if len(out) >= limit:
                break
            if combo != () or req:
                out.append(tuple(combo))
    return out[:limit]


def invoke(path, args, recv=None):
    fn, owner, kind = resolve_callable(path)
    args = copy.deepcopy(list(args))
    if kind in ("method", "property"):
        if recv is None:
            recv = A.receiver_fixture(owner)
            if recv is None:
                raise RuntimeError("no receiver fixture for %s" % owner.__name__)
        return getattr(owner, path.split(".")[-1]).__get__(recv, owner)(*args) if kind == "method" else fn(recv)
    return fn(*args)


def build_instance(path, mode=False):
    """an instance of the class `embit.mod.Class` built with DEFAULT arguments where the constructor allows it (no required
    parameter, or the translator's table that leaves every container parameter out); otherwise a receiver fixture with
    explicit arguments. mode=True: -> (instance, "defaults" | "fixture")"""
    rc = resolve_callable(path)
    if rc is None or not isinstance(rc[0], type):
        raise RuntimeError("no class %s" % path)
    x, how = None, "defaults"
    mk = A.Probes().ctor_fixture(rc[0])
    if mk is not None:
        try:
            x = mk()
        except Exception:
            x = None
    if x is None:
        x, how = A.receiver_fixture(rc[0]), "fixture"
    if x is None:
        raise RuntimeError("cannot build %s with default arguments" % path)
    return (x, how) if mode else x


def touch(x):
    """the caller edits an object it holds (in place) -> description"""
    if isinstance(x, list):
        x.append(1)
        return "x.append(1)"
    if isinstance(x, bytearray):
        x.append(1)
        return "x.append(1)"
    if isinstance(x, dict):
        x[b"\xfc\x01c19"] = b"v"
        return "x[k] = v"
    if isinstance(x, set):
        x.add(b"\xfc\x01c19")
        return "x.add(k)"
    if hasattr(x, "update") and hasattr(x, "digest"):
        x.update(b"c19")
        return "x.update(b'c19')"
    if hasattr(x, "push") and hasattr(x, "data"):
        x.push(b"\x51")
        return "x.push(b'\\x51')"
    d = getattr(x, "__dict__", None)
    if d is not None:
        for k in sorted(d):
            v = d[k]
            if isinstance(v, (list, bytearray, dict, set)):
                return "x.%s: %s" % (k, touch(v))
        for k in sorted(d):
            v = d[k]
            if isinstance(v, bytes):
                setattr(x, k, v + b"\x51")
                return "x.%s += b'\\x51'" % k
        for k in sorted(d):
            v = d[k]
            if isinstance(v, int) and not isinstance(v, bool):
                setattr(x, k, v + 1)
                return "x.%s += 1" % k
    raise RuntimeError("do not know how to edit a %s" % type(x).__name__)


def stable(x, depth=0, seen=None, private=True):
    """a picture of any object that is equal in two processes when the objects are equal (no addresses);
    private=False: attributes whose name starts with `_` (memo slots, bookkeeping) are left out"""
    seen = seen if seen is not None else set()
    if isinstance(x, (bytes, bytearray)):
        return {"t": type(x).__name__, "hex": bytes(bytearray(x)).hex()}
    if isinstance(x, (int, str, bool, float)) or x is None:
        return x
    if id(x) in seen or depth > 5:
        return {"t": type(x).__name__, "cut": True}
    seen = seen | {id(x)}
    if isinstance(x, (list, tuple)):
        return {"t": type(x).__name__, "v": [stable(y, depth + 1, seen, private) for y in x]}
    if isinstance(x, dict):
        return {"t": "dict", "v": sorted(([json.dumps(stable(k, depth + 1, seen, private), sort_keys=True, default=str),
                                           stable(v, depth + 1, seen, private)] for k, v in x.items()), key=lambda kv: kv[0])}
    if isinstance(x, (set, frozenset)):
        return {"t": "set", "v": sorted(json.dumps(stable(y, depth + 1, seen, private), sort_keys=True, default=str) for y in x)}
    if hasattr(x, "digest") and hasattr(x, "update") and hasattr(x, "copy"):
        try:
            return {"t": "hash", "d": x.copy().hexdigest()}
        except Exception:
            pass
    d = getattr(x, "__dict__", None)
    if d is not None and not isinstance(x, (type, types.ModuleType, types.FunctionType)):
        out = {"t": type(x).__name__, "d": {k: stable(v, depth + 1, seen, private) for k, v in sorted(d.items())
                                            if not k.startswith("__") and (private or not k.startswith("_"))}}
        # class-level containers seen through the instance
        c = {}
        for k in type(x).__mro__:
            for a, b in vars(k).items():
                if isinstance(b, MUTABLE) and not a.startswith("__") and a not in d and a not in c \
                        and (private or not a.startswith("_")):
                    c[a] = stable(b, depth + 1, seen, private)
        if c:
            out["c"] = c
        return out
    if isinstance(x, (type, types.FunctionType, types.BuiltinFunctionType, types.ModuleType)):
        return {"t": "named", "n": getattr(x, "__qualname__", getattr(x, "__name__", "?"))}
    return {"t": type(x).__name__}


# ------------------------------------------------------------------------------------------------ probes (run in children)

def probe_calls(inv, path, targets, recv_needed=False):
    """call `path` with every candidate; after each successful call the inventory must equal its import-time picture.
    -> (result, text, variant index of the first successful call or None)"""
    ok = 0
    first = None
    for idx, args in enumerate(candidates(path)):
        try:
            invoke(path, args)
        except BaseException:
            ch = inv.changed()
            if ch:
                return "confirmedUnsafe", "%s(%s) raised, and %s %s" % (path, ", ".join(short(a, 30) for a in args), ch[0][0], ch[0][1]), idx
            continue
        ok += 1
        if first is None:
            first = idx
        ch = inv.changed()
        if ch:
            mine = [c for c in ch if c[0] in targets] or ch
            return "confirmedUnsafe", "after %s(%s): %s %s (not its import-time picture)" % (
                path, ", ".join(short(a, 30) for a in args), mine[0][0], mine[0][1]), idx
        if ok >= 8:
            break
    if ok == 0:
        return "notProbed", "no call of %s with a fixture or simple arguments succeeded" % path, None
    return "confirmedSafe", "%d call(s) of %s left every module- and class-level object equal to its import-time picture" % (ok, path), first


def probe_handed_out(inv, path):
    """two calls with equal arguments: is the SAME mutable object handed to both callers? does an edit by the first caller
    show in what the second caller gets?  -> (result, text, returns a shared mutable object?, variant)"""
    for idx, args in enumerate(candidates(path)):
        try:
            r1 = invoke(path, args)
        except BaseException:
            continue
        try:
            p1 = json.dumps(stable(r1), sort_keys=True, default=str)
            r2 = invoke(path, args)
        except BaseException as e:
            return "notProbed", "second call of %s raised %s" % (path, type(e).__name__), True, idx
        call = "%s(%s)" % (path, ", ".join(short(a, 30) for a in args))
        same = r1 is r2
        hit = inv.lookup(r1)
        if immutable_value(r1):
            return "confirmedSafe", "r1 = %s; r2 = %s: the result is an immutable %s" % (call, call, type(r1).__name__), False, idx
        if same or hit:
            try:
                how = touch(r1)
                r3 = invoke(path, args)
                p3 = json.dumps(stable(r3), sort_keys=True, default=str)
                differs = p3 != p1
            except BaseException as e:
                how, differs = "(no edit possible: %s)" % e, True
            where = " (it is %s%s)" % (hit[0].name, hit[1]) if hit else ""
            return "confirmedUnsafe", "x = %s; y = %s; x is y%s, a %s; after the first caller's %s the next call returns %s" % (
                call, call, where, type(r1).__name__, how, "the edited object" if differs else "the same object"), True, idx
        return "confirmedSafe", "r1 = %s; r2 = %s: two distinct %s objects" % (call, call, type(r1).__name__), False, idx
    return "notProbed", "no call of %s with a fixture or simple arguments succeeded" % path, True, None


def sweep(inv):
    """two instances of every class that can be built with default arguments / a fixture: which attributes ARE inventory
    objects (or containers inside one), and which class-level objects are seen through the instance"""
    found = []
    built = 0
    modes = {}
    for sm, cls in inv.classes:
        try:
            a, how = build_instance("%s.%s" % (cls.__module__, cls.__qualname__), mode=True)
            b = build_instance("%s.%s" % (cls.__module__, cls.__qualname__))
        except BaseException:
            continue
        if not hasattr(a, "__dict__"):
            continue
        built += 1
        cname = "%s.%s" % (sm, cls.__qualname__)
        modes[cname] = how
        for k, v in vars(a).items():
            hits = []
            r = inv.lookup(v)
            if r:
                hits.append((r, ""))
            elif isinstance(v, (list, tuple)):
                for i, x in enumerate(v[:50]):
                    r = inv.lookup(x)
                    if r:
                        hits.append((r, "[%d]" % i))
                        break
            elif isinstance(v, dict):
                for kk, x in list(v.items())[:50]:
                    r = inv.lookup(x)
                    if r:
                        hits.append((r, "[%r]" % (kk,)))
                        break
            for (so, path), at in hits:
                shared = k in vars(b) and (vars(b)[k] is v or at != "")
                found.append({"cls": cname, "attr": k, "obj": so.name, "path": path, "at": at, "shared": bool(shared),
                              "via": "instance attribute", "path_cls": "%s.%s" % (cls.__module__, cls.__qualname__)})
        for kls in type(a).__mro__:
            for k, v in vars(kls).items():
                so = inv.by_id.get(id(v))
                if so is not None and k not in vars(a):
                    found.append({"cls": cname, "attr": k, "obj": so.name, "path": "", "at": "", "shared": True,
                                  "via": "class-level object seen through the instance (no instance attribute shadows it)",
                                  "path_cls": "%s.%s" % (cls.__module__, cls.__qualname__)})
    return {"found": found, "built": built, "modes": modes}


def exercise(inv):
    """a tour of the public API; after every step the inventory must equal its import-time picture"""
    steps = []

    def step(label):
        def deco(fn):
            steps.append((label, fn))
            return fn
        return deco

    @step("bip39: mnemonic_from_bytes / mnemonic_to_seed / mnemonic_is_valid / find_candidates")
    def _():
        from embit import bip39
        m = bip39.mnemonic_from_bytes(b"\x01" * 16)
        bip39.mnemonic_to_seed(m)
        bip39.mnemonic_is_valid(m)
        bip39.mnemonic_to_bytes(m)
        bip39.find_candidates("ab")

    @step("slip39: ShareSet.generate_shares / recover, Share.parse, ShareSet._load() again")
    def _():
        from embit import slip39
        sh = slip39.ShareSet.generate_shares(slip39.bip39.mnemonic_from_bytes(b"\x02" * 16) if hasattr(slip39, "bip39") else
                                             __import__("embit").bip39.mnemonic_from_bytes(b"\x02" * 16), 2, 3)
        parsed = [slip39.Share.parse(s) for s in sh[:2]]
        slip39.ShareSet(parsed).recover()
        slip39.ShareSet._load()

    @step("bip32 / ec: derive, serialise, sign, addresses on every network")
    def _():
        from embit import bip32, script
        from embit.networks import NETWORKS
        k = bip32.HDKey.from_seed(b"\x05" * 64)
        c = k.derive("m/84h/0h/0h/0/1")
        for net in NETWORKS.values():
            c.to_base58(version=net["zprv"])
            script.p2wpkh(c).address(net)
            script.p2pkh(c).address(net)
            c.key.wif(net)
        sig = c.sign(b"\x07" * 32)
        c.get_public_key().verify(sig, b"\x07" * 32)
        c.schnorr_sign(b"\x07" * 32)
        bip32.HDKey.from_base58(k.to_base58())
        script.address_to_scriptpubkey(script.p2wpkh(c).address())

    @step("descriptor / miniscript: parse, derive, script_pubkey, taproot tree")
    def _():
        import c19ops
        from embit.descriptor import Descriptor
        for w in range(len(c19ops.DESCRIPTORS)):
            d = Descriptor.from_string(c19ops.descriptor_text(w, 1))
            d.derive(3).script_pubkey()
            str(d)
            d.to_public()

    @step("psbt: build, sign, serialise, parse, view, taproot digests")
    def _():
        import c19ops
        from io import BytesIO
        from embit.psbt import PSBT
        from embit.psbtview import PSBTView
        p = c19ops.build_psbt(1, ["wpkh", "tr", "pkh"])
        p.sign_with(c19ops.root_key(1))
        q = PSBT.parse(p.serialize())
        q.to_string()
        v = PSBTView.view(BytesIO(p.serialize()))
        v.sighash(0)
        p.tx.sighash_taproot(1, [i.utxo.script_pubkey for i in p.inputs], [i.utxo.value for i in p.inputs])

    @step("pure-python ripemd160 and secp256k1 fallbacks")
    def _():
        from embit.util import py_ripemd160, py_secp256k1
        py_ripemd160.ripemd160(b"abc" * 50)
        pub = py_secp256k1.ec_pubkey_create(b"\x01" * 32)
        py_secp256k1.ec_pubkey_serialize(pub)
        sig = py_secp256k1.ecdsa_sign(b"\x02" * 32, b"\x01" * 32)
        py_secp256k1.ecdsa_verify(sig, b"\x02" * 32, pub)

    @step("liquid: addresses, blinded descriptor, PSET scopes")
    def _():
        from embit.liquid import addresses, networks as lnet, pset
        from embit import ec, script
        pk = ec.PrivateKey(b"\x03" * 32)
        for net in lnet.NETWORKS.values():
            try:
                addresses.address(script.p2wpkh(pk), pk.get_public_key() if "blech32" in net else None, network=net)
            except Exception:
                pass
        pset.LInputScope()
        pset.LOutputScope()

    changed = {}
    log = []
    for label, fn in steps:
        try:
            fn()
            log.append([label, "ok"])
        except BaseException as e:  # a step that raises still counts for what it executed
            log.append([label, "raised %s: %s" % (type(e).__name__, str(e)[:80])])
        for name, what in inv.changed():
            changed.setdefault(name, "after the step `%s` it %s" % (label, what))
    return {"changed": changed, "log": log}


def probe_binding_results(modname="embit.util.ctypes_secp256k1"):
    """every binding function with a recipe, called with inputs nr. 0, then nr. 1: no bytes object of the first result may be
    (part of) the second result, and the first result must be unchanged by the second call"""
    import importlib
    import bindprobe
    try:
        B = importlib.import_module(modname)
        P0, P1 = bindprobe.pool(B, 0), bindprobe.pool(B, 1)
    except BaseException as e:
        return "notProbed", "cannot build the input pool: %s: %s" % (type(e).__name__, e), 0

    def leaves(x, out):
        if isinstance(x, (bytes, bytearray)):
            if len(x) > 1:
                out.append(x)
        elif isinstance(x, (list, tuple)):
            for y in x:
                leaves(y, out)
        return out
    n = 0
    contract = {"ec_privkey_tweak_add", "ec_pubkey_tweak_add", "ec_privkey_tweak_mul", "ec_pubkey_tweak_mul"}
    names = sorted(k for k, v in vars(B).items() if isinstance(v, types.FunctionType) and not k.startswith("_"))
    for name in names:
        if name in contract:
            continue
        recipes = bindprobe.RECIPES.get(name)
        if recipes is None:
            g = bindprobe.guess_recipe(getattr(B, name))
            recipes = [("", g)] if g else []
        for variant, mk in recipes:
            try:
                a0, k0 = mk(P0)
                a1, k1 = mk(P1)
                r0 = getattr(B, name)(*bindprobe.clone(a0), **bindprobe.clone(k0))
                snap = [bytes(bytearray(x)) for x in leaves(r0, [])]
                ids0 = leaves(r0, [])
                r1 = getattr(B, name)(*bindprobe.clone(a1), **bindprobe.clone(k1))
            except BaseException:
                continue
            n += 1
            label = "%s%s" % (name, "/" + variant if variant else "")
            for x in ids0:
                if any(x is y for y in leaves(r1, [])):
                    return "confirmedUnsafe", ("r0 = %s(inputs 0); r1 = %s(inputs 1): a %d-byte object of r0 IS an object of r1 "
                                               "(one buffer handed to both callers)" % (label, label, len(x))), n
            now = [bytes(bytearray(x)) for x in ids0]
            if now != snap:
                i = [j for j in range(len(snap)) if snap[j] != now[j]][0]
                return "confirmedUnsafe", ("r0 = %s(inputs 0) was %s...; after %s(inputs 1) the object r0 holds reads %s..." % (
                    label, snap[i].hex()[:16], label, now[i].hex()[:16])), n
    if n == 0:
        return "notProbed", "no binding function could be called", 0
    return "confirmedSafe", "%d binding calls made twice with different inputs: results are distinct objects and the first is unchanged by the second" % n, n


# ------------------------------------------------------------------------------------------------ collection

def site(name, kind, probe, evidence, target=None):
    return {"name": name, "kind": kind, "probe": probe, "evidence": evidence, "target": target}


def collect(mods=None):
    """-> {"sites": [...], "stats": {...}}; must run in a process that has executed nothing of embit yet"""
    if mods is None:
        mods, skipped = A.embit_modules()
    else:
        skipped = []
    trees = {}
    adefs_by_mod = {}
    nosource = []
    for mod in mods:
        try:
            tree, adefs = A.ast_functions(mod)
            trees[mod.__name__] = tree
            adefs_by_mod[mod.__name__] = adefs
        except (OSError, TypeError, SyntaxError) as e:
            nosource.append((mod.__name__, str(e)))
    inv = Inventory(mods, trees)        # import-time picture: nothing of embit has been executed yet
    sites = []
    nfun = 0
    writes_by_obj = {}

    # ---- AST: writes, rebinding, flows, memo shapes, decorators, native aliases
    ast_flows = {}     # (class path, attr) -> [(SObj, path, description, function)]
    ret_flows = {}     # function path -> [(SObj, path, description)]
    fn_sites = []      # (kind tag, function path, name, evidence, extra)
    fn_refs = {}       # callable path -> (inventory objects it refers to, module-level names it loads)
    inst_attrs = {}    # class short name -> attributes some method assigns on self
    for mod in mods:
        adefs = adefs_by_mod.get(mod.__name__)
        if adefs is None:
            continue
        sm = A.short_mod(mod.__name__)
        libs = native_libs(mod)
        for key, (q, fd, acls) in sorted(adefs.items(), key=lambda kv: (str(type(kv[0])), str(kv[0]))):
            if isinstance(key, tuple):
                continue
            nfun += 1
            owner = None
            if acls is not None:
                owner = vars(mod).get(acls.name)
                if not isinstance(owner, type):
                    owner = None
            sc = Scan(sm, mod, q, fd, acls, owner, inv)
            fpath = qualified(mod, q)
            fname = "%s.%s" % (sm, q)
            callable_path = fpath if ".<locals>." not in q else None
            if callable_path and fd.name != "__init__":
                fn_refs[callable_path] = (set(sc.refs), {"%s.%s" % (sm, g) for g in sc.global_loads})
            # writes
            memo_objs = set()
            per_obj = {}
            for (so, path, what) in sc.writes:
                per_obj.setdefault(so.name, (so, []))[1].append(what + (" (at %s%s)" % (so.name, path) if path else ""))
            for oname, (so, whats) in sorted(per_obj.items()):
                handed = [f for f in sc.flows if f[0] == "return" and f[2] is so]
                is_memo = so.name in sc.reads and isinstance(so.obj, dict) and any(
                    "] = " in w or "setdefault" in w for w in whats)
                writes_by_obj.setdefault(so.name, []).append(fname)
                if is_memo:
                    fn_sites.append(("modmemo", callable_path, "modmemo:%s[%s]" % (fname, so.name),
                                     "%s is a memo dictionary at %s level: the function looks its arguments up in it and stores into it "
                                     "(%s)%s" % (so.name, so.level, "; ".join(sorted(set(whats))[:2]),
                                                 "; the stored object is handed back (%s)" % handed[0][4] if handed else ""),
                                     {"obj": so.name}))
                    memo_objs.add(so.name)
                else:
                    fn_sites.append(("write", callable_path, "write:%s[%s]" % (fname, so.name),
                                     "%s writes the %s-level object %s in place: %s" % (
                                         fname, so.level, so.name, "; ".join(sorted(set(whats))[:3])), {"obj": so.name}))
            # rebinding under `global`
            for g in sorted({r[0] for r in sc.rebinds}):
                whats = sorted({r[1] for r in sc.rebinds if r[0] == g})
                fn_sites.append(("global", callable_path, "global:%s[%s]" % (fname, g),
                                 "`global %s` and %s inside %s: module state changed from inside a function" % (
                                     g, "; ".join(whats[:2]), fname), {"obj": "%s.%s" % (sm, g)}))
            # flows
            for (k, attr, so, path, what, style) in sc.flows:
                if k == "attr" and acls is not None:
                    cp = "%s.%s" % (mod.__name__, acls.name)
                    ast_flows.setdefault((cp, "%s.%s" % (sm, acls.name), attr), []).append((so, path, what, fname, style))
                elif k == "return" and so.name not in memo_objs:
                    ret_flows.setdefault((callable_path, fname), []).append((so, path, what))
                elif k == "return":
                    pass
            # which attributes the class assigns on its instances (a class-level object of that name may be shadowed)
            if sc.recv == "self" and acls is not None:
                for n in ast.walk(fd):
                    if isinstance(n, (ast.Assign, ast.AnnAssign, ast.AugAssign)):
                        for t in (n.targets if isinstance(n, ast.Assign) else [n.target]):
                            if isinstance(t, ast.Attribute) and isinstance(t.value, ast.Name) and t.value.id == "self":
                                inst_attrs.setdefault("%s.%s" % (sm, acls.name), set()).add(t.attr)
            # memo shapes
            if sc.recv == "self" and fd.name != "__init__" and acls is not None:
                known = set()
                if owner is not None:
                    for k in owner.__mro__:
                        known |= set(A.class_memo_fields(k))
                allp = set(sc.params) - {"self"}
                for (fld, shape, node) in memo_shapes(fd, known):
                    # does the cached value depend on the parameters? (locals computed from them count)
                    tainted = set(allp)
                    for _ in range(3):
                        for n in ast.walk(fd):
                            if isinstance(n, ast.Assign) and (A.names_in(n.value) & tainted):
                                for t in n.targets:
                                    if isinstance(t, ast.Name):
                                        tainted.add(t.id)
                    dep = False
                    for n in ast.walk(fd):
                        if isinstance(n, (ast.Assign, ast.AnnAssign)) and n.value is not None:
                            tg = n.targets if isinstance(n, ast.Assign) else [n.target]
                            if any(self_field(t) == fld for t in tg) and (A.names_in(n.value) & tainted):
                                dep = True
                    fn_sites.append(("memo", callable_path, "memo:%s[%s]" % (fname, fld),
                                     "self.%s is a memo in another shape (%s)%s" % (
                                         fld, shape, "; the cached value is computed from the parameter(s) %s" % ", ".join(
                                             sorted(allp & tainted)) if dep else "; computed from the receiver only"),
                                     {"dep": dep, "field": fld, "cls": "%s.%s" % (mod.__name__, acls.name)}))
            # decorators
            decs = cache_decorators(fd)
            if decs:
                fn_sites.append(("cache", callable_path, "cache:%s" % fname,
                                 "decorated with %s: results are kept in a process-wide table keyed on the arguments" % ", ".join(decs),
                                 {"constructs": returns_constructed(fd)}))
            # native aliases
            if libs:
                la, fa, unres = native_aliases(fd, libs)
                for k, how in sorted(la.items()):
                    fn_sites.append(("native", callable_path, "native:%s[%s]" % (fname, k),
                                     "the native library is reached through the local alias `%s`; the calls through it are "
                                     "analysed like literal %s.<sym>(...) calls" % (how, sorted(libs)[0]), {"resolved": True}))
                for k, sym in sorted(fa.items()):
                    if sym is not None:
                        fn_sites.append(("native", callable_path, "native:%s[%s]" % (fname, k),
                                         "`%s` is the native function %s (bound to a local name); calls of it are analysed like "
                                         "literal calls" % (k, sym), {"resolved": True}))
                for u in sorted(set(unres)):
                    fn_sites.append(("native", callable_path, "native:%s[unresolved]" % fname,
                                     "native code is reached in a way the translator cannot follow: %s" % u, {"resolved": False}))
    # cache wrappers found at value level but not by their decorator syntax (e.g. `f = lru_cache()(g)`)
    seen_cache = {s[2] for s in fn_sites if s[0] == "cache"}
    for (name, w, mod, cls) in inv.caches:
        nm = "cache:%s" % name
        if nm not in seen_cache:
            fn_sites.append(("cache", "%s.%s" % (mod.__name__, name[len(A.short_mod(mod.__name__)) + 1:]), nm,
                             "%s is a functools cache wrapper (found in the loaded module)" % name, {"constructs": True}))
    # native library reachable under another module-level name / from another module
    lib_ids = {}
    for mod in mods:
        for k, v in native_libs(mod).items():
            lib_ids.setdefault(id(v), []).append("%s.%s" % (A.short_mod(mod.__name__), k))
    for i, names in sorted(lib_ids.items(), key=lambda kv: sorted(kv[1])):
        names = sorted(names, key=lambda n: (0 if n.endswith("._secp") else 1, n))
        for extra in names[1:]:
            fn_sites.append(("native", None, "native:%s" % extra,
                             "%s is another module-level name of the native library %s" % (extra, names[0]),
                             {"resolved": True, "module_alias": extra}))

    # ---- probes, each in its own child of this pristine process
    ex = in_child(lambda: exercise(inv), timeout=120)
    exd = ex.get("ok") or {"changed": {}, "log": [["exercise", "failed: %s" % ex.get("error")]]}
    ex_ok = "ok" in ex
    nsteps = len([l for l in exd["log"] if l[1] == "ok"])
    sw = in_child(lambda: sweep(inv), timeout=120)
    swd = sw.get("ok") or {"found": [], "built": 0, "modes": {}}

    # ---- inventory objects
    for so in inv.objects:
        wr = sorted(set(writes_by_obj.get(so.name, [])))
        if so.name in exd["changed"]:
            res, txt = "confirmedUnsafe", exd["changed"][so.name]
        elif not ex_ok or nsteps == 0:
            res, txt = "notProbed", "the exercise of the public API could not be run (%s)" % ex.get("error", "no step succeeded")
        else:
            res, txt = "confirmedSafe", ("equals its import-time picture after the exercise of the public API (%d steps); the fork "
                                         "server compares it again after every history" % nsteps)
        sites.append(site("obj:" + so.name, ".sharedObject %s" % ("true" if so.table else "false"), res,
                          "%s-level %s, %s at import%s; %s" % (
                              so.level, type(so.obj).__name__, ("%d entries" % len(so.obj)) if isinstance(so.obj, MUTABLE) else "an instance",
                              ("; written by " + ", ".join(wr)) if wr else "; no function of the package writes it", txt),
                          {"obj": so.name}))
    for (name, v) in sorted(inv.handles, key=lambda h: h[0]):
        sites.append(site("handle:" + name, ".moduleHandle", "confirmedSafe" if ex_ok and not any(
            c == name for c in exd["changed"]) else "notProbed",
            "%s: a %s.%s (state outside Python objects; C20 covers the native library and its lock); the binding is the same "
            "object after the exercise" % (name, type(v).__module__, type(v).__name__)))

    # ---- flows into instance attributes: AST and identity sweep merged
    flows = {}
    for (cp, cname, attr), lst in ast_flows.items():
        for (so, path, what, fname, style) in lst:
            f = flows.setdefault((cname, attr, so.name), {"cp": cp, "so": so, "path": path, "ast": [], "sweep": None, "style": style})
            f["ast"].append("%s in %s" % (what, fname))
            if style == "always" or (style == "or" and f["style"] == "default"):
                f["style"] = style
    for e in swd["found"]:
        so = [s for s in inv.objects if s.name == e["obj"]][0]
        f = flows.setdefault((e["cls"], e["attr"], so.name), {
            "cp": e["path_cls"], "so": so, "path": e["path"], "ast": [], "sweep": None,
            "style": ("or" if e["attr"] in inst_attrs.get(e["cls"], ()) else "always") if e["via"].startswith("class-level") else "default"})
        f["sweep"] = e
        f["path"] = f["path"] or e["path"]
    # a subclass inherits the flow of its base: keep one site per (defining class, attribute) when the sweep reports the same
    for (cname, attr, oname), f in sorted(flows.items()):
        so = f["so"]
        e = f["sweep"]
        table = so.table
        if e is not None:
            ident = "a = %s(...); b = %s(...); a.%s%s is %s%s%s" % (
                cname.split(".")[-1], cname.split(".")[-1], attr, e["at"], so.name, e["path"],
                " and is b.%s%s" % (attr, e["at"]) if e["shared"] else "")
        else:
            ident = None
        if table:
            # shared by design: safe exactly when the table never changes
            tsite = [s for s in sites if s["name"] == "obj:" + so.name][0]
            res = tsite["probe"]
            txt = "%s is a constant table (non-empty at import): shared by design; %s" % (
                so.name, "it " + tsite["evidence"].split("; ")[-2] if res == "confirmedSafe" else tsite["evidence"].split("; ")[-1])
            if ident:
                txt = ident + "; " + txt
        else:
            if e is not None and e["shared"]:
                res = "confirmedUnsafe"
                txt = ident + ": one %s, empty at import, is the `%s` of every instance — what one caller puts into a.%s shows in b.%s" % (
                    type(so.obj).__name__, attr, attr, attr)
            elif e is not None:
                res, txt = "confirmedSafe", ident + " but two instances do not share it"
            else:
                # the sweep built the class (or could not) and did not see the object in that attribute
                how = swd.get("modes", {}).get(cname)
                if how == "defaults":
                    res, txt = "confirmedSafe", ("two instances of %s built with default arguments: neither holds %s in `%s`" % (
                        cname, so.name, attr))
                elif how == "fixture":
                    res, txt = "notProbed", ("%s can only be built with explicit arguments (a fixture): the instances do not hold %s, "
                                             "but the flow through a default / fallback is not refuted" % (cname, so.name))
                else:
                    res, txt = "notProbed", "%s cannot be built with default arguments / a fixture: the flow is not refuted" % cname
        sites.append(site("flow:%s.%s<-%s" % (cname, attr, so.name), ".sharedIntoAttr %s" % ("true" if table else "false"), res,
                          "style: %s; %s%s" % (f["style"], ("source: " + "; ".join(sorted(set(f["ast"]))[:2]) + "; ") if f["ast"] else
                                               "found by the identity sweep only (%s); " % (e["via"] if e else ""), txt),
                          {"cls": f["cp"], "attr": attr, "obj": so.name, "style": f["style"]}))
    # flows through return values
    for (cpath, fname), lst in sorted(ret_flows.items(), key=lambda kv: kv[0][1]):
        objs = sorted({so.name for (so, _, _) in lst})
        for oname in objs:
            so = [s for (s, _, _) in lst if s.name == oname][0]
            what = [w for (s, _, w) in lst if s.name == oname][0]
            if so.table:
                tsite = [s for s in sites if s["name"] == "obj:" + so.name][0]
                res = tsite["probe"]
                txt = "%s is a constant table (non-empty at import): handed out by design; %s" % (so.name, tsite["evidence"].split("; ")[-2 if res == "confirmedSafe" else -1])
                var = None
            elif cpath is None:
                res, txt, var = "notProbed", "a nested function: not callable from outside", None
            else:
                r = in_child(lambda: probe_handed_out(inv, cpath))
                res, txt, _mut, var = r.get("ok") or ("notProbed", "probe failed: %s" % r.get("error"), True, None)
            sites.append(site("flow:%s()<-%s" % (fname, so.name), ".sharedIntoAttr %s" % ("true" if so.table else "false"), res,
                              "%s hands %s to its caller; %s" % (what, so.name, txt), {"fn": cpath, "variant": var, "obj": so.name}))

    # ---- function-level sites
    for (tag, cpath, name, ev, extra) in fn_sites:
        if tag in ("write", "global"):
            if cpath is None:
                res, txt, var = "notProbed", "a nested function: not callable from outside", None
            else:
                r = in_child(lambda: probe_calls(inv, cpath, {extra["obj"]}))
                res, txt, var = r.get("ok") or ("notProbed", "probe failed: %s" % r.get("error"), None)
            kind = ".sharedWrite" if tag == "write" else ".globalRebind"
            readers = []
            if res != "confirmedSafe":
                # functions whose answer can depend on the written object: for the directed history `R; W; R`
                for rp, (objs, names) in sorted(fn_refs.items()):
                    if rp != cpath and (extra["obj"] in objs or extra["obj"] in names) and len(readers) < 3:
                        v = in_child(lambda rp=rp: first_variant(rp)).get("ok")
                        if v is not None:
                            readers.append([rp, v])
            sites.append(site(name, kind, res, ev + "; " + txt, {"fn": cpath, "variant": var, "obj": extra["obj"], "readers": readers}))
        elif tag in ("modmemo", "cache"):
            if cpath is None:
                res, txt, mut, var = "notProbed", "a nested function: not callable from outside", True, None
            else:
                r = in_child(lambda: probe_handed_out(inv, cpath))
                res, txt, mut, var = r.get("ok") or ("notProbed", "probe failed: %s" % r.get("error"), True, None)
            kind = (".moduleMemo %s" if tag == "modmemo" else ".cacheDecorator %s") % ("true" if mut else "false")
            sites.append(site(name, kind, res, ev + "; " + txt, {"fn": cpath, "variant": var, "obj": extra.get("obj")}))
        elif tag == "memo":
            r = in_child(lambda: probe_memo_other(cpath, extra))
            res, txt = r.get("ok") or ("notProbed", "probe failed: %s" % r.get("error"))
            vs = in_child(lambda: two_variants(cpath)).get("ok") or []
            sites.append(site(name, ".memoOther %s" % ("true" if extra["dep"] else "false"), res, ev + "; " + txt,
                              {"fn": cpath, "cls": extra["cls"], "variants": vs}))
        elif tag == "native":
            sites.append(site(name, ".nativeAlias %s" % ("true" if extra["resolved"] else "false"), "notProbed", ev, None))

    # the native aliases are safe only with the binding-wide result probe
    r = in_child(probe_binding_results, timeout=120)
    bres, btxt, bn = r.get("ok") or ("notProbed", "probe failed: %s" % r.get("error"), 0)
    for s in sites:
        if s["kind"].startswith(".nativeAlias"):
            s["probe"] = bres
            s["evidence"] += "; " + btxt
    sites.append(site("probe:binding results are independent objects", ".probe", bres, btxt))
    # always-on probes (they stay in the facts whatever the code looks like)
    sites.append(site("probe:module- and class-level objects equal their import-time picture after the exercise", ".probe",
                      "confirmedSafe" if ex_ok and nsteps and not exd["changed"] else ("confirmedUnsafe" if exd["changed"] else "notProbed"),
                      ("%d inventory objects, %d steps: " % (len(inv.objects), nsteps)) + (
                          "; ".join("%s: %s" % kv for kv in sorted(exd["changed"].items())[:3]) if exd["changed"] else "all unchanged") + (
                          "" if all(l[1] == "ok" for l in exd["log"]) else "; steps that raised: " + "; ".join(
                              "%s (%s)" % (l[0].split(":")[0], l[1][:60]) for l in exd["log"] if l[1] != "ok"))))
    for mn, err in nosource:
        sites.append(site("unanalysed:%s" % A.short_mod(mn), ".unclassified", "notProbed", "no source for module %s (%s)" % (mn, err)))
    for mn, err in skipped:
        sites.append(site("unanalysed:%s" % A.short_mod(mn), ".unclassified", "notProbed", "module %s cannot be imported (%s)" % (mn, err)))
    stats = {"modules": len(mods), "functions": nfun, "classes": len(inv.classes), "objects": len(inv.objects),
             "handles": len(inv.handles), "caches": len(inv.caches), "instances_built": swd["built"], "exercise_steps": nsteps,
             "binding_calls": bn}
    return {"sites": sites, "stats": stats}


def two_variants(path):
    """indices of two candidate argument tuples that succeed and give different answers (one index if all agree)"""
    good = []
    for idx, args in enumerate(candidates(path)):
        try:
            r = json.dumps(stable(invoke(path, args)), sort_keys=True, default=str)
        except BaseException:
            continue
        if not good:
            good.append((idx, r))
        elif r != good[0][1]:
            return [good[0][0], idx]
    return [g[0] for g in good]


def first_variant(path):
    """index of the first candidate argument tuple with which the call succeeds"""
    for idx, args in enumerate(candidates(path)):
        try:
            invoke(path, args)
            return idx
        except BaseException:
            continue
    return None


def _can_build(cp):
    r = in_child(lambda: bool(build_instance(cp)))
    return bool(r.get("ok"))


def probe_memo_other(cpath, extra):
    """a memo in another shape: the second call with OTHER arguments on the same receiver must equal the call on a fresh
    receiver (parameters), and the class must reset the field when the receiver changes (receiver only)"""
    if cpath is None:
        return "notProbed", "not callable from outside"
    rc = resolve_callable(cpath)
    if rc is None:
        return "notProbed", "cannot resolve %s" % cpath
    fn, owner, kind = rc
    good = []
    for args in candidates(cpath):
        try:
            r = invoke(cpath, args)
            good.append((args, json.dumps(stable(r), sort_keys=True, default=str)))
        except BaseException:
            continue
        if len(good) >= 6:
            break
    if not good:
        return "notProbed", "no call of %s on a fixture receiver succeeded" % cpath
    if extra["dep"]:
        pair = None
        for i in range(len(good)):
            for j in range(len(good)):
                if good[i][1] != good[j][1]:
                    pair = (good[i], good[j])
                    break
            if pair:
                break
        if pair is None:
            return "notProbed", "every successful call of %s gives the same answer: the memo cannot be told from the computation" % cpath
        (a1, _), (a2, want) = pair
        recv = A.receiver_fixture(owner)
        invoke(cpath, a1, recv)
        second = json.dumps(stable(invoke(cpath, a2, recv)), sort_keys=True, default=str)
        txt = "x = %s(...); x.%s(%s); x.%s(%s) vs the same call on a fresh receiver" % (
            owner.__name__, cpath.split(".")[-1], ", ".join(short(a, 30) for a in a1), cpath.split(".")[-1], ", ".join(short(a, 30) for a in a2))
        if second != want:
            return "confirmedUnsafe", txt + ": differ (the second answer is the first call's)"
        return "confirmedSafe", txt + ": agree"
    # receiver only: is there an invalidator / is the class immutable after __init__?
    fld = extra["field"]
    resetters, writers = set(), set()
    for k in owner.__mro__:
        if k is object:
            continue
        try:
            tree = ast.parse(A._dedent(inspect.getsource(k)))
        except (OSError, TypeError, SyntaxError):
            continue
        for fd in ast.walk(tree):
            if not isinstance(fd, ast.FunctionDef) or fd.name in ("__init__", cpath.split(".")[-1]):
                continue
            for n in ast.walk(fd):
                if isinstance(n, (ast.Assign, ast.AugAssign)):
                    tg = n.targets if isinstance(n, ast.Assign) else [n.target]
                    for t in tg:
                        bn, d = A.base_name(t)
                        if bn == "self" and d >= 1:
                            top = t
                            while isinstance(top.value, (ast.Attribute, ast.Subscript)):
                                top = top.value
                            a = top.attr if isinstance(top, ast.Attribute) else None
                            if a == fld:
                                resetters.add("%s.%s" % (k.__name__, fd.name))
                            elif a is not None:
                                writers.add("%s.%s" % (k.__name__, fd.name))
                elif isinstance(n, ast.Delete):
                    for t in n.targets:
                        if self_field(t) == fld:
                            resetters.add("%s.%s" % (k.__name__, fd.name))
    recv = A.receiver_fixture(owner)
    x1 = json.dumps(stable(invoke(cpath, good[0][0], recv)), sort_keys=True, default=str)
    x2 = json.dumps(stable(invoke(cpath, good[0][0], recv)), sort_keys=True, default=str)
    if x1 != x2 or x1 != good[0][1]:
        return "confirmedUnsafe", "two calls of %s on one receiver / a fresh receiver differ" % cpath
    if resetters:
        return "confirmedSafe", "two calls agree with a fresh receiver; the field is reset by " + ", ".join(sorted(resetters))
    if not writers:
        return "confirmedSafe", "two calls agree with a fresh receiver; no method of the class assigns its other attributes after __init__"
    return "notProbed", "no invalidator resets self.%s although attributes are written by %s" % (fld, ", ".join(sorted(writers)[:3]))


def main():
    sys.path.insert(0, os.path.dirname(os.path.abspath(__file__)))
    out = collect()
    sys.stdout.write(json.dumps(out))
    sys.stdout.flush()


def collect_in_subprocess():
    """runs `collect()` in a brand-new interpreter (pristine import-time state) and returns its JSON"""
    import subprocess
    repo = os.environ.get("EMBIT_REPO", "/repo")
    env = dict(os.environ)
    env["PYTHONPATH"] = os.path.join(repo, "src") + os.pathsep + os.path.dirname(os.path.abspath(__file__))
    env["EMBIT_REPO"] = repo
    p = subprocess.run([sys.executable, "-W", "ignore", os.path.abspath(__file__)], capture_output=True, text=True, env=env, timeout=600)
    if p.returncode != 0 or not p.stdout.strip():
        raise RuntimeError("shared-state translator failed: rc=%s %s" % (p.returncode, (p.stderr or "")[-1500:]))
    return json.loads(p.stdout)


if __name__ == "__main__":
    main()
