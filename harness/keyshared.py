"""Shared helpers for the key properties C09 / C10: backend switching, hash overrides, case descriptions of
HD keys, token formats of Driver/Keys.lean, generators."""
import contextlib
import importlib
import os
import signal
import sys
import types

from core import hx, REPO

import embit.ec as ec
import embit.bip32 as bip32
import embit.hashes as hashes
import embit.base58 as base58
from embit.networks import NETWORKS
from embit.util import py_secp256k1 as PY

try:
    from embit.util import ctypes_secp256k1 as CT
except Exception:  # no shared library: only the pure-Python backend can be exercised
    CT = None

BACKENDS = ([("ctypes", CT)] if CT is not None else []) + [("py", PY)]

N = 0xFFFFFFFFFFFFFFFFFFFFFFFFFFFFFFFEBAAEDCE6AF48A03BBFD25E8CD0364141
P = 0xFFFFFFFFFFFFFFFFFFFFFFFFFFFFFFFFFFFFFFFFFFFFFFFFFFFFFFFEFFFFFC2F
H = 0x80000000
NETKEYS = list(NETWORKS.keys())


class Timeout(BaseException):
    pass


def _alarm(signum, frame):
    raise Timeout()


def guarded(f, secs=30.0):
    """f() under a wall-clock cap; any ordinary exception -> None marker 'none'"""
    old = signal.signal(signal.SIGALRM, _alarm)
    signal.setitimer(signal.ITIMER_REAL, secs)
    try:
        return f()
    except Timeout:
        return "timeout"
    except Exception:
        return "none"
    finally:
        signal.setitimer(signal.ITIMER_REAL, 0)
        signal.signal(signal.SIGALRM, old)


@contextlib.contextmanager
def backend(mod):
    """run embit.ec / embit.bip32 on the given secp256k1 binding module"""
    old = (ec.secp256k1, bip32.secp256k1)
    ec.secp256k1 = mod
    bip32.secp256k1 = mod
    try:
        yield
    finally:
        ec.secp256k1, bip32.secp256k1 = old


class _FakeHmac:
    def __init__(self, raw):
        self.raw = raw

    def digest(self):
        return self.raw


@contextlib.contextmanager
def hmac_override(raw):
    """make `hmac.new(...).digest()` inside embit.bip32 return `raw` (None: the real HMAC)"""
    if raw is None:
        yield
        return
    old = bip32.hmac
    bip32.hmac = types.SimpleNamespace(new=lambda key, msg=None, digestmod=None: _FakeHmac(raw))
    try:
        yield
    finally:
        bip32.hmac = old


@contextlib.contextmanager
def tagged_override(raw):
    """make `hashes.tagged_hash` return `raw` (None: the real one)"""
    if raw is None:
        yield
        return
    old = hashes.tagged_hash
    hashes.tagged_hash = lambda tag, data: raw
    try:
        yield
    finally:
        hashes.tagged_hash = old


def on_backends(f, secs=30.0):
    """-> list of (backend name, answer string)"""
    out = []
    for name, mod in BACKENDS:
        with backend(mod):
            out.append((name, guarded(f, secs)))
    return out


# ------------------------------------------------------------------ token formats (Driver/Keys.lean)

def opt(b):
    return "None" if b is None else hx(b)


def net_index(network):
    for i, k in enumerate(NETKEYS):
        if NETWORKS[k] is network:
            return i
    return -1


def show_priv(k):
    return "%s %d %d" % (hx(k._secret), int(bool(k.compressed)), net_index(k.network))


def show_pub(k):
    return "%s %d" % (hx(k.sec()), int(bool(k.compressed)))


def show_hd(k):
    if k.is_private:
        head = "prv %s %d" % (hx(k.key._secret), int(bool(k.key.compressed)))
    else:
        head = "pub %s" % hx(k.key.sec())
    return "%s %s %s %d %s %d" % (head, hx(k.chain_code), hx(k.version), k.depth, hx(k.fingerprint), k.child_number)


def spec_key_tokens(s):
    if s["kind"] == "prv":
        return "prv %s %d" % (hx(s["key"]), int(s.get("c", True)))
    return "pub %s" % hx(s["key"])


def spec_tokens(s):
    """tokens of an HD key description (the driver builds the structure directly)"""
    return "%s %s %s %d %s %d" % (spec_key_tokens(s), hx(s["cc"]), hx(s["ver"]), s["depth"], hx(s["fp"]), s["cn"])


def mk_key(s):
    if s["kind"] == "prv":
        return ec.PrivateKey(s["key"], s.get("c", True))
    return ec.PublicKey.parse(s["key"])


def mk_hd(s):
    return bip32.HDKey(mk_key(s), s["cc"], version=s["ver"], depth=s["depth"], fingerprint=s["fp"],
                       child_number=s["cn"])


def info_of(s):
    return {k: (v.hex() if isinstance(v, (bytes, bytearray)) else v) for k, v in s.items()}


# ------------------------------------------------------------------ reference arithmetic (harness side only)

def is_on_curve_x(x):
    if x >= P:
        return False
    y2 = (pow(x, 3, P) + 7) % P
    return pow(y2, (P - 1) // 2, P) in (0, 1) and pow(pow(y2, (P + 1) // 4, P), 2, P) == y2


def lift(x, odd):
    y2 = (pow(x, 3, P) + 7) % P
    y = pow(y2, (P + 1) // 4, P)
    assert y * y % P == y2
    if (y & 1) != odd:
        y = P - y
    return y


# ------------------------------------------------------------------ generators

def rbytes(rng, n):
    return bytes(rng.getrandbits(8) for _ in range(n))


SPECIAL_SECRETS = [1, 2, 3, 7, N - 1, N - 2, N // 2, N // 2 + 1, 2 ** 255, 2 ** 128, 0xFF, (1 << 256) // 3 % N]


def gen_secret(rng):
    r = rng.random()
    if r < 0.35:
        return rng.choice(SPECIAL_SECRETS).to_bytes(32, "big")
    if r < 0.45:
        return rng.randrange(1, 1 << 16).to_bytes(32, "big")
    return rng.randrange(1, N).to_bytes(32, "big")


def sec_of(secret, compressed=True):
    with backend(BACKENDS[0][1]):
        return ec.PrivateKey(secret, compressed).sec()


def gen_secret_parity(rng, odd):
    """a secret whose public key has the requested Y parity"""
    while True:
        s = gen_secret(rng)
        if (sec_of(s)[0] == 3) == odd:
            return s


def all_versions():
    """[(net, name, bytes, is_private)] for the SLIP-132 prefixes of every network (from the loaded table)"""
    out = []
    for net in NETKEYS:
        for k, v in NETWORKS[net].items():
            if isinstance(v, bytes) and len(k) == 4 and k[1:] in ("prv", "pub"):
                out.append((net, k, v, k[1:] == "prv"))
    return out


SPECIAL_INDICES = [0, 1, 2 ** 31 - 1, 2 ** 31, 2 ** 32 - 1, 2 ** 31 + 1, 2 ** 31 - 2, 2 ** 32 - 2, 44 + H, 0x100, 0xFFFF]


def gen_index(rng):
    r = rng.random()
    if r < 0.5:
        return rng.choice(SPECIAL_INDICES)
    if r < 0.75:
        return rng.randrange(0, H)
    return rng.randrange(H, 2 ** 32)


def gen_cc(rng):
    r = rng.random()
    if r < 0.1:
        return bytes(32)
    if r < 0.2:
        return b"\xff" * 32
    return rbytes(rng, 32)


def gen_parent(rng, private=None, odd=None, depth=None):
    """description of a constructible HD key"""
    if private is None:
        private = rng.random() < 0.5
    if odd is None:
        odd = rng.random() < 0.5
    secret = gen_secret_parity(rng, odd)
    vers = [v for v in all_versions() if v[3] == private]
    ver = rng.choice(vers)[2]
    if depth is None:
        depth = rng.choice([0, 0, 1, 2, 3, 5, 100, 253, 254, 255, rng.randrange(0, 256)])
    if depth == 0 and rng.random() < 0.8:
        fp, cn = bytes(4), 0
    else:
        fp, cn = rbytes(rng, 4), gen_index(rng)
    s = {"kind": "prv" if private else "pub", "key": secret if private else sec_of(secret), "c": True,
         "cc": gen_cc(rng), "ver": ver, "depth": depth, "fp": fp, "cn": cn, "odd": odd}
    return s


def bip32_vectors():
    """(DERIVE_VECTORS, FROM_BASE58_ERROR_VECTORS, identity xkeys) of the repository's tests, if importable"""
    d = os.path.join(REPO, "tests", "tests")
    if d not in sys.path:
        sys.path.insert(0, d)
    try:
        m = importlib.import_module("test_bip32")
    except Exception:
        return [], []
    return list(getattr(m, "DERIVE_VECTORS", [])), list(getattr(m, "FROM_BASE58_ERROR_VECTORS", []))
