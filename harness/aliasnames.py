"""Independent enumeration for the C19 fact tables (audit2 A-7 / part2-C19-C20 X4, first audit A8/I3).

`harness/aliasfacts.py` emits one record per HAZARD it finds (Generated/AliasFacts.lean `sites`, `sharedSites`); a
function it never looks at, or a whole module that drops out of its walk, leaves no trace, and every obligation of
Props/C19Facts / C19X / C19Y holds over a shrunken table. This module enumerates, in a brand-new interpreter and by
routes the translator does not use, what it has to have looked at, and writes Generated/AliasNames.lean:

  reachableFns   every function object alive after importing every module of the package (`gc.get_objects()`, kept when
                 the code object's file lies in the package directory): key, "module.qualname".  Key = crc32(short module name) * 100000 + co_firstlineno.
  scannedFns     (from the translator itself, aliasfacts.SCANNED) keys of the functions it analysed: loaded ones and
                 AST-only ones (nested / shadowed defs)
  mutableDefaults  "module.qualname(param)" for every parameter of a reachable function whose default VALUE
                 (`__defaults__` / `__kwdefaults__`) is a list / dict / set / bytearray instance
  sharedObjects  every distinct mutable object bound at module or class level (list / dict / set / bytearray, a tuple
                 holding one, an instance of an embit class with a __dict__), with ALL the names it is bound to

Props/C19Complete.lean: every reachable function was scanned, every mutable default and every shared object has a
safe site in the tables (or is in the named exclusion lists), no duplicate keys."""
import json
import os
import subprocess
import sys
import zlib

CHILD = r'''
import gc, importlib, json, os, pkgutil, sys, types, zlib
import embit
root = os.path.dirname(os.path.abspath(embit.__file__))
skipped = []
for m in pkgutil.walk_packages(embit.__path__, "embit."):
    if m.name.startswith("embit.wordlists."):
        continue
    try:
        importlib.import_module(m.name)
    except Exception as e:
        skipped.append(m.name)
MUTABLE = (list, dict, set, bytearray)

def short(m):
    return m[len("embit."):] if m.startswith("embit.") else m

def modname_of_file(path):
    rel = os.path.relpath(path, root)
    if rel.startswith(".."):
        return None
    rel = rel[:-3] if rel.endswith(".py") else rel
    parts = rel.split(os.sep)
    if parts[-1] == "__init__":
        parts = parts[:-1]
    return ".".join(parts) if parts else "embit"

fns = {}
for o in gc.get_objects():
    if isinstance(o, types.FunctionType):
        try:
            fn = os.path.abspath(o.__code__.co_filename)
        except Exception:
            continue
        sm = modname_of_file(fn)
        if sm is None or sm.startswith("wordlists."):
            continue
        key = (sm, o.__code__.co_firstlineno)
        muts = []
        code = o.__code__
        npos = code.co_argcount
        names = code.co_varnames[:npos + code.co_kwonlyargcount]
        d = o.__defaults__ or ()
        for p, v in zip(names[npos - len(d):npos], d):
            if isinstance(v, MUTABLE):
                muts.append(p)
        for p, v in (o.__kwdefaults__ or {}).items():
            if isinstance(v, MUTABLE):
                muts.append(p)
        old = fns.get(key)
        if old is None or len(o.__qualname__) < len(old[0]):
            fns[key] = (o.__qualname__, sorted(set(muts) | set(old[1] if old else [])))

def immutable(x, depth=0):
    if isinstance(x, (int, str, bytes, bool, float, complex, type(None), range, type, types.FunctionType,
                      types.BuiltinFunctionType)):
        return True
    if isinstance(x, (tuple, frozenset)) and depth < 4:
        return all(immutable(y, depth + 1) for y in x)
    return False

objs = {}
def value(name, v):
    if isinstance(v, (classmethod, staticmethod)):
        v = v.__func__
    if isinstance(v, (types.ModuleType, types.FunctionType, types.BuiltinFunctionType, types.MethodType, type, property,
                      types.MemberDescriptorType, types.GetSetDescriptorType)):
        return
    if isinstance(v, MUTABLE) or (isinstance(v, tuple) and not immutable(v)):
        objs.setdefault(id(v), (type(v).__name__, []))[1].append(name)
        return
    tm = getattr(type(v), "__module__", "") or ""
    if hasattr(v, "__dict__") and tm.startswith("embit") and not callable(v):
        objs.setdefault(id(v), (type(v).__name__, []))[1].append(name)

for mn in sorted(sys.modules):
    if not (mn == "embit" or mn.startswith("embit.")) or mn.startswith("embit.wordlists."):
        continue
    mod = sys.modules[mn]
    if mod is None:
        continue
    sm = short(mn)
    for k in dir(mod):
        if k.startswith("__"):
            continue
        v = getattr(mod, k)
        if isinstance(v, type):
            if v.__module__ == mn:
                for a in list(vars(v)):
                    if not a.startswith("__"):
                        value("%s.%s.%s" % (sm, v.__qualname__, a), vars(v)[a])
            continue
        value("%s.%s" % (sm, k), v)

print(json.dumps({"fns": [[k[0], k[1], v[0], v[1]] for k, v in sorted(fns.items())],
                  "objs": sorted([t, sorted(ns)] for (t, ns) in objs.values()), "skipped": skipped}))
'''


def key_of(sm, line):
    return (zlib.crc32(sm.encode()) & 0xFFFFFFFF) * 100000 + line


def enumerate_in_child():
    src = os.path.join(os.environ.get("EMBIT_REPO", "/repo"), "src")
    import embit
    src = os.path.dirname(os.path.dirname(os.path.abspath(embit.__file__)))
    env = dict(os.environ, PYTHONPATH=src)
    p = subprocess.run([sys.executable, "-W", "ignore", "-c", CHILD], capture_output=True, text=True, env=env, timeout=180)
    line = [l for l in p.stdout.split("\n") if l.startswith("{")]
    if p.returncode != 0 or not line:
        raise RuntimeError("enumeration child failed: " + (p.stderr or p.stdout)[-400:])
    return json.loads(line[-1])


def _s(x):
    return '"' + x.replace("\\", "\\\\").replace('"', "'") + '"'


def lean_text(scanned):
    """scanned: aliasfacts.SCANNED of the translator run that wrote AliasFacts.lean"""
    d = enumerate_in_child()
    reach = {}
    for (sm, line, q, muts) in d["fns"]:
        reach[key_of(sm, line)] = "%s.%s" % (sm, q)
    loaded = sorted({key_of(sm, line) for (sm, q, line, ld) in scanned if ld})
    astonly = sorted({key_of(sm, line) for (sm, q, line, ld) in scanned if not ld} - set(loaded))
    muts = sorted("%s.%s(%s)" % (sm, q, p) for (sm, line, q, ms) in d["fns"] for p in ms)
    out = ["/-",
           "  GENERATED by harness/facts.py (generator \"alias\", code in harness/aliasnames.py) - do not edit.",
           "  An enumeration INDEPENDENT of the translator behind Generated/AliasFacts.lean (audit2 A-7), made in a brand-new",
           "  interpreter: `reachableFns` = every function object alive after importing every module of the package",
           "  (gc.get_objects(), code file inside the package directory), key = crc32(module) * 100000 + co_firstlineno;",
           "  `mutableDefaults` = parameters of those functions whose default VALUE is a list / dict / set / bytearray;",
           "  `sharedObjects` = every distinct mutable object bound at module / class level with all the names it is bound to.",
           "  `scannedLoaded` / `scannedAstOnly` come from the translator: the functions it analysed (aliasfacts.SCANNED).",
           "  Props/C19Complete.lean proves that the translator's tables cover the enumeration.",
           "-/",
           "namespace Embit.Gen.AliasNames",
           "",
           "/-- (key, module.qualname) of every live function object of the package, ascending by key -/",
           "def reachableFns : List (Nat × String) := ["]
    out.append(",\n".join("  (%d, %s)" % (k, _s(v)) for k, v in sorted(reach.items())))
    out.append("]")
    out.append("")
    out.append("/-- keys of the loaded functions the translator analysed, ascending -/")
    out.append("def scannedLoaded : List Nat := [%s]" % ", ".join(map(str, loaded)))
    out.append("")
    out.append("/-- keys of the defs the translator analysed from the source only (nested helpers, shadowed defs), ascending -/")
    out.append("def scannedAstOnly : List Nat := [%s]" % ", ".join(map(str, astonly)))
    out.append("")
    out.append("/-- EXEMPT from `every_reachable_function_scanned`: live functions the translator is not expected to analyse,")
    out.append("    with the reason (none at present; an entry needs a reason and shows up in the theorem) -/")
    out.append("def unscannedExempt : List (Nat × String × String) := []")
    out.append("")
    out.append("/-- \"module.qualname(param)\": the default value of the parameter is a list / dict / set / bytearray instance -/")
    out.append("def mutableDefaults : List String := [")
    out.append(",\n".join("  " + _s(m) for m in muts))
    out.append("]")
    out.append("")
    out.append("/-- distinct mutable objects bound at module / class level: (type, every name bound to it, as `obj:` site names) -/")
    out.append("def sharedObjects : List (String × List String) := [")
    out.append(",\n".join("  (%s, [%s])" % (_s(t), ", ".join(_s("obj:" + n) for n in ns)) for (t, ns) in d["objs"]))
    out.append("]")
    out += ["", "end Embit.Gen.AliasNames", ""]
    info = {"reachable": len(reach), "scanned_loaded": len(loaded), "scanned_ast_only": len(astonly),
            "mutable_defaults": muts, "shared_objects": [ns for (_, ns) in d["objs"]],
            "unscanned": [reach[k] for k in sorted(set(reach) - set(loaded) - set(astonly))],
            "skipped": d["skipped"]}
    return "\n".join(out), info
