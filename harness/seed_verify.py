"""Confirms a seeded change delivered by a sub-agent and files it under /verif/seeded/<id>/:
the patch applies to /repo's HEAD, the existing test suite still passes with it, the demonstration fails with it
and passes without it. Usage: seed_verify.py <agent dir> <N> <id>"""
import json
import os
import shutil
import subprocess
import sys

VERIF = os.path.dirname(os.path.dirname(os.path.abspath(__file__)))


def sh(cmd, **kw):
    return subprocess.run(cmd, shell=True, capture_output=True, text=True, **kw)


def main():
    src, n, sid = sys.argv[1], int(sys.argv[2]), sys.argv[3]
    meta = json.load(open(os.path.join(src, "meta.json")))[n - 1]
    d = os.path.join(VERIF, "seeded", sid)
    os.makedirs(d, exist_ok=True)
    shutil.copy(os.path.join(src, meta["patch"]), os.path.join(d, "patch.diff"))
    shutil.copy(os.path.join(src, meta["demo"]), os.path.join(d, "demo.py"))
    wt = "/tmp/seedverify-" + sid
    sh("git -C /repo worktree remove --force %s" % wt)
    r = sh("git -C /repo worktree add --detach %s HEAD" % wt)
    assert r.returncode == 0, r.stderr
    env = "PYTHONPATH=%s/src" % wt
    out = {"id": sid, "property": meta["property"], "breaks": meta["breaks"], "needs": meta["needs"], "files": meta["files"],
           "agent_ran": meta.get("ran"), "repo_head": sh("git -C /repo rev-parse --short HEAD").stdout.strip()}
    try:
        demo = os.path.join(d, "demo.py")
        r0 = sh("cd %s && %s timeout 600 /venv/bin/python -W ignore %s" % (wt, env, demo))
        a = sh("git -C %s apply %s" % (wt, os.path.join(d, "patch.diff")))
        if a.returncode != 0:
            a = sh("cd %s && patch -p1 -s < %s" % (wt, os.path.join(d, "patch.diff")))
        out["applies"] = a.returncode == 0
        t = sh("cd %s && %s /venv/bin/python -m pytest -q -p no:cacheprovider 2>&1 | tail -1" % (wt, env))
        out["suite_with_change"] = t.stdout.strip()[-60:]
        r1 = sh("cd %s && %s timeout 600 /venv/bin/python -W ignore %s" % (wt, env, demo))
        out["demo_exit_without_change"] = r0.returncode
        out["demo_exit_with_change"] = r1.returncode
        out["confirmed"] = bool(out["applies"] and "88 passed" in out["suite_with_change"] and r0.returncode == 0 and r1.returncode != 0)
        if out["applies"]:
            # store the patch as it applies to the current HEAD
            p = sh("git -C %s diff" % wt).stdout
            open(os.path.join(d, "patch.diff"), "w").write(p)
    finally:
        sh("git -C /repo worktree remove --force %s" % wt)
    out["what_i_ran"] = ("scratch worktree of /repo HEAD: demo (exit %s) -> apply patch -> pytest (%s) -> demo (exit %s); "
                         "then harness/seeded.py (see result.json)" % (out.get("demo_exit_without_change"), out.get("suite_with_change"), out.get("demo_exit_with_change")))
    json.dump(out, open(os.path.join(d, "meta.json"), "w"), indent=1)
    print(sid, "confirmed" if out.get("confirmed") else "NOT CONFIRMED", out.get("suite_with_change"), out.get("demo_exit_without_change"), out.get("demo_exit_with_change"))


main()
