"""Seeded generators shared by several properties (transactions, scripts, mutations)."""
import io
from core import hx

from embit import compact
from embit.script import Script, Witness
from embit.transaction import Transaction, TransactionInput, TransactionOutput

U32 = [0, 1, 2, 0x7FFFFFFF, 0x80000000, 0xFFFFFFFE, 0xFFFFFFFF]
U64 = [0, 1, 546, 2**32 - 1, 2**32, 2**63 - 1, 2**63, 2**64 - 1]
SCRIPT_LENS = [0, 1, 2, 22, 25, 34, 75, 76, 252, 253, 254, 520]
BIG_SCRIPT_LENS = [0xFFFF, 0x10000, 0x10001]


def rbytes(rng, n):
    return bytes(rng.getrandbits(8) for _ in range(n)) if n < 64 else rng.getrandbits(8 * n).to_bytes(n, "little")


def pick_u32(rng):
    return rng.choice(U32) if rng.random() < 0.5 else rng.getrandbits(32)


def pick_u64(rng):
    return rng.choice(U64) if rng.random() < 0.4 else rng.getrandbits(rng.choice([16, 40, 64]))


def gen_script(rng, big=False):
    r = rng.random()
    if big and r < 0.02:
        n = rng.choice(BIG_SCRIPT_LENS)
    elif r < 0.5:
        n = rng.choice(SCRIPT_LENS)
    else:
        n = rng.randrange(0, 80)
    return rbytes(rng, n)


from types import SimpleNamespace as _NS  # noqa: E402


def gen_witness(rng, big=False):
    r = rng.random()
    if r < 0.35:
        return []
    n = rng.choice([1, 2, 2, 3, 5]) if r < 0.97 else rng.choice([252, 253, 300])
    items = []
    for _ in range(n):
        if n > 10:
            items.append(rbytes(rng, rng.randrange(0, 3)))
        else:
            items.append(gen_script(rng, big))
    return items


def gen_tx(rng, segwit=None, big=False, max_in=6, max_out=6):
    """Random well-formed transaction with >= 1 input. segwit: None = random, True/False forced."""
    r = rng.random()
    if big and r < 0.03:
        nin = rng.choice([252, 253, 254, 300])
    else:
        nin = rng.randrange(1, max_in + 1)
    r = rng.random()
    if big and r < 0.03:
        nout = rng.choice([252, 253, 300])
    else:
        nout = rng.randrange(0, max_out + 1)
    if segwit is None:
        segwit = rng.random() < 0.5
    small = nin > 10 or nout > 10
    vin = []
    pvin = []
    for _ in range(nin):
        ss = b"" if (segwit and rng.random() < 0.6) else (rbytes(rng, rng.randrange(3)) if small else gen_script(rng, big))
        w = (gen_witness(rng, big) if not small else ([b"\x01"] if rng.random() < 0.5 else [])) if segwit else []
        txid, n, seq = rbytes(rng, 32), pick_u32(rng), pick_u32(rng)
        vin.append(TransactionInput(txid, n, Script(ss), seq, Witness(w)))
        pvin.append(_NS(txid=txid, vout=n, script_sig=_NS(data=ss), sequence=seq, witness=_NS(items=list(w))))
    vout = []
    pvout = []
    for _ in range(nout):
        sc = rbytes(rng, rng.randrange(3)) if small else gen_script(rng, big)
        val = pick_u64(rng)
        vout.append(TransactionOutput(val, Script(sc)))
        pvout.append(_NS(value=val, script_pubkey=_NS(data=sc)))
    ver, lt = pick_u32(rng), pick_u32(rng)
    tx = Transaction(version=ver, vin=vin, vout=vout, locktime=lt)
    # the values the transaction was generated from, kept apart from embit's objects: tx_tokens / wire_of work on it
    # too, so that what a constructor or parser does to a field is compared with the field, not with itself
    tx.plain = _NS(version=ver, locktime=lt, vin=pvin, vout=pvout,
                   is_segwit=any(len(i.witness.items) > 0 for i in pvin))
    return tx


def tx_tokens(tx):
    t = [str(tx.version), str(tx.locktime), str(len(tx.vin))]
    for i in tx.vin:
        t += [hx(i.txid), str(i.vout), hx(i.script_sig.data), str(i.sequence), str(len(i.witness.items))]
        t += [hx(w) for w in i.witness.items]
    t.append(str(len(tx.vout)))
    for o in tx.vout:
        t += [str(o.value), hx(o.script_pubkey.data)]
    return " ".join(t)


def tx_shape(tx):
    return "in%d/out%d/%s" % (min(len(tx.vin), 7), min(len(tx.vout), 7), "segwit" if tx.is_segwit else "legacy")


# ---- wire-level mutations of a valid encoding -------------------------------------------------

def compact_positions(tx):
    """Offsets (in tx.serialize()) and values of every CompactSize field, by re-walking the encoding."""
    b = wire_of(tx)
    s = io.BytesIO(b)
    pos = []

    def rc():
        # own reader: the harness must not depend on the code under test for its bookkeeping
        p = s.tell()
        c = s.read(1)[0]
        if c < 0xFD:
            v = c
        else:
            v = int.from_bytes(s.read({0xFD: 2, 0xFE: 4, 0xFF: 8}[c]), "little")
        pos.append((p, s.tell() - p, v))
        return v

    s.read(4)
    seg = tx.is_segwit
    if seg:
        s.read(2)
    n = rc()
    for _ in range(n):
        s.read(36)
        l = rc()
        s.read(l)
        s.read(4)
    m = rc()
    for _ in range(m):
        s.read(8)
        l = rc()
        s.read(l)
    if seg:
        for _ in range(n):
            k = rc()
            for _ in range(k):
                l = rc()
                s.read(l)
    return b, pos


def wire_of(tx, witness=True):
    """Bitcoin wire encoding of an embit Transaction used as a field container (own encoder)"""
    seg = witness and any(len(i.witness.items) > 0 for i in tx.vin)
    b = tx.version.to_bytes(4, "little") + (b"\x00\x01" if seg else b"") + cs(len(tx.vin))
    for i in tx.vin:
        d = i.script_sig.data
        b += i.txid[::-1] + i.vout.to_bytes(4, "little") + cs(len(d)) + d + i.sequence.to_bytes(4, "little")
    b += cs(len(tx.vout))
    for o in tx.vout:
        d = o.script_pubkey.data
        b += o.value.to_bytes(8, "little") + cs(len(d)) + d
    if seg:
        for i in tx.vin:
            b += cs(len(i.witness.items)) + b"".join(cs(len(w)) + w for w in i.witness.items)
    return b + tx.locktime.to_bytes(4, "little")


def noncanonical(v, width):
    """Encode v with a longer-than-necessary prefix of the given payload width (2, 4 or 8)."""
    return bytes([{2: 0xFD, 4: 0xFE, 8: 0xFF}[width]]) + v.to_bytes(width, "little")


def mutations(rng, tx, every_offset=False, budget=40):
    """Yield (kind, bytes) wire-level corruptions of tx's encoding."""
    b, pos = compact_positions(tx)
    n = len(b)
    # truncation
    if every_offset and n <= 4096:
        offs = range(n)
    else:
        offs = sorted(set([0, 1, 3, 4, 5, 6, n - 1, n - 2, n - 3, n - 4, n - 5] + [rng.randrange(n) for _ in range(budget // 4)]))
    for k in offs:
        if 0 <= k < n:
            yield ("truncate", b[:k])
    # trailing bytes
    for e in (b"\x00", b"\x01\x02", rbytes(rng, 3)):
        yield ("trailing", b + e)
    # length-prefix re-encoding
    ps = pos if len(pos) <= budget // 2 else rng.sample(pos, budget // 2)
    for (p, w, v) in ps:
        for width in (2, 4, 8):
            if width + 1 > w:
                yield ("noncanonical", b[:p] + noncanonical(v, width) + b[p + w:])
    # superfluous witness section: legacy body wrapped in marker/flag with all-empty witnesses
    legacy = wire_of(tx, witness=False)
    yield ("superfluous-witness", legacy[:4] + b"\x00\x01" + legacy[4:-4] + b"\x00" * len(tx.vin) + legacy[-4:])
    yield ("bad-flag", legacy[:4] + b"\x00\x02" + legacy[4:-4] + b"\x00" * len(tx.vin) + legacy[-4:])
    yield ("zero-inputs", legacy[:4] + b"\x00" + legacy[-4:])
    yield ("zero-inputs-segwit", legacy[:4] + b"\x00\x01\x00\x00" + legacy[-4:])
    # point mutations
    for _ in range(budget // 2):
        k = rng.randrange(n)
        c = bytearray(b)
        c[k] ^= 1 << rng.randrange(8)
        yield ("bitflip", bytes(c))
    for _ in range(budget // 4):
        k = rng.randrange(n)
        c = bytearray(b)
        c[k] = rng.choice([0, 1, 0xFC, 0xFD, 0xFE, 0xFF])
        yield ("byteset", bytes(c))


# ---- independent PSBT byte builder (does not go through embit's PSBT serialiser) --------------------

def cs(n):
    if n < 0xFD:
        return bytes([n])
    if n < 0x10000:
        return b"\xfd" + n.to_bytes(2, "little")
    if n < 0x100000000:
        return b"\xfe" + n.to_bytes(4, "little")
    return b"\xff" + n.to_bytes(8, "little")


def kv(k, v):
    return cs(len(k)) + k + cs(len(v)) + v


def raw_tx(version, vin, vout, locktime):
    """vin: [(txid_display, vout, script_sig, sequence)], vout: [(value, spk)] -> legacy wire bytes"""
    b = version.to_bytes(4, "little") + cs(len(vin))
    for (txid, n, ss, seq) in vin:
        b += txid[::-1] + n.to_bytes(4, "little") + cs(len(ss)) + ss + seq.to_bytes(4, "little")
    b += cs(len(vout))
    for (val, spk) in vout:
        b += val.to_bytes(8, "little") + cs(len(spk)) + spk
    return b + locktime.to_bytes(4, "little")


def build_psbt(tx, version, in_maps=None, out_maps=None, global_extra=(), explicit_seq=True, rng=None):
    """PSBT bytes for an unsigned embit Transaction `tx` (used only as a field container).
    in_maps/out_maps: per scope list of (key, value) pairs to include."""
    nin, nout = len(tx.vin), len(tx.vout)
    in_maps = in_maps or [[] for _ in range(nin)]
    out_maps = out_maps or [[] for _ in range(nout)]
    b = b"psbt\xff"
    if version == 0:
        utx = raw_tx(tx.version, [(i.txid, i.vout, b"", i.sequence) for i in tx.vin],
                     [(o.value, o.script_pubkey.data) for o in tx.vout], tx.locktime)
        b += kv(b"\x00", utx)
    else:
        # PSBT_GLOBAL_TX_VERSION / FALLBACK_LOCKTIME are sometimes left out when the transaction has the values
        # embit assumes for a missing field (version 2, locktime 0): both parsers accept such a PSBT
        if not (tx.version == 2 and rng is not None and rng.random() < 0.5):
            b += kv(b"\x02", tx.version.to_bytes(4, "little"))
        if not (tx.locktime == 0 and rng is not None and rng.random() < 0.5):
            b += kv(b"\x03", tx.locktime.to_bytes(4, "little"))
        b += kv(b"\x04", cs(nin)) + kv(b"\x05", cs(nout))
        b += kv(b"\xfb", (2).to_bytes(4, "little"))
    for (k, v) in global_extra:
        b += kv(k, v)
    b += b"\x00"
    for i, m in zip(tx.vin, in_maps):
        m = list(m)
        if version == 2:
            f = [(b"\x0e", i.txid[::-1]), (b"\x0f", i.vout.to_bytes(4, "little"))]
            if explicit_seq or i.sequence != 0xFFFFFFFF:
                f.append((b"\x10", i.sequence.to_bytes(4, "little")))
            if rng is not None and rng.random() < 0.6:
                # key order inside a scope is free: interleave the transaction fields anywhere, in any order
                rng.shuffle(f)
                for x in f:
                    m.insert(rng.randrange(len(m) + 1), x)
            else:
                m += f
        b += b"".join(kv(k, v) for k, v in m) + b"\x00"
    for o, m in zip(tx.vout, out_maps):
        m = list(m)
        if version == 2:
            f = [(b"\x03", o.value.to_bytes(8, "little")), (b"\x04", o.script_pubkey.data)]
            if rng is not None and rng.random() < 0.6:
                rng.shuffle(f)
                for x in f:
                    m.insert(rng.randrange(len(m) + 1), x)
            else:
                m += f
        b += b"".join(kv(k, v) for k, v in m) + b"\x00"
    return b
