"""Seeded generator of signable PSBTs over small HD wallets (test data built with embit's key classes; scripts,
script codes and PSBT bytes are assembled here, independently of embit's descriptor / PSBT serialiser code)."""
import hashlib

import gen
from gen import cs, kv, rbytes

from embit import ec
from embit.bip32 import HDKey
from embit.hashes import hash160, tagged_hash

H = 0x80000000


def sha256(b):
    return hashlib.sha256(b).digest()


def dsha(b):
    return sha256(sha256(b))


class Wallet:
    def __init__(self, name):
        self.name = name
        self.root = HDKey.from_seed(sha256(b"verif-wallet-" + name.encode()) * 2)
        self.fp = self.root.my_fingerprint

    def key(self, path):
        return self.root.derive(path)


WALLETS = {}


def wallet(name):
    if name not in WALLETS:
        WALLETS[name] = Wallet(name)
    return WALLETS[name]


def deriv_value(fp, path):
    return fp + b"".join(i.to_bytes(4, "little") for i in path)


def push(b):
    assert len(b) < 76
    return bytes([len(b)]) + b


def p2pkh_script(h):
    return b"\x76\xa9\x14" + h + b"\x88\xac"


def tap_leaf_hash(script, ver=0xC0):
    return tagged_hash("TapLeaf", bytes([ver]) + cs(len(script)) + script)


def tap_branch(a, b):
    return tagged_hash("TapBranch", a + b if a < b else b + a)


def make_input(rng, kind, w, others, idx):
    """returns dict describing one spendable output owned (partly) by wallet w and the PSBT pairs for spending it"""
    acct = {"p2pkh": 44, "p2sh-p2wpkh": 49, "p2wpkh": 84, "p2tr": 86, "p2tr-script": 86}.get(kind, 48)
    path = [acct + H, H, H, rng.randrange(2), idx]
    if kind == "p2wpkh" and rng.random() < 0.08:
        path = []       # the master key itself, recorded with an empty derivation path
    k = w.key(path)
    sec = k.sec()
    value = rng.randrange(1000, 10**8)
    keys = []   # (wallet name, path, sec, xonly, leaf) that can sign this input
    pairs = []
    d = {"kind": kind, "value": value, "leaf_scripts": {}}
    legacy_prev = False
    if kind == "p2pkh":
        spk = p2pkh_script(hash160(sec))
        d.update(algo="legacy", scriptcode=spk)
        pairs.append((b"\x06" + sec, deriv_value(w.fp, path)))
        keys.append((w.name, path, sec, None, None))
        legacy_prev = True
    elif kind == "p2wpkh":
        spk = b"\x00\x14" + hash160(sec)
        d.update(algo="segwit", scriptcode=p2pkh_script(hash160(sec)))
        pairs.append((b"\x06" + sec, deriv_value(w.fp, path)))
        keys.append((w.name, path, sec, None, None))
    elif kind == "p2sh-p2wpkh":
        redeem = b"\x00\x14" + hash160(sec)
        spk = b"\xa9\x14" + hash160(redeem) + b"\x87"
        d.update(algo="segwit", scriptcode=p2pkh_script(hash160(sec)))
        pairs += [(b"\x04", redeem), (b"\x06" + sec, deriv_value(w.fp, path))]
        keys.append((w.name, path, sec, None, None))
    elif kind in ("p2wsh-multi", "p2sh-p2wsh-multi", "p2sh-multi", "p2wsh-miniscript"):
        cos = [(w, path)] + [(o, [48 + H, H, H, 2 + H, path[3], idx]) for o in others[:2]]
        secs = [(ww.key(pp).sec(), ww, pp) for ww, pp in cos]
        if kind == "p2wsh-miniscript":
            # and_v(v:pk(A),older(n)) style: <A> CHECKSIGVERIFY <n> CSV ; or or_d(pk(A),and_v(v:pkh(B),after(n)))
            if rng.random() < 0.5 or len(secs) < 2:
                secs = secs[:1]
                ws = push(secs[0][0]) + b"\xad" + b"\x5a\xb2"
            else:
                secs = secs[:2]
                ws = (push(secs[0][0]) + b"\xac\x73\x64" + b"\x76\xa9" + push(hash160(secs[1][0])) + b"\x88\xad"
                      + b"\x02\xe8\x03\xb1\x68")
        else:
            secs.sort(key=lambda x: x[0]) if rng.random() < 0.5 else None
            m = rng.randrange(1, len(secs) + 1)
            ws = bytes([0x50 + m]) + b"".join(push(s) for s, _, _ in secs) + bytes([0x50 + len(secs), 0xAE])
        for s, ww, pp in secs:
            pairs.append((b"\x06" + s, deriv_value(ww.fp, pp)))
            keys.append((ww.name, pp, s, None, None))
        if kind == "p2sh-multi":
            spk = b"\xa9\x14" + hash160(ws) + b"\x87"
            pairs.append((b"\x04", ws))
            d.update(algo="legacy", scriptcode=ws)
            legacy_prev = True
        elif kind == "p2sh-p2wsh-multi":
            redeem = b"\x00\x20" + sha256(ws)
            spk = b"\xa9\x14" + hash160(redeem) + b"\x87"
            pairs += [(b"\x04", redeem), (b"\x05", ws)]
            d.update(algo="segwit", scriptcode=ws)
        else:
            spk = b"\x00\x20" + sha256(ws)
            pairs.append((b"\x05", ws))
            d.update(algo="segwit", scriptcode=ws)
    elif kind == "p2tr":
        xo = k.xonly()
        out = ec.PublicKey.from_xonly(xo).taproot_tweak(b"")
        spk = b"\x51\x20" + out.xonly()
        d.update(algo="taproot")
        pairs += [(b"\x17", xo), (b"\x16" + xo, cs(0) + deriv_value(w.fp, path))]
        keys.append((w.name, path, sec, xo, None))
    elif kind == "p2tr-script":
        # internal key of wallet w; leaves: pk(leafkey of w), pk(leafkey of first other)
        xo = k.xonly()
        leaves = []
        lk = [(w, path[:-1] + [idx + 1000])] + [(o, [86 + H, H, H, 0, idx]) for o in others[:rng.randrange(0, 2)]]
        for ww, pp in lk:
            lx = ww.key(pp).xonly()
            sc = push(lx) + b"\xac"
            leaves.append((sc, lx, ww, pp))
        hashes_ = [tap_leaf_hash(sc) for sc, _, _, _ in leaves]
        root_h = hashes_[0] if len(hashes_) == 1 else tap_branch(hashes_[0], hashes_[1])
        out = ec.PublicKey.from_xonly(xo).taproot_tweak(root_h)
        parity = out.sec()[0] & 1
        spk = b"\x51\x20" + out.xonly()
        d.update(algo="taproot")
        pairs += [(b"\x17", xo), (b"\x18", root_h), (b"\x16" + xo, cs(0) + deriv_value(w.fp, path))]
        keys.append((w.name, path, sec, xo, None))
        for n, (sc, lx, ww, pp) in enumerate(leaves):
            ctrl = bytes([0xC0 + parity]) + xo + (hashes_[1 - n] if len(leaves) == 2 else b"")
            pairs.append((b"\x15" + ctrl, sc + b"\xc0"))
            pairs.append((b"\x16" + lx, cs(1) + hashes_[n] + deriv_value(ww.fp, pp)))
            keys.append((ww.name, pp, ww.key(pp).sec(), lx, (sc, 0xC0, hashes_[n])))
            d["leaf_scripts"][hashes_[n]] = (sc, 0xC0)
    else:
        raise ValueError(kind)
    d.update(spk=spk, keys=keys)
    # previous transaction paying to spk
    prev_vout = rng.randrange(0, 3)
    outs = [(rng.randrange(1, 10**6), gen.gen_script(rng)) for _ in range(prev_vout)] + [(value, spk)] + \
           [(rng.randrange(1, 10**6), gen.gen_script(rng)) for _ in range(rng.randrange(0, 2))]
    prev = gen.raw_tx(2, [(rbytes(rng, 32), rng.randrange(4), rbytes(rng, rng.randrange(0, 30)), 0xFFFFFFFF)], outs, 0)
    d.update(txid=dsha(prev)[::-1], vout=prev_vout)
    # BIP174 allows a segwit v0 input to be described by the full previous transaction alone (no witness_utxo):
    # the digest and the signature must be the BIP143 ones all the same. Taproot inputs always carry witness_utxo.
    only_full_prev = (not legacy_prev) and spk[:1] == b"\x00" or (spk[:1] == b"\xa9" and not legacy_prev)
    only_full_prev = bool(only_full_prev) and not d.get("kind", "").startswith("p2tr") and rng.random() < 0.2
    if legacy_prev or only_full_prev or rng.random() < 0.3:
        pairs.append((b"\x00", prev))
    if not legacy_prev and not only_full_prev:
        pairs.append((b"\x01", value.to_bytes(8, "little") + cs(len(spk)) + spk))
    d["pairs"] = pairs
    return d


KINDS = ["p2pkh", "p2wpkh", "p2sh-p2wpkh", "p2wsh-multi", "p2sh-p2wsh-multi", "p2sh-multi", "p2wsh-miniscript", "p2tr",
         "p2tr-script"]


def gen_signable(rng, max_in=3, kinds=None, flag="random", nin=None):
    """a PSBT (v0 or v2) spending 1..max_in outputs of wallet 'A' (cosigners 'B', 'C'), with optional per-input sighash;
    directed form: kinds = the input kinds to draw from, flag = the per-input sighash type of every input, nin = inputs"""
    w = wallet("A")
    others = [wallet("B"), wallet("C")]
    nin = rng.randrange(1, max_in + 1) if nin is None else nin
    ins = []
    for i in range(nin):
        kind = rng.choice(kinds or KINDS)
        d = make_input(rng, kind, w, others, rng.randrange(0, 50))
        d["seq"] = rng.choice([0xFFFFFFFF, 0xFFFFFFFD, 0, 1])
        d["v2order"] = rng.randrange(3)
        sh = rng.choice([None, None, None, 0, 1, 1, 2, 3, 0x81, 0x82, 0x83])
        if sh == 0 and d["algo"] != "taproot" and rng.random() < 0.7:
            sh = 1
        if flag != "random":
            sh = flag
        d["sighash_type"] = sh
        if sh is not None:
            d["pairs"] = d["pairs"] + [(b"\x03", sh.to_bytes(4, "little"))]
        rng.shuffle(d["pairs"])
        ins.append(d)
    outs = [(rng.randrange(500, 10**6), gen.gen_script(rng) or b"\x51") for _ in range(rng.randrange(1, 4))]
    version = rng.choice([0, 2])
    txver = rng.choice([1, 2])
    locktime = rng.choice([0, 0, 500000])
    return {"version": version, "ins": ins, "outs": outs, "txver": txver, "locktime": locktime}


def psbt_bytes(g):
    version, ins, outs = g["version"], g["ins"], g["outs"]
    b = b"psbt\xff"
    if version == 0:
        b += kv(b"\x00", gen.raw_tx(g["txver"], [(i["txid"], i["vout"], b"", i["seq"]) for i in ins], outs, g["locktime"]))
    else:
        b += kv(b"\x02", g["txver"].to_bytes(4, "little")) + kv(b"\x03", g["locktime"].to_bytes(4, "little"))
        b += kv(b"\x04", cs(len(ins))) + kv(b"\x05", cs(len(outs))) + kv(b"\xfb", (2).to_bytes(4, "little"))
    b += b"\x00"
    for i in ins:
        pairs = list(i["pairs"])
        if version == 2:
            f = [(b"\x0e", i["txid"][::-1]), (b"\x0f", i["vout"].to_bytes(4, "little")), (b"\x10", i["seq"].to_bytes(4, "little"))]
            o = i.get("v2order", 0)
            f = [f[0], f[2], f[1]] if o == 1 else ([f[2], f[0], f[1]] if o == 2 else f)
            pairs = (f + pairs) if o else (pairs + f)
        b += b"".join(kv(k, v) for k, v in pairs) + b"\x00"
    for (val, spk) in outs:
        if version == 2:
            b += kv(b"\x03", val.to_bytes(8, "little")) + kv(b"\x04", spk)
        b += b"\x00"
    return b


def tx_tokens_of(g):
    """token form (harness/gen.py convention) of the unsigned transaction the PSBT describes"""
    from core import hx
    t = [str(g["txver"]), str(g["locktime"]), str(len(g["ins"]))]
    for i in g["ins"]:
        t += [hx(i["txid"]), str(i["vout"]), "-", str(i["seq"]), "0"]
    t.append(str(len(g["outs"])))
    for v, s in g["outs"]:
        t += [str(v), hx(s)]
    return " ".join(t)
