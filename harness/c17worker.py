"""Sacrificial worker for C17: runs parse entry points on hostile inputs under a per-call timer and an address-space
limit and reports (outcome class, seconds, peak traced bytes). Protocol: one JSON request per line on stdin
{"ep": name, "data": hex, "text": bool}; one JSON answer per line. A crash / OOM kill of this process is itself an
outcome ("crash") recorded by the parent."""
import io
import json
import os
import resource
import signal
import sys
import time
import tracemalloc

sys.path.insert(0, os.path.join(os.environ.get("EMBIT_REPO", "/repo"), "src"))
sys.setrecursionlimit(3000)

LIMIT_AS = int(os.environ.get("C17_AS_LIMIT", str(3 * 1024 ** 3)))
resource.setrlimit(resource.RLIMIT_AS, (LIMIT_AS, LIMIT_AS))
TIMEOUT = float(os.environ.get("C17_TIMEOUT", "8"))


class Timeout(BaseException):
    pass


def on_alarm(signum, frame):
    raise Timeout()


signal.signal(signal.SIGALRM, on_alarm)


def entry_points():
    from embit import bech32, base58, bip32, bip39, compact, ec, script, slip39
    from embit.descriptor import Descriptor
    from embit.descriptor.arguments import Key
    from embit.psbt import PSBT, DerivationPath, InputScope, OutputScope
    from embit.psbtview import PSBTView
    from embit.transaction import Transaction, TransactionInput, TransactionOutput
    from embit.script import Script, Witness
    from embit.liquid.transaction import LTransaction
    from embit.liquid.pset import PSET
    from embit.liquid.psetview import PSETView
    from embit.liquid import addresses as laddr

    def walk_view(cls):
        def att(g):
            """one stage of the walk: an ordinary exception ends this stage only, so the later stages are still
            exercised on a stream whose early parts are damaged; anything else (timeout, MemoryError) ends the run"""
            try:
                g()
            except (Timeout, MemoryError, RecursionError):
                raise
            except Exception:
                pass

        def f(b):
            v = cls.view(io.BytesIO(b))
            att(lambda: v.locktime)
            att(lambda: v.tx_version)

            def ins():
                for i in range(min(v.num_inputs, 400)):
                    v.vin(i)
                    v.input(i)

            def outs():
                for j in range(min(v.num_outputs, 400)):
                    v.vout(j)
                    v.output(j)
            att(ins)
            att(outs)
            att(lambda: v.seek_to_scope(min(v.num_inputs + v.num_outputs, 800)))
            out = io.BytesIO()
            if v.num_inputs + v.num_outputs <= 800:
                att(lambda: v.write_to(out))
                # the streaming digests walk the stream again, driven by the counts and length prefixes found in it
                for name in ("hash_prevouts", "hash_sequence", "hash_outputs", "hash_issuances", "hash_rangeproofs"):
                    g = getattr(v, name, None)
                    if g is not None:
                        att(g)
        return f

    class OnlyRead:
        """a stream that offers read() only (a serial line, a socket): no seek / tell to bound a count field with"""
        def __init__(self, b):
            self._s = io.BytesIO(b)

        def read(self, n=-1):
            return self._s.read(n)

    def from_file(fn):
        """the parser on a real buffered file object: its read(n) allocates n bytes before it knows the file is shorter"""
        import tempfile

        def f(b):
            with tempfile.TemporaryFile() as fh:
                fh.write(b)
                fh.seek(0)
                return fn(fh)
        return f

    eps = {
        "script.read_from.file": from_file(Script.read_from),
        "witness.read_from.file": from_file(Witness.read_from),
        "tx.read_from.file": from_file(Transaction.read_from),
        "psbt.read_from.file": from_file(PSBT.read_from),
        "ltx.read_from.file": from_file(LTransaction.read_from),
        "pset.read_from.file": from_file(PSET.read_from),
        "psbt.read_from.noseek": lambda b: PSBT.read_from(OnlyRead(b)),
        "pset.read_from.noseek": lambda b: PSET.read_from(OnlyRead(b)),
        "tx.read_from.noseek": lambda b: Transaction.read_from(OnlyRead(b)),
        "ltx.read_from.noseek": lambda b: LTransaction.read_from(OnlyRead(b)),
        "tx.parse": lambda b: Transaction.parse(b),
        "tx.read_vout": lambda b: Transaction.read_vout(io.BytesIO(b), 0),
        "txin.parse": lambda b: TransactionInput.parse(b),
        "txout.parse": lambda b: TransactionOutput.parse(b),
        "script.parse": lambda b: Script.parse(b),
        "witness.parse": lambda b: Witness.parse(b),
        "compact.from_bytes": lambda b: compact.from_bytes(b),
        "psbt.parse": lambda b: PSBT.parse(b),
        "psbt.parse.c1": lambda b: PSBT.parse(b, compress=1),
        "psbt.parse.c2": lambda b: PSBT.parse(b, compress=2),
        "psbt.in.parse": lambda b: InputScope.parse(b),
        "psbt.out.parse": lambda b: OutputScope.parse(b),
        "psbt.deriv.parse": lambda b: DerivationPath.parse(b),
        "psbtview": walk_view(PSBTView),
        "ltx.parse": lambda b: LTransaction.parse(b),
        "pset.parse": lambda b: PSET.parse(b),
        "pset.parse.c1": lambda b: PSET.parse(b, compress=1),
        "psetview": walk_view(PSETView),
        "pubkey.parse": lambda b: ec.PublicKey.parse(b),
        "sig.parse": lambda b: ec.Signature.parse(b),
        "schnorrsig.parse": lambda b: ec.SchnorrSig.parse(b),
        "hdkey.parse": lambda b: bip32.HDKey.parse(b),
        # text entry points
        "psbt.from_string": lambda s: PSBT.from_string(s),
        "wif": lambda s: ec.PrivateKey.from_wif(s),
        "hdkey.from_string": lambda s: bip32.HDKey.from_string(s),
        "parse_path": lambda s: bip32.parse_path(s),
        "address": lambda s: script.address_to_scriptpubkey(s),
        "laddress": lambda s: laddr.addr_decode(s),
        "bech32.decode": lambda s: bech32.decode(s.split("1")[0] if "1" in s else "bc", s),
        "base58.decode": lambda s: base58.decode(s),
        "base58.decode_check": lambda s: base58.decode_check(s),
        "descriptor": lambda s: Descriptor.from_string(s),
        "desc.key": lambda s: Key.from_string(s),
        "bip39.to_bytes": lambda s: bip39.mnemonic_to_bytes(s),
        "bip39.is_valid": lambda s: bip39.mnemonic_is_valid(s),
        "slip39.share": lambda s: slip39.Share.parse(s),
    }
    return eps


def main():
    eps = entry_points()
    sys.stdout.write(json.dumps({"ready": sorted(eps)}) + "\n")
    sys.stdout.flush()
    tracemalloc.start()
    for line in sys.stdin:
        req = json.loads(line)
        f = eps[req["ep"]]
        data = bytes.fromhex(req["data"])
        arg = data.decode("utf-8", "replace") if req.get("text") else data
        tracemalloc.reset_peak()
        base = tracemalloc.get_traced_memory()[0]
        t0 = time.perf_counter()
        signal.setitimer(signal.ITIMER_REAL, TIMEOUT)
        try:
            f(arg)
            outcome = "value"
        except Timeout:
            outcome = "timeout"
        except MemoryError:
            outcome = "memory"
        except RecursionError:
            outcome = "exception"      # an ordinary exception
        except Exception:
            outcome = "exception"
        except BaseException as e:     # SystemExit, KeyboardInterrupt raised by library code
            outcome = "base-exception:" + type(e).__name__
        finally:
            signal.setitimer(signal.ITIMER_REAL, 0)
        dt = time.perf_counter() - t0
        peak = tracemalloc.get_traced_memory()[1] - base
        sys.stdout.write(json.dumps({"o": outcome, "t": round(dt, 5), "m": max(peak, 0)}) + "\n")
        sys.stdout.flush()


if __name__ == "__main__":
    main()
