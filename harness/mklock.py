"""Rewrites lean/theorems.lock.json from the Props modules every registered check audits (run deliberately after
adding or restating theorems; the checks treat any difference as a broken obligation)."""
import importlib
import json
import os
import sys

sys.path.insert(0, os.path.dirname(os.path.abspath(__file__)))
import core  # noqa: E402


def main():
    lock = {}
    for i in range(1, 21):
        pid = "C%02d" % i
        try:
            mod = importlib.import_module("props.c%02d" % i)
        except Exception as e:  # noqa
            print("skip", pid, e)
            continue
        mods = getattr(mod, "MODS", None) or ["EmbitModel.Props." + pid]
        for m in mods:
            lock[m] = core.audit(m)["statements"]
            if len(lock[m]) != len(core.theorem_names(m)):
                print("WARNING: %s: %d statements for %d theorems" % (m, len(lock[m]), len(core.theorem_names(m))))
    json.dump(lock, open(core.LOCK, "w"), indent=1, sort_keys=True)
    print("locked", sum(len(v) for v in lock.values()), "theorems in", len(lock), "modules")


main()
