"""Probe of embit's native binding layer (embit.util.ctypes_secp256k1) for C20 — DESIGN §1 "Translator for facts".

Every function of the LOADED module that can reach native code is called (twice, with different valid arguments
built from a fixed pool) while
  * the module global `_lock` is replaced by a recording lock, and
  * the module global `_secp` (the ctypes library object) is replaced by a recording proxy that forwards every
    call to the real library.
Recorded per native call: the symbol, whether the calling thread held the library lock, and which buffers the C
function WROTE (content of every `bytes` object / ctypes object reachable from the native arguments, the wrapper's
locals and the caller's arguments is compared before/after the call). Every written buffer is classified:
  callerArg – it is (part of) an argument the caller passed in (documented in-place variants)
  shared    – it is a constant of a code object / a module global / a default value, or the SAME object is written
              again by the second probe call although the first call's buffers are still alive
  fresh     – otherwise (allocated by the call)
For each written buffer the call is repeated with that buffer overwritten at the moment the lock is released (what
another thread's native call could do to a shared buffer): if the function's result changes, the result is still
read from the buffer after the release ("live after release"), otherwise it was copied out (or is unused) before.

`ast` is used only as the completeness cross-check: every `_secp.<symbol>(…)` call site of the module source must
have been executed by the probe; anything else is reported as an undischarged obligation, never skipped."""
import ast
import ctypes
import hashlib
import inspect
import sys
import threading
import types


class ProbeAbort(Exception):
    pass


def H(tag, i=0):
    return hashlib.sha256(("c20/%s/%d" % (tag, i)).encode()).digest()


def clone(x):
    """deep copy with NEW bytes objects (so identity of an argument never recurs between two probe calls)"""
    if isinstance(x, bytes):
        return bytes(bytearray(x)) if len(x) > 1 else x
    if isinstance(x, list):
        return [clone(y) for y in x]
    if isinstance(x, tuple):
        return tuple(clone(y) for y in x)
    if isinstance(x, dict):
        return {k: clone(v) for k, v in x.items()}
    return x


# ---------------------------------------------------------------- value pool (computed with the unpatched module)

def pool(B, i):
    """valid inputs nr. i for every binding function (i = 0, 1, 2 … give different values). Computed with the module's
    own functions under a guard lock (a function that acquires the lock twice raises instead of hanging); an entry that
    cannot be computed is left out (recipes that need it then fail and are reported as unprobed)."""
    P = {}
    P["secret"] = H("secret", i)
    P["secret2"] = H("secret2", i)
    P["tweak"] = H("tweak", i)
    P["msg"] = H("msg", i)
    P["seed"] = H("seed", i)
    P["asset"] = H("asset", i)
    P["asset2"] = H("asset2", i)
    P["abf"] = H("abf", i)
    P["abf_in"] = H("abf_in", i)
    P["vbf"] = H("vbf", i)
    P["vbf2"] = H("vbf2", i)
    P["vbf_in"] = H("vbf_in", i)
    P["value"] = 100000 + 17 * i
    P["nonce"] = H("nonce", i)
    P["spk"] = b"\x00\x14" + H("spk", i)[:20]
    P["message"] = P["asset"] + P["abf"]

    def put(key, f):
        try:
            v = f()
        except (Exception, ProbeAbort):
            return
        if isinstance(key, tuple):
            for k, x in zip(key, v):
                P[k] = clone(x)
        else:
            P[key] = clone(v)

    def c(k):
        return clone(P[k])

    with Installed(B, Recorder(B)):
        put("pub", lambda: B.ec_pubkey_create(c("secret")))
        put("pub2", lambda: B.ec_pubkey_create(c("secret2")))
        put("sec33", lambda: B.ec_pubkey_serialize(c("pub")))
        put("sec65", lambda: B.ec_pubkey_serialize(c("pub"), B.EC_UNCOMPRESSED))
        put("sig", lambda: B.ecdsa_sign(c("msg"), c("secret")))
        put("compact", lambda: B.ecdsa_signature_serialize_compact(c("sig")))
        put("der", lambda: B.ecdsa_signature_serialize_der(c("sig")))
        put("xonly", lambda: B.xonly_pubkey_from_pubkey(c("pub"))[0])
        put("keypair", lambda: B.keypair_create(c("secret")))
        put("schnorr", lambda: B.schnorrsig_sign(c("msg"), c("keypair")))
        put("rsig", lambda: B.ecdsa_sign_recoverable(c("msg"), c("secret")))
        put(("rcompact", "recid"), lambda: B.ecdsa_recoverable_signature_serialize_compact(c("rsig")))
        # zkp
        put("gen", lambda: B.generator_generate_blinded(c("asset"), c("abf")))
        put("gen_in", lambda: B.generator_generate_blinded(c("asset"), c("abf_in")))
        put("gen_plain", lambda: B.generator_generate(c("asset")))
        put("gen33", lambda: B.generator_serialize(c("gen")))
        put("commit", lambda: B.pedersen_commit(c("vbf"), P["value"], c("gen")))
        put("commit33", lambda: B.pedersen_commitment_serialize(c("commit")))
        put("commit_in", lambda: B.pedersen_commit(c("vbf_in"), P["value"], c("gen_in")))
        put("proof", lambda: B.rangeproof_sign(c("nonce"), P["value"], c("commit"), c("vbf"), c("message"), c("spk"),
                                               c("gen")))
        put(("surj_init", "surj_idx"), lambda: B.surjectionproof_initialize([c("asset")], c("asset"), c("seed")))
        put("surj", lambda: B.surjectionproof_generate(c("surj_init"), P["surj_idx"], [c("gen_in")], c("gen"),
                                                       c("abf_in"), c("abf")))
        put("surj_ser", lambda: B.surjectionproof_serialize(c("surj")))
    return P


def _hashfn(x, y, data):
    return hashlib.sha256(b"c20" + x + y).digest()


# name -> list of (variant, function P -> (args tuple, kwargs dict)).  Arguments are cloned by the caller.
RECIPES = {
    "_init": [("", lambda P: ((), {}))],
    "context_randomize": [("", lambda P: ((P["seed"],), {}))],
    "ec_pubkey_create": [("", lambda P: ((P["secret"],), {}))],
    "ec_pubkey_parse": [("", lambda P: ((P["sec33"],), {})), ("uncompressed", lambda P: ((P["sec65"],), {}))],
    "ec_pubkey_serialize": [("", lambda P: ((P["pub"],), {})),
                            ("uncompressed", lambda P: ((P["pub"], 0b0000000010), {}))],
    "ecdsa_signature_parse_compact": [("", lambda P: ((P["compact"],), {}))],
    "ecdsa_signature_parse_der": [("", lambda P: ((P["der"],), {}))],
    "ecdsa_signature_serialize_der": [("", lambda P: ((P["sig"],), {}))],
    "ecdsa_signature_serialize_compact": [("", lambda P: ((P["sig"],), {}))],
    "ecdsa_signature_normalize": [("", lambda P: ((P["sig"],), {}))],
    "ecdsa_verify": [("", lambda P: ((P["sig"], P["msg"], P["pub"]), {}))],
    "ecdsa_sign": [("", lambda P: ((P["msg"], P["secret"]), {})),
                   ("extra", lambda P: ((P["msg"], P["secret"], None, P["tweak"]), {}))],
    "ec_seckey_verify": [("", lambda P: ((P["secret"],), {}))],
    "ec_privkey_negate": [("", lambda P: ((P["secret"],), {}))],
    "ec_pubkey_negate": [("", lambda P: ((P["pub"],), {}))],
    "ec_privkey_tweak_add": [("", lambda P: ((bytearray(P["secret"]), P["tweak"]), {}))],   # in place: needs a mutable buffer since fix c08-kf1
    "ec_pubkey_tweak_add": [("", lambda P: ((bytearray(P["pub"]), P["tweak"]), {}))],
    "ec_privkey_add": [("", lambda P: ((P["secret"], P["tweak"]), {}))],
    "ec_pubkey_add": [("", lambda P: ((P["pub"], P["tweak"]), {}))],
    "ec_privkey_tweak_mul": [("", lambda P: ((P["secret"], P["tweak"]), {}))],
    "ec_pubkey_tweak_mul": [("", lambda P: ((P["pub"], P["tweak"]), {}))],
    "ec_pubkey_combine": [("", lambda P: ((P["pub"], P["pub2"]), {}))],
    "ecdh": [("", lambda P: ((P["pub2"], P["secret"]), {})),
             ("hashfn", lambda P: ((P["pub2"], P["secret"], _hashfn, P["seed"]), {}))],
    "xonly_pubkey_from_pubkey": [("", lambda P: ((P["pub"],), {}))],
    "schnorrsig_verify": [("", lambda P: ((P["schnorr"], P["msg"], P["xonly"]), {}))],
    "keypair_create": [("", lambda P: ((P["secret"],), {}))],
    "schnorrsig_sign": [("", lambda P: ((P["msg"], P["secret"]), {})),
                        ("keypair", lambda P: ((P["msg"], P["keypair"]), {}))],
    "ecdsa_sign_recoverable": [("", lambda P: ((P["msg"], P["secret"]), {}))],
    "ecdsa_recoverable_signature_serialize_compact": [("", lambda P: ((P["rsig"],), {}))],
    "ecdsa_recoverable_signature_parse_compact": [("", lambda P: ((P["rcompact"], P["recid"]), {}))],
    "ecdsa_recoverable_signature_convert": [("", lambda P: ((P["rsig"],), {}))],
    "ecdsa_recover": [("", lambda P: ((P["rsig"], P["msg"]), {}))],
    "pedersen_commitment_parse": [("", lambda P: ((P["commit33"],), {}))],
    "pedersen_commitment_serialize": [("", lambda P: ((P["commit"],), {}))],
    "pedersen_commit": [("", lambda P: ((P["vbf"], P["value"], P["gen"]), {}))],
    "pedersen_blind_generator_blind_sum": [
        ("", lambda P: (([P["value"], P["value"]], [P["abf_in"], P["abf"]], [P["vbf_in"], P["vbf2"]], 1), {}))],
    "pedersen_verify_tally": [("", lambda P: (([P["commit"]], [P["commit"]]), {}))],
    "generator_parse": [("", lambda P: ((P["gen33"],), {}))],
    "generator_generate": [("", lambda P: ((P["asset"],), {}))],
    "generator_generate_blinded": [("", lambda P: ((P["asset"], P["abf"]), {}))],
    "generator_serialize": [("", lambda P: ((P["gen"],), {}))],
    "rangeproof_rewind": [("", lambda P: ((P["proof"], P["nonce"], P["commit"], P["spk"], P["gen"]), {}))],
    "rangeproof_verify": [("", lambda P: ((P["proof"], P["commit"], P["spk"], P["gen"]), {}))],
    "rangeproof_sign": [("", lambda P: ((P["nonce"], P["value"], P["commit"], P["vbf"], P["message"], P["spk"],
                                         P["gen"]), {}))],
    "musig_pubkey_combine": [("", lambda P: ((P["pub"], P["pub2"]), {}))],
    "surjectionproof_initialize": [("", lambda P: (([P["asset"]], P["asset"], P["seed"]), {}))],
    "surjectionproof_generate": [("", lambda P: ((P["surj_init"], P["surj_idx"], [P["gen_in"]], P["gen"],
                                                  P["abf_in"], P["abf"]), {}))],
    "surjectionproof_verify": [("", lambda P: ((P["surj"], [P["gen_in"]], P["gen"]), {}))],
    "surjectionproof_serialize": [("", lambda P: ((P["surj"],), {}))],
    "surjectionproof_parse": [("", lambda P: ((P["surj_ser"],), {}))],
}

# for functions without a recipe (new wrappers): arguments guessed from the parameter names
NAME_HINTS = [
    (("secret", "seckey", "privkey", "scalar", "sk"), "secret"),
    (("tweak", "extra_data", "abf", "vbf", "asset", "seed", "nonce"), "tweak"),
    (("msghash", "msg", "message", "hash", "digest"), "msg"),
    (("compact",), "compact"), (("der",), "der"), (("keypair",), "keypair"),
    (("xonly",), "xonly"), (("sec",), "sec33"), (("sigin", "rsig"), "rsig"), (("sig",), "sig"),
    (("pubkey", "pub", "point"), "pub"), (("gen",), "gen"), (("commit",), "commit"), (("proof",), "proof"),
]


def guess_recipe(func):
    inner = unwrap(func)
    try:
        sig = inspect.signature(inner)
    except (TypeError, ValueError):
        return None
    keys = []
    for p in sig.parameters.values():
        if p.default is not inspect.Parameter.empty or p.kind in (p.VAR_POSITIONAL, p.VAR_KEYWORD, p.KEYWORD_ONLY):
            continue
        nm = p.name.lower()
        for (subs, key) in NAME_HINTS:
            if any(s in nm for s in subs):
                keys.append(key)
                break
        else:
            return None
    return lambda P: (tuple(P[k] for k in keys), {})


def unwrap(func):
    """the function whose code runs under a decorator-made closure (value level: the closure cell)"""
    seen = set()
    f = func
    while isinstance(f, types.FunctionType) and f.__closure__ and id(f) not in seen:
        seen.add(id(f))
        inner = [c.cell_contents for c in f.__closure__ if isinstance(getattr(c, "cell_contents", None), types.FunctionType)]
        if not inner:
            break
        f = inner[0]
    return f


# ---------------------------------------------------------------- recording lock / proxy

class Recorder:
    def __init__(self, B=None):
        self.file = getattr(B, "__file__", None)
        self.call_args = []
        self.events = []        # ("acq",) ("rel",) ("native", sym, held, [bufrec], site)
        self.reentered = False
        self.bad_release = False
        self.hold_written = []  # buffer records written during the current hold
        self.poison_index = None  # index (in order of first write) of the buffer to poison at release
        self.written_order = []   # buffer keys in order of first write
        self.keep = []          # keeps every candidate object of the call alive
        self.bufs = {}          # key -> bufrec
        self.arg_keys = set()
        self.B = None
        self.sites = []         # (code name, firstlineno, lineno) of each native call

    def event(self, *e):
        self.events.append(e)


class RecLock:
    """stands in for `_lock`; records acquire/release; a second acquire by the holder (which would block a real
    threading.Lock forever) is recorded and aborts the probe call"""

    def __init__(self, rec):
        self.rec = rec
        self.owner = None

    def acquire(self, blocking=True, timeout=-1):
        me = threading.get_ident()
        if self.owner == me:
            self.rec.reentered = True
            raise ProbeAbort("the lock holder acquires the lock again (deadlock with threading.Lock)")
        self.owner = me
        self.rec.hold_written = []
        self.rec.event("acq")
        return True

    def release(self):
        if self.owner is None:
            self.rec.bad_release = True
            raise RuntimeError("release unlocked lock")
        # what another thread's native call may do to a buffer it shares, right after the release
        if self.rec.poison_index is not None:
            for br in self.rec.hold_written:
                if br["order"] == self.rec.poison_index:
                    poison(br)
        self.owner = None
        self.rec.event("rel")

    def locked(self):
        return self.owner is not None

    def __enter__(self):
        self.acquire()
        return True

    def __exit__(self, *a):
        self.release()
        return False


def _addr_size(o):
    return ctypes.addressof(o), ctypes.sizeof(o)


def bytes_addr(b):
    return ctypes.cast(ctypes.c_char_p(b), ctypes.c_void_p).value


def poison(br):
    if br["kind"] == "bytes":
        o = br["obj"]
        if len(o):
            ctypes.memset(bytes_addr(o), 0xA5, len(o))
    else:
        ctypes.memset(br["addr"], 0xA5, br["size"])


def candidates(objs, depth=3):
    """buffer-like objects reachable from `objs`: (key, kind, obj, addr, size)"""
    out = {}

    def add(o, d):
        if isinstance(o, (bytes, bytearray)):
            if len(o) == 0:
                return
            out.setdefault(("b", id(o)), ("bytes", o, None, len(o)))
        elif isinstance(o, (list, tuple)) and d > 0:
            for y in o:
                add(y, d - 1)
        elif isinstance(o, dict) and d > 0:
            for y in o.values():
                add(y, d - 1)
        elif isinstance(o, ctypes._Pointer):
            try:
                if o:
                    add(o.contents, d)
            except ValueError:
                pass
        elif isinstance(o, (ctypes._SimpleCData, ctypes.Structure, ctypes.Array, ctypes.Union)):
            if isinstance(o, (ctypes.c_char_p, ctypes.c_void_p)):
                return
            a, s = _addr_size(o)
            out.setdefault(("c", a), ("ctypes", o, a, s))
        elif type(o).__name__ == "CArgObject" and hasattr(o, "_obj"):
            add(o._obj, d)

    for o in objs:
        add(o, depth)
    return out


def snapshot(c):
    kind, o, a, s = c
    if kind == "bytes":
        return bytes(bytearray(o))
    return ctypes.string_at(a, s)


class RecFn:
    def __init__(self, name, real, rec, lock):
        object.__setattr__(self, "_n", name)
        object.__setattr__(self, "_real", real)
        object.__setattr__(self, "_rec", rec)
        object.__setattr__(self, "_lock", lock)

    def __getattr__(self, k):
        return getattr(self._real, k)

    def __setattr__(self, k, v):
        setattr(self._real, k, v)

    def __call__(self, *args):
        rec = self._rec
        me = threading.get_ident()
        held = self._lock.owner == me
        # frames of the binding module between here and the probe driver
        objs = list(args)
        fr = sys._getframe(1)
        site = (fr.f_code.co_name, fr.f_code.co_firstlineno, fr.f_lineno)
        n = 0
        while fr is not None and n < 6:
            if fr.f_code.co_filename == rec.file:
                objs.extend(fr.f_locals.values())
            fr = fr.f_back
            n += 1
        objs.extend(rec.call_args)
        cands = candidates(objs)
        before = {k: snapshot(c) for k, c in cands.items()}
        rec.keep.append(cands)
        try:
            r = self._real(*args)
        finally:
            written = []
            for k, c in cands.items():
                if snapshot(c) != before[k]:
                    br = rec.bufs.get(k)
                    if br is None:
                        kind, o, a, s = c
                        br = {"key": k, "kind": kind, "obj": o, "addr": a, "size": s, "order": len(rec.written_order)}
                        rec.bufs[k] = br
                        rec.written_order.append(k)
                    written.append(br)
                    if br not in rec.hold_written:
                        rec.hold_written.append(br)
            rec.sites.append(site)
            rec.event("native", self._n, held, written, site)
        return r


class RecProxy:
    def __init__(self, real, rec, lock):
        object.__setattr__(self, "_real", real)
        object.__setattr__(self, "_rec", rec)
        object.__setattr__(self, "_lock", lock)

    def __getattr__(self, k):
        v = getattr(self._real, k)
        if callable(v) and not isinstance(v, type) and not k.startswith("_"):
            return RecFn(k, v, self._rec, self._lock)
        return v

    def __setattr__(self, k, v):
        setattr(self._real, k, v)


class CtypesShim:
    """stands in for the module global `ctypes` while `_init`-like functions are probed: libraries they load are
    wrapped by the recording proxy"""

    def __init__(self, real, rec, lock):
        self._real = real
        self._rec = rec
        self._lock = lock
        shim = self

        class _Loader:
            def LoadLibrary(self, path):
                return RecProxy(real.cdll.LoadLibrary(path), rec, lock)

            def __getattr__(self, k):
                return getattr(real.cdll, k)

        self.cdll = _Loader()

    def CDLL(self, *a, **k):
        return RecProxy(self._real.CDLL(*a, **k), self._rec, self._lock)

    def __getattr__(self, k):
        return getattr(self._real, k)


# ---------------------------------------------------------------- one probe call

def const_ids(B):
    """ids of all bytes constants of code objects of the module, module globals and function defaults"""
    ids = {}

    def code_consts(code, where):
        for c in code.co_consts:
            if isinstance(c, (bytes, bytearray)):
                ids[id(c)] = "constant of %s" % where
            elif isinstance(c, types.CodeType):
                code_consts(c, where)
            elif isinstance(c, tuple):
                for y in c:
                    if isinstance(y, bytes):
                        ids[id(y)] = "constant of %s" % where

    for n, v in vars(B).items():
        if isinstance(v, (bytes, bytearray)):
            ids[id(v)] = "module global %s" % n
        elif isinstance(v, (ctypes._SimpleCData, ctypes.Structure, ctypes.Array)):
            ids[("c", ctypes.addressof(v))] = "module global %s" % n
        elif isinstance(v, types.FunctionType) and v.__module__ == B.__name__:
            f = unwrap(v)
            code_consts(f.__code__, n)
            if f is not v:
                code_consts(v.__code__, n)
            for d in (f.__defaults__ or ()) + tuple((f.__kwdefaults__ or {}).values()):
                if isinstance(d, (bytes, bytearray)):
                    ids[id(d)] = "default value of %s" % n
    return ids


def canon(x):
    """value of a result, copied (bytes are read here)"""
    if isinstance(x, (bytes, bytearray)):
        b = bytes(bytearray(x))
        if len(b) > 80:
            return ("b", len(b), hashlib.sha256(b).hexdigest()[:32])
        return ("b", b.hex())
    if isinstance(x, (list, tuple)):
        return tuple(canon(y) for y in x)
    if isinstance(x, (int, bool, str, float)) or x is None:
        return x
    if isinstance(x, RecProxy):
        return "<library>"
    if isinstance(x, (ctypes._SimpleCData,)):
        return ("c", x.value)
    return "<%s>" % type(x).__name__


class Installed:
    """context manager: `_lock` -> RecLock, `_secp` -> RecProxy (and `ctypes` -> shim) in the module globals"""

    def __init__(self, B, rec):
        self.B = B
        self.rec = rec

    def __enter__(self):
        B = self.B
        self.saved = {k: getattr(B, k) for k in ("_lock", "_secp", "ctypes") if hasattr(B, k)}
        if "_lock" not in self.saved or "_secp" not in self.saved:
            raise ProbeAbort("module has no `_lock` / `_secp` global")
        self.lock = RecLock(self.rec)
        B._lock = self.lock
        B._secp = RecProxy(self.saved["_secp"], self.rec, self.lock)
        if "ctypes" in self.saved:
            B.ctypes = CtypesShim(self.saved["ctypes"], self.rec, self.lock)
        return self

    def __exit__(self, *a):
        for k, v in self.saved.items():
            setattr(self.B, k, v)
        return False


def call_once(B, func, args, kwargs, poison_index=None, keep=None):
    """-> dict(events, result, error, reentered, bufs). `args` must be freshly cloned."""
    rec = Recorder(B)
    rec.call_args = [args, kwargs]
    rec.poison_index = poison_index
    err = None
    res = None
    with Installed(B, rec) as inst:
        try:
            res = func(*args, **kwargs)
        except ProbeAbort as e:
            err = "abort: %s" % e
        except Exception as e:  # the function may legitimately raise; native calls made so far stay recorded
            err = "%s: %s" % (type(e).__name__, e)
        held_at_end = inst.lock.owner is not None
    value = (canon(res), canon(args), canon(kwargs), err)
    if keep is not None:
        keep.append((rec.keep, res, args, kwargs))
    return {"events": rec.events, "value": value, "error": err, "reentered": rec.reentered,
            "bad_release": rec.bad_release, "held_at_end": held_at_end, "order": rec.written_order,
            "bufs": rec.bufs, "arg_ids": {k for k in candidates([args, kwargs])}}


def probe_variant(B, name, func, mk, P0, P1, consts):
    """two calls with different inputs (buffers of the first kept alive) + one poisoned call per written buffer.
    -> dict describing the abstract steps"""
    keep = []
    a0, k0 = clone(mk(P0))
    r0 = call_once(B, func, a0, k0, keep=keep)
    a1, k1 = clone(mk(P1))
    r1 = call_once(B, func, a1, k1, keep=keep)
    natives0 = [e for e in r0["events"] if e[0] == "native"]
    # classify the buffers of call 0
    keys1 = set(r1["bufs"].keys())
    info = {}
    for k in r0["order"]:
        br = r0["bufs"][k]
        why = None
        if k in r0["arg_ids"]:
            origin = "callerArg"
        else:
            cid = k[1] if k[0] == "b" else k
            if cid in consts:
                origin, why = "shared", consts[cid]
            elif k in keys1:
                origin, why = "shared", "the same object is written again by the next call"
            else:
                origin = "fresh"
        info[k] = {"origin": origin, "why": why, "kind": br["kind"], "size": br["size"], "order": br["order"],
                   "live": False}
    # which buffers does the result still depend on after the release?
    for k in r0["order"]:
        ap, kp = clone(mk(P0))
        rp = call_once(B, func, ap, kp, poison_index=info[k]["order"], keep=keep)
        info[k]["live"] = rp["value"] != r0["value"]
    # abstract steps
    steps = []
    hold = None          # list of buffer keys written in the current hold
    pending_live = []
    for e in r0["events"]:
        if e[0] == "acq":
            hold = []
            steps.append(("acq",))
        elif e[0] == "rel":
            for k in (hold or []):
                if not info[k]["live"]:
                    steps.append(("read", k))
                elif k not in pending_live:
                    pending_live.append(k)
            hold = None
            steps.append(("rel",))
        else:
            _, sym, held, written, site = e
            ks = [br["key"] for br in written]
            steps.append(("native", sym, held, ks, site))
            if hold is not None:
                for k in ks:
                    if k not in hold:
                        hold.append(k)
            else:
                for k in ks:
                    if k not in pending_live:
                        pending_live.append(k)
    for k in pending_live:
        steps.append(("read", k))
    same_shape = [(e[0], e[1] if e[0] == "native" else None, e[2] if e[0] == "native" else None) for e in r0["events"]] == \
                 [(e[0], e[1] if e[0] == "native" else None, e[2] if e[0] == "native" else None) for e in r1["events"]]
    return {"name": name, "steps": steps, "bufs": info, "natives": [(e[1], e[2], e[4]) for e in natives0],
            "sites": [e[4] for e in natives0] + [e[4] for e in r1["events"] if e[0] == "native"],
            "reentered": r0["reentered"] or r1["reentered"], "bad_release": r0["bad_release"] or r1["bad_release"],
            "held_at_end": r0["held_at_end"] or r1["held_at_end"], "error": r0["error"] or r1["error"],
            "same_shape": same_shape, "keep": keep}


# ---------------------------------------------------------------- completeness cross-check (ast)

LIB_NAMES = ("_secp",)


def native_call_sites(B):
    """(innermost def name, outermost def name, call lineno, call end lineno, symbol) for every `_secp.<sym>(…)` call in
    the module source, and for calls on a library object loaded inside a function
    (`x = ctypes.cdll.LoadLibrary(…)`; `x.sym(…)`). Owner `<module>` = executed at import."""
    tree = ast.parse(inspect.getsource(B))
    sites = []

    def lib_locals(fn):
        names = set()
        for n in ast.walk(fn):
            if isinstance(n, ast.Assign) and isinstance(n.value, ast.Call):
                t = ast.unparse(n.value.func)
                if "LoadLibrary" in t or t.endswith("CDLL"):
                    for tg in n.targets:
                        if isinstance(tg, ast.Name):
                            names.add(tg.id)
        return names

    class V(ast.NodeVisitor):
        def __init__(self):
            self.stack = ["<module>"]
            self.libs = [set(LIB_NAMES)]

        def visit_FunctionDef(self, node):
            for d in node.decorator_list + node.args.defaults + [x for x in node.args.kw_defaults if x is not None]:
                self.visit(d)           # evaluated in the enclosing scope
            self.stack.append(node.name)
            self.libs.append(self.libs[-1] | lib_locals(node))
            for st in node.body:
                self.visit(st)
            self.stack.pop()
            self.libs.pop()

        visit_AsyncFunctionDef = visit_FunctionDef

        def visit_Lambda(self, node):
            self.generic_visit(node)

        def visit_Call(self, n):
            if isinstance(n.func, ast.Attribute) and isinstance(n.func.value, ast.Name) \
                    and n.func.value.id in self.libs[-1]:
                top = self.stack[1] if len(self.stack) > 1 else "<module>"
                sites.append((self.stack[-1], top, n.lineno, n.end_lineno, n.func.attr))
            self.generic_visit(n)

    V().visit(tree)
    return sites


# ---------------------------------------------------------------- what happens at import (module level)

IMPORT_PROBE = r'''
import sys, json, threading, ctypes
events = []
made = []

class RL:
    def __init__(self):
        self.owner = False
        made.append(self)
    def acquire(self, blocking=True, timeout=-1):
        if self.owner:
            events.append({"e": "reacquire", "lock": id(self)})
            raise RuntimeError("lock acquired twice during import")
        self.owner = True
        events.append({"e": "acq", "lock": id(self)})
        return True
    def release(self):
        self.owner = False
        events.append({"e": "rel", "lock": id(self)})
    def locked(self):
        return self.owner
    def __enter__(self):
        self.acquire(); return True
    def __exit__(self, *a):
        self.release(); return False

class Fn:
    def __init__(self, n, real):
        object.__setattr__(self, "_n", n); object.__setattr__(self, "_real", real)
    def __getattr__(self, k): return getattr(self._real, k)
    def __setattr__(self, k, v): setattr(self._real, k, v)
    def __call__(self, *a):
        fr = sys._getframe(1)
        events.append({"e": "native", "sym": self._n, "held": [id(l) for l in made if l.owner],
                       "func": fr.f_code.co_name, "line": fr.f_lineno, "file": fr.f_code.co_filename})
        return self._real(*a)

class Lib:
    def __init__(self, real): object.__setattr__(self, "_real", real)
    def __getattr__(self, k):
        v = getattr(self._real, k)
        if callable(v) and not isinstance(v, type) and not k.startswith("_"):
            return Fn(k, v)
        return v
    def __setattr__(self, k, v): setattr(self._real, k, v)

import ctypes.util, platform, os          # imported by the module anyway: keep their own locks real
real_Lock = threading.Lock
real_load = ctypes.cdll.LoadLibrary
real_CDLL = ctypes.CDLL
threading.Lock = RL
ctypes.cdll.LoadLibrary = lambda path: Lib(real_load(path))
try:
    import embit.util.ctypes_secp256k1 as B
finally:
    threading.Lock = real_Lock
    ctypes.cdll.LoadLibrary = real_load
lock = getattr(B, "_lock", None)
print(json.dumps({"events": events, "lock": id(lock) if isinstance(lock, RL) else None, "file": B.__file__}))
'''


def probe_import(B):
    """import the binding module in a fresh interpreter with `threading.Lock` and the library loader recording:
    which native calls run at import time and whether the library's lock is held -> a record named `<import>`"""
    import json
    import os
    import subprocess
    src_root = os.path.dirname(os.path.dirname(os.path.dirname(os.path.abspath(B.__file__))))
    env = dict(os.environ, PYTHONPATH=src_root)
    p = subprocess.run([sys.executable, "-W", "ignore", "-c", IMPORT_PROBE], capture_output=True, text=True, env=env,
                       timeout=120)
    line = [l for l in p.stdout.split("\n") if l.startswith("{")]
    if p.returncode != 0 or not line:
        raise ProbeAbort("import probe failed: " + (p.stderr or p.stdout)[-300:])
    d = json.loads(line[-1])
    if d["lock"] is None:
        raise ProbeAbort("import probe: the module's `_lock` is not a threading.Lock() made at import")
    steps = []
    natives = []
    reentered = False
    for e in d["events"]:
        if e["e"] == "reacquire" and e["lock"] == d["lock"]:
            reentered = True
        elif e["e"] in ("acq", "rel") and e["lock"] == d["lock"]:
            steps.append((e["e"],))
        elif e["e"] == "native":
            held = d["lock"] in e["held"]
            site = (e["func"], 0, e["line"])
            steps.append(("native", e["sym"], held, [], site))
            natives.append((e["sym"], held, site))
    held_at_end = sum(1 if s[0] == "acq" else -1 for s in steps if s[0] in ("acq", "rel")) != 0
    return {"name": "<import>", "steps": steps, "bufs": {}, "natives": natives, "sites": [n[2] for n in natives],
            "reentered": reentered, "bad_release": False, "held_at_end": held_at_end, "error": None,
            "same_shape": True, "keep": [], "probed": True, "guessed": False}


# ---------------------------------------------------------------- the whole module

def module_functions(B):
    return [(n, v) for n, v in vars(B).items()
            if isinstance(v, types.FunctionType) and v.__module__ == B.__name__]


def probe_module(B=None):
    """-> dict(fns=[records], unprobed=[(what)], sites=...)"""
    if B is None:
        import embit.util.ctypes_secp256k1 as B
    P0, P1 = pool(B, 0), pool(B, 1)
    consts = const_ids(B)
    sites = native_call_sites(B)
    site_defs = {}
    for (dn, top, l0, l1, sym) in sites:
        site_defs.setdefault(dn, []).append((l0, l1, sym))
        site_defs.setdefault(top, []).append((l0, l1, sym))
    records = []
    hit = []
    obligations = []
    shared_index = {}
    for (name, func) in module_functions(B):
        inner = unwrap(func)
        mentions = name in site_defs or inner.__name__ in site_defs
        recipes = RECIPES.get(name)
        guessed = False
        if recipes is None:
            if not mentions:
                continue            # helper that cannot reach native code by itself (locked, _copy, _find_library)
            g = guess_recipe(func)
            if g is None:
                obligations.append("function %s reaches native code but the probe has no valid arguments for it" % name)
                records.append({"name": name, "probed": False, "steps": [], "bufs": {}, "natives": [],
                                "reentered": False, "error": "no recipe"})
                continue
            recipes = [("", g)]
            guessed = True
        for (variant, mk) in recipes:
            nm = name if not variant else "%s:%s" % (name, variant)
            try:
                r = probe_variant(B, nm, func, mk, P0, P1, consts)
            except Exception as e:
                obligations.append("probe of %s failed: %s: %s" % (nm, type(e).__name__, e))
                records.append({"name": nm, "probed": False, "steps": [], "bufs": {}, "natives": [],
                                "reentered": False, "error": str(e)})
                continue
            r["probed"] = True
            r["guessed"] = guessed
            if mentions and not r["natives"]:
                r["probed"] = False
                obligations.append("probe call of %s did not reach its native call%s" %
                                   (nm, " (%s)" % r["error"] if r["error"] else ""))
            if not r["same_shape"]:
                obligations.append("%s: the two probe calls took different lock/native paths" % nm)
            hit.extend(r["sites"])
            records.append(r)
    # module level: what runs at import
    try:
        r = probe_import(B)
        hit.extend(r["sites"])
        import_sites = {(s[0], s[2]) for s in r["sites"]}
        records.insert(0, r)
    except Exception as e:
        import_sites = set()
        obligations.append("import of the module could not be probed: %s" % e)
    # global numbering of shared buffers (by identity, across functions)
    for r in records:
        for k, b in r["bufs"].items():
            if b["origin"] == "shared":
                shared_index.setdefault(k, len(shared_index))
    # completeness: every call site executed?
    hit_lines = {(s[0], s[2]) for s in hit}
    unhit = []
    for (dn, top, l0, l1, sym) in sites:
        if dn == "<module>":
            if not any(h[0] == "<module>" and l0 <= h[1] <= l1 for h in import_sites):
                unhit.append((dn, l0, sym))
                obligations.append("module-level native call %s at line %d was not executed by the import probe" % (sym, l0))
            continue
        if not any(h[0] == dn and l0 <= h[1] <= l1 for h in hit_lines):
            unhit.append((dn, l0, sym))
            obligations.append("native call site %s (line %d, in def %s) was not executed by the probe" % (sym, l0, dn))
    return {"records": records, "obligations": obligations, "shared_index": shared_index, "sites": sites,
            "unhit": unhit, "file": B.__file__}


def summarize(r, shared_index):
    """record -> plain facts (name, callsNative, nativeUnderLock, outBuffersFresh, copiesBeforeRelease, steps…)"""
    steps = []
    local_idx = {}

    def buf(k):
        b = r["bufs"][k]
        if b["origin"] == "shared":
            return ("shared", shared_index[k])
        return (b["origin"], local_idx.setdefault(k, len(local_idx)))

    for s in r["steps"]:
        if s[0] in ("acq", "rel"):
            steps.append(s)
        elif s[0] == "native":
            steps.append(("native", s[1], bool(s[2]), [buf(k) for k in s[3]]))
        else:
            steps.append(("read", buf(s[1])))
    natives = r["natives"]
    return {
        "name": r["name"],
        "probed": bool(r.get("probed")),
        "callsNative": bool(natives),
        "nativeUnderLock": all(h for (_, h, _) in natives) and not r.get("held_at_end") and not r.get("bad_release"),
        "outBuffersFresh": all(b["origin"] != "shared" for b in r["bufs"].values()),
        "copiesBeforeRelease": all(not b["live"] for b in r["bufs"].values() if b["origin"] == "shared"),
        "lockReentered": bool(r.get("reentered")),
        "steps": steps,
        "unlocked": [(sym, site) for (sym, h, site) in natives if not h],
        "shared": [(b["kind"], b["size"], b["why"], b["live"]) for b in r["bufs"].values() if b["origin"] == "shared"],
        "error": r.get("error"),
    }
