"""Independent enumeration of embit's native binding layer (audit2 A-7 / part2-C19-C20 X4, first-audit J1/J2).

`harness/bindprobe.py` decides WHICH functions of embit.util.ctypes_secp256k1 get a record in Generated/BindingFacts.lean
(`vars(B)` filtered by `__module__`, kept when a recipe exists or the AST shows a literal `_secp.<sym>(...)` call). Nothing
bounded that table from below. This module enumerates the same layer by routes the probe does not use and writes
Generated/BindingNames.lean; Props/C20Complete.lean proves that every enumerated function that can reach the library has a
probed record, and restates the facts obligations over the ENUMERATION. It never looks at the probe's records.

  route A (loaded objects + bytecode): `dir(B)` / `getattr`, kept when `inspect.isfunction` and the code object's file
     is the module's file (a decorator-made closure counts under the public name it is bound to). For each one: every
     code object reachable from it (nested code constants, closure cells, `__wrapped__`, function defaults) and from
     these the global / attribute names loaded (`co_names`) and string constants.  `usesLib` = one of those names is bound
     in the LOADED module to the library object itself, to another ctypes library or to a ctypes function pointer (value
     level: `lib2 = _secp` at module level and `_f = _secp.secp256k1_x` are seen), or the string "_secp" occurs (getattr /
     globals() access), or it loads a shared library itself (`LoadLibrary`, `CDLL`, ...: `_init`). `refs` = module functions whose name is loaded. Lean computes reachability over this call graph.
  route B (source, ast): every top-level `def` whose BODY mentions the name `_secp` in any form (`_secp.f(...)`,
     `lib = _secp`, `getattr(_secp, ...)`; defaults and decorators are not body), and the module functions called by
     module-level statements (what runs at import).
"""
import ast
import ctypes
import inspect
import os
import types

LIB_GLOBAL = "_secp"
# a function that loads a shared library itself (`_init`: `ctypes.cdll.LoadLibrary(path)`) reaches native code too
LOADER_NAMES = {"LoadLibrary", "CDLL", "PyDLL", "cdll", "pydll", "dlopen"}


def _same_file(a, b):
    try:
        return os.path.samefile(a, b)
    except OSError:
        return a == b


def _codes_of(f):
    """every code object reachable from function f, plus the functions found on the way"""
    codes, fns, stack, seen = [], [], [f], set()
    while stack:
        x = stack.pop()
        if id(x) in seen:
            continue
        seen.add(id(x))
        if isinstance(x, types.CodeType):
            codes.append(x)
            for c in x.co_consts:
                if isinstance(c, types.CodeType):
                    stack.append(c)
        elif isinstance(x, types.FunctionType):
            fns.append(x)
            stack.append(x.__code__)
            for cell in (x.__closure__ or ()):
                try:
                    v = cell.cell_contents
                except ValueError:
                    continue
                if isinstance(v, (types.FunctionType, types.MethodType)):
                    stack.append(v)
            w = getattr(x, "__wrapped__", None)
            if w is not None:
                stack.append(w)
            for d in (x.__defaults__ or ()) + tuple((x.__kwdefaults__ or {}).values()):
                if isinstance(d, (types.FunctionType, types.MethodType)):
                    stack.append(d)
        elif isinstance(x, types.MethodType):
            stack.append(x.__func__)
    return codes, fns


def _strings(code):
    out = set()
    for c in code.co_consts:
        if isinstance(c, str):
            out.add(c)
        elif isinstance(c, (tuple, frozenset)):
            out.update(y for y in c if isinstance(y, str))
    return out


def _is_lib_value(v, lib):
    if v is lib and lib is not None:
        return True
    if isinstance(v, ctypes.CDLL):
        return True
    if isinstance(v, ctypes._CFuncPtr):
        return True
    # a stand-in installed by a probe that is running (bindprobe.RecProxy) is still "the library"
    return type(v).__name__ in ("RecProxy", "RecFn")


def enumerate_loaded(B):
    """route A -> [(public name, usesLib, [module functions referred to])], sorted by name"""
    path = getattr(B, "__file__", None)
    lib = getattr(B, LIB_GLOBAL, None)
    fnames = []
    for n in dir(B):
        try:
            v = getattr(B, n)
        except Exception:
            continue
        if inspect.isfunction(v) and path and _same_file(v.__code__.co_filename, path):
            fnames.append(n)
    libnames = {LIB_GLOBAL}
    for n, v in vars(B).items():
        if _is_lib_value(v, lib):
            libnames.add(n)
    rows = []
    for n in sorted(fnames):
        codes, _ = _codes_of(getattr(B, n))
        names, strs = set(), set()
        for co in codes:
            names.update(co.co_names)
            names.update(co.co_freevars)
            strs.update(_strings(co))
        uses = bool(names & libnames) or LIB_GLOBAL in strs or bool(names & LOADER_NAMES)
        refs = sorted(m for m in fnames if m != n and (m in names or m in strs))
        rows.append((n, uses, refs))
    return rows


def enumerate_source(B):
    """route B -> (top-level defs whose body mentions `_secp`, module functions called at module level)"""
    tree = ast.parse(inspect.getsource(B))
    tops = []

    def top_defs(node):
        for ch in ast.iter_child_nodes(node):
            if isinstance(ch, (ast.FunctionDef, ast.AsyncFunctionDef)):
                tops.append(ch)
            elif isinstance(ch, (ast.If, ast.Try, ast.With, ast.For, ast.While)):
                top_defs(ch)
            elif hasattr(ast, "TryStar") and isinstance(ch, getattr(ast, "TryStar")):
                top_defs(ch)
    top_defs(tree)
    secp_defs = []
    for fd in tops:
        hit = False
        for st in fd.body:
            for x in ast.walk(st):
                if isinstance(x, ast.Name) and x.id == LIB_GLOBAL:
                    hit = True
                elif isinstance(x, ast.Constant) and x.value == LIB_GLOBAL:
                    hit = True
        if hit:
            secp_defs.append(fd.name)
    defnames = {fd.name for fd in tops}
    called = []

    class V(ast.NodeVisitor):
        def visit_FunctionDef(self, node):
            for d in node.decorator_list + node.args.defaults + [x for x in node.args.kw_defaults if x is not None]:
                self.visit(d)      # evaluated at import

        visit_AsyncFunctionDef = visit_FunctionDef

        def visit_Lambda(self, node):
            pass

        def visit_Call(self, n):
            if isinstance(n.func, ast.Name) and n.func.id in defnames and n.func.id not in called:
                called.append(n.func.id)
            self.generic_visit(n)

    V().visit(tree)
    return sorted(set(secp_defs)), sorted(called)


def reach(rows):
    """the closure Lean computes (used by the harness for messages and the search only)"""
    uses = {n for (n, u, _) in rows if u}
    changed = True
    while changed:
        changed = False
        for (n, _, refs) in rows:
            if n not in uses and any(r in uses for r in refs):
                uses.add(n)
                changed = True
    return uses


def _s(x):
    return '"' + x.replace("\\", "\\\\").replace('"', '\\"') + '"'


def lean_text(B):
    rows = enumerate_loaded(B)
    secp_defs, import_calls = enumerate_source(B)
    r = reach(rows)
    exempt = [n for (n, _, _) in rows if n not in r]
    out = ["/-",
           "  GENERATED by harness/facts.py (generator \"bindingnames\", code in harness/bindnames.py) from the LOADED module",
           "  embit.util.ctypes_secp256k1 - do not edit. An enumeration of the binding layer that is INDEPENDENT of the probe",
           "  behind Generated/BindingFacts.lean (audit2 A-7): `callGraph` from dir() of the module and the bytecode of every",
           "  function defined there (public name, does its code load the library object / a function pointer of it, which",
           "  module functions does it refer to); `secpDefs` from the source: every top-level def whose body mentions `_secp`;",
           "  `importCalls`: module functions called by module-level statements. Props/C20Complete.lean proves that every",
           "  function that reaches the library in this graph has a probed record in `Gen.Binding.bindingFns`.",
           "-/",
           "namespace Embit.Gen.BindingNames",
           "",
           "/-- (function, its code loads the library, module functions it refers to) — route A, sorted by name -/",
           "def callGraph : List (String × Bool × List String) := ["]
    out.append(",\n".join("  (%s, %s, [%s])" % (_s(n), "true" if u else "false", ", ".join(_s(x) for x in refs))
                          for (n, u, refs) in rows))
    out.append("]")
    out.append("")
    out.append("/-- top-level defs whose body mentions `_secp` — route B (ast), sorted -/")
    out.append("def secpDefs : List String := [%s]" % ", ".join(_s(x) for x in secp_defs))
    out.append("")
    out.append("/-- module functions called by module-level statements (run at import) — route B -/")
    out.append("def importCalls : List String := [%s]" % ", ".join(_s(x) for x in import_calls))
    out.append("")
    out.append("/-- EXEMPT from the demand \"has a probed record\": functions of the module that cannot reach the library - their")
    out.append("    code neither loads the library object nor refers (transitively) to a module function that does. The reason")
    out.append("    is not trusted: `Props.C20.exempt_exactly_the_unreaching` recomputes it from `callGraph`. -/")
    out.append("def exempt : List (String × String) := [")
    out.append(",\n".join("  (%s, \"no code object reachable from it loads `_secp` (or an alias / function pointer of the "
                          "library), nor the name of a module function that does\")" % _s(n) for n in exempt))
    out.append("]")
    out += ["", "end Embit.Gen.BindingNames", ""]
    return "\n".join(out), {"rows": rows, "secp_defs": secp_defs, "import_calls": import_calls, "exempt": exempt,
                            "reach": sorted(r)}
