"""C08 — the pure-python secp256k1 fallback is interchangeable with libsecp256k1.

Theorems: lean/EmbitModel/Props/C08.lean (`py_eq_contract_*`: the model of py_secp256k1 equals the contract of the
wrapped libsecp256k1 function for ALL byte arguments; `verdict_agree` for arbitrary DER encodings).
Three ties, every run, same generated operands:
  (i)   Lean model `py.<fn>`        vs  embit.util.py_secp256k1       (the model is the code)
  (ii)  Lean contract `contract.<fn>` vs embit.util.ctypes_secp256k1  (my reading of secp256k1.h is the library)
  (iii) py_secp256k1 vs ctypes_secp256k1 directly — the property itself; a difference is a failing input.
Calls run in a sacrificial worker process (libsecp256k1 abort()s on some illegal arguments): "crash" is an
outcome class and never equals an ordinary exception."""
import json
import os

from core import Check, hx, VERIF
import secpworker
from props import c08_pycurve

PROP = "C08"
MODS = ["EmbitModel.Props.C08", "EmbitModel.Props.C08X", "EmbitModel.Props.C08Y", "EmbitModel.Props.C08Z", "EmbitModel.Props.C08W",
        "EmbitModel.Props.C08V"]

N = 0xFFFFFFFFFFFFFFFFFFFFFFFFFFFFFFFEBAAEDCE6AF48A03BBFD25E8CD0364141
P = 2**256 - 2**32 - 977
BOUND = [0, 1, 2, N - 2, N - 1, N, N + 1, (N - 1) // 2, (N + 1) // 2, P - 1, P, P + 1, 2**256 - 1, P - N, P - N - 1]
NAMES = {0: "0", 1: "1", 2: "2", N - 2: "n-2", N - 1: "n-1", N: "n", N + 1: "n+1", (N - 1) // 2: "(n-1)/2",
         (N + 1) // 2: "(n+1)/2", P - 1: "p-1", P: "p", P + 1: "p+1", 2**256 - 1: "2^256-1", P - N: "p-n",
         P - N - 1: "p-n-1"}
EC_COMPRESSED = 258
EC_UNCOMPRESSED = 2


def be(x):
    return x.to_bytes(32, "big")


def le(x):
    return x.to_bytes(32, "little")


def tokens(args):
    out = []
    for a in args:
        if a is None:
            out.append("None")
        elif isinstance(a, int):
            out.append(str(a))
        else:
            out.append(hx(bytes(a)))
    return " ".join(out)


class Ctx:
    """One run: worker, pools, bookkeeping."""

    def __init__(self, c):
        self.c = c
        self.w = secpworker.Worker()
        self.rng = c.rng
        self.pubs = {}     # secret int -> 64-byte struct (made with py in the worker)
        self.bad_pubs = []

    # ----- operand pools
    def scalar(self, valid=False):
        r = self.rng.random()
        if valid:
            return self.rng.choice([1, 2, N - 2, N - 1, (N - 1) // 2, (N + 1) // 2]) if r < 0.4 else self.rng.randrange(1, N)
        if r < 0.55:
            return self.rng.choice(BOUND)
        if r < 0.65:
            return self.rng.randrange(N, 2**256)
        return self.rng.randrange(0, N)

    def pub(self, k):
        if k not in self.pubs:
            r = self.w.run("ct", "ec_pubkey_create", [be(k)])
            assert r.startswith("ok "), r
            self.pubs[k] = bytes.fromhex(r[3:])
        return self.pubs[k]

    def any_pub(self):
        """valid structure (boundary keys, odd / even Y) or an invalid one"""
        r = self.rng.random()
        if r < 0.75:
            return self.pub(self.scalar(valid=True))
        if not self.bad_pubs:
            g = self.pub(1)
            x, y = int.from_bytes(g[:32], "little"), int.from_bytes(g[32:], "little")
            small = self.pub_small_x()
            self.bad_pubs = [bytes(64), le(1) + le(1), b"\xff" * 64, le(x) + le(y ^ 1), le(x) + le(0), le(0) + le(y),
                             le(small[0] + P) + le(small[1]), le(P) + le(1), le(x) + le(P - y)[:31] + b"\xff"]
        return self.rng.choice(self.bad_pubs)

    def pub_small_x(self):
        # x = 1 is on the curve (y^2 = 8): the only kind of point whose x + p still fits 32 bytes
        y = pow(8, (P + 1) // 4, P)
        assert y * y % P == 8
        return (1, y)

    # ----- one case
    def case(self, fn, args, inplace=False, note=""):
        c = self.c
        I = self.w.run("py", fn, args, inplace)
        C = self.w.run("ct", fn, args, inplace)
        # the nonce_function argument (always None here) is not part of the model ops
        line_args = tokens(args[:2] + args[3:] if fn in ("ecdsa_sign", "schnorrsig_sign") and len(args) == 4 else args)
        info = {"fn": fn, "args": line_args[:4000], "note": note, "inplace": inplace, "py": I[:400], "ctypes": C[:400]}
        bnd = any((isinstance(a, (bytes, bytearray)) and len(a) == 32 and int.from_bytes(a, "big") in NAMES) for a in args)
        c.count((fn, line_args, inplace), nontrivial=True)
        c.tally("%s:%s" % (fn, "agree-value" if I == C and I != "none" else "agree-reject" if I == C else "DIFFER"))
        if bnd:
            c.tally("boundary-operand")
        if inplace != "bytes":
            c.expect("py.%s %s" % (fn, line_args), I, dict(info, tie="model-vs-py"), proven=False, op="py." + fn)
            c.expect("contract.%s %s" % (fn, line_args), C, dict(info, tie="contract-vs-ctypes"), proven=False,
                     op="contract." + fn)
        # (iii) the property
        if fn == "ecdsa_signature_parse_der":
            self.der_verdict(args[0], I, C, info)
        elif I != C or I == "crash":
            c.fail("py_secp256k1 and ctypes_secp256k1 disagree on %s" % fn, dict(info, op=fn))
        elif inplace == "bytes" and I != "none":
            # an immutable bytes object handed to an in-place variant: the only lawful outcome is an exception under
            # BOTH backends ("ok ..." means the call returned, i.e. it wrote into -- or silently ignored -- the object)
            c.fail("in-place %s accepted an immutable bytes object under both backends" % fn, dict(info, op=fn))
        return I, C

    def der_verdict(self, der, I, C, info):
        """arbitrary encodings: only the final verdict must agree. What py accepts, libsecp must parse to the same
        structure; what only libsecp parses must be a signature no key/message verifies (r = 0, s = 0 or high S)."""
        c = self.c
        if I == C and I != "crash":
            return
        if I == "none" and C.startswith("ok "):
            sig = bytes.fromhex(C[3:])
            r, s = int.from_bytes(sig[:32], "little"), int.from_bytes(sig[32:], "little")
            if r == 0 or s == 0 or s > (N - 1) // 2:
                c.tally("parse_der:lenient-but-unverifiable")
                # confirm on the real library with a key that would otherwise verify nothing anyway
                v = self.w.run("ct", "ecdsa_verify", [sig, be(7), self.pub(1)])
                if v != "ok False":
                    c.fail("libsecp parsed a non-canonical signature and verified it", dict(info, op="parse_der+verify"))
                return
        c.fail("verify verdict differs between backends for a DER encoding", dict(info, op="ecdsa_signature_parse_der"))


# ---------------------------------------------------------------- generators per primitive

def gen_scalar_fns(x, k):
    for _ in range(k):
        s = be(x.scalar())
        x.case("ec_pubkey_create", [s])
        x.case("ec_seckey_verify", [s])
        x.case("ec_privkey_negate", [s])
        x.case("keypair_create", [s])
    for ln in (0, 31, 33):
        s = bytes(x.rng.randrange(256) for _ in range(ln))
        for fn in ("ec_pubkey_create", "ec_seckey_verify", "ec_privkey_negate"):
            x.case(fn, [s], note="length")


def gen_privkey_add(x, k):
    for i in range(k):
        a, t = x.scalar(), x.scalar()
        if i % 4 == 0:
            a = x.scalar(valid=True)
            t = N - a                      # operands summing to zero
        elif i % 4 == 1:
            a = x.scalar(valid=True)
        x.case("ec_privkey_add", [be(a), be(t)])
        x.case("ec_privkey_tweak_add", [be(a), be(t)], inplace="bytearray")
    x.case("ec_privkey_add", [be(5)[:31], be(1)], note="length")
    x.case("ec_privkey_add", [be(5), be(1) + b"\x00"], note="length")


def gen_pubkey_add(x, k):
    for i in range(k):
        if i % 3 == 0:
            a = x.scalar(valid=True)
            pub, t = x.pub(a), N - a        # sum = point at infinity
        else:
            pub, t = x.any_pub(), x.scalar()
        x.case("ec_pubkey_add", [pub, be(t)])
        x.case("ec_pubkey_tweak_add", [pub, be(t)], inplace="bytearray")
    x.case("ec_pubkey_add", [x.pub(1)[:63], be(1)], note="length")
    x.case("ec_pubkey_add", [x.pub(1), be(1)[:31]], note="length")


def gen_pubkey_codec(x, k):
    sx, sy = x.pub_small_x()
    for i in range(k):
        kk = x.scalar(valid=True)
        pub = x.pub(kk)
        I, _ = x.case("ec_pubkey_serialize", [pub, EC_COMPRESSED])
        J, _ = x.case("ec_pubkey_serialize", [pub, EC_UNCOMPRESSED])
        x.case("ec_pubkey_negate", [pub])
        x.case("xonly_pubkey_from_pubkey", [pub])
        if I.startswith("ok ") and J.startswith("ok "):
            sec, usec = bytes.fromhex(I[3:]), bytes.fromhex(J[3:])
            x.case("ec_pubkey_parse", [sec])
            x.case("ec_pubkey_parse", [usec])
            m = x.rng.randrange(8)
            if m == 0:
                x.case("ec_pubkey_parse", [bytes([x.rng.randrange(8)]) + sec[1:]], note="prefix")
            elif m == 1:
                x.case("ec_pubkey_parse", [bytes([x.rng.randrange(8)]) + usec[1:]], note="prefix")
            elif m == 2:
                x.case("ec_pubkey_parse", [usec[:33] + be(int.from_bytes(usec[33:], "big") ^ 1)], note="off curve")
            elif m == 3:
                x.case("ec_pubkey_parse", [sec[:x.rng.randrange(0, 33)]], note="short")
            elif m == 4:
                x.case("ec_pubkey_parse", [usec + b"\x00"], note="long")
    for v in BOUND:
        for pre in (2, 3):
            x.case("ec_pubkey_parse", [bytes([pre]) + be(v)], note="x=" + NAMES[v])
        x.case("ec_pubkey_parse", [b"\x04" + be(v) + be(x.scalar())], note="x=" + NAMES[v])
    # coordinates >= p that reduce to a curve point
    x.case("ec_pubkey_parse", [b"\x02" + be(sx + P)], note="x+p")
    x.case("ec_pubkey_parse", [b"\x03" + be(sx + P)], note="x+p")
    x.case("ec_pubkey_parse", [b"\x04" + be(sx) + be(sy)], note="small x")
    x.case("ec_pubkey_parse", [b"\x04" + be(sx + P) + be(sy)], note="x+p")
    x.case("ec_pubkey_parse", [b"\x04" + be(0x1fe1e5ef3f) + be(1 + P)], note="y+p (y=1 needs its x; probably off curve)")
    for _ in range(max(4, k // 3)):
        pub = x.any_pub()
        fl = x.rng.choice([EC_COMPRESSED, EC_UNCOMPRESSED, 0, 1, 256, 259, 2**31])
        x.case("ec_pubkey_serialize", [pub, fl], note="flag / structure")
        x.case("ec_pubkey_negate", [pub], note="structure")
        x.case("xonly_pubkey_from_pubkey", [pub], note="structure")
    x.case("ec_pubkey_serialize", [x.pub(1) + b"\x00", EC_COMPRESSED], note="length")
    x.case("ec_pubkey_negate", [x.pub(1)[:63]], note="length")
    x.case("xonly_pubkey_from_pubkey", [x.pub(1)[:63]], note="length")


def gen_sig_codec(x, k):
    for i in range(k):
        r, s = x.scalar(), x.scalar()
        x.case("ecdsa_signature_parse_compact", [be(r) + be(s)])
        st = le(r) + le(s)
        I, _ = x.case("ecdsa_signature_serialize_der", [st])
        x.case("ecdsa_signature_serialize_compact", [st])
        x.case("ecdsa_signature_normalize", [st])
        if I.startswith("ok "):
            der = bytes.fromhex(I[3:])
            x.case("ecdsa_signature_parse_der", [der], note="strict DER of pool values")
            for _ in range(2):
                x.case("ecdsa_signature_parse_der", [mutate_der(x.rng, der)], note="mutated DER")
    for ln in (0, 63, 65):
        b = bytes(x.rng.randrange(256) for _ in range(ln))
        for fn in ("ecdsa_signature_parse_compact", "ecdsa_signature_serialize_der", "ecdsa_signature_serialize_compact",
                   "ecdsa_signature_normalize"):
            x.case(fn, [b], note="length")
    for d in DER_CORPUS:
        x.case("ecdsa_signature_parse_der", [bytes.fromhex(d)], note="corpus")


DER_CORPUS = [
    "", "30", "3000", "3006020101020101", "300702020001020101", "30060201ff020101", "308106020101020101",
    "3007028101010201 01".replace(" ", ""), "3006020100020101", "3006020101020100", "30080202008002020080",
    "300602010102017f", "3006020101020180", "30070201010202ff7f", "3005020101020101", "3007020101020101",
    "300602010102010100", "3106020101020101", "3006030101020101", "3006020101030101", "300402000200",
    "30250221" + "00" + "ff" * 32 + "0200", "3026022100" + "ff" * 32 + "020101",
    "30440220" + "7f" + "ff" * 31 + "0220" + "7f" + "ff" * 31,
    "3046022100" + "80" + "00" * 31 + "022100" + "80" + "00" * 31,
    "30470222" + "0000" + "80" + "00" * 31 + "022100" + "80" + "00" * 31,
]


def mutate_der(rng, der):
    der = bytearray(der)
    m = rng.randrange(9)
    if m == 0 and der:
        i = rng.randrange(len(der))
        der[i] ^= 1 << rng.randrange(8)
    elif m == 1 and der:
        der[rng.randrange(min(len(der), 6))] = rng.randrange(256)
    elif m == 2:
        der = der[:rng.randrange(len(der) + 1)]
    elif m == 3:
        der += bytes([rng.randrange(256)])
    elif m == 4 and len(der) > 4:
        # pad r with a zero byte, fix the lengths
        der = der[:4] + b"\x00" + der[4:]
        der[3] += 1
        der[1] += 1
    elif m == 5 and len(der) > 4:
        # long-form sequence length
        der = der[:1] + bytes([0x81]) + der[1:]
    elif m == 6 and len(der) > 5:
        der[4] |= 0x80                       # negative r
    elif m == 7 and len(der) > 3:
        der[1] = (der[1] + rng.choice([1, 255])) % 256
    else:
        i = rng.randrange(len(der)) if der else 0
        der = der[:i] + der[i + 1:]
    return bytes(der)


def gen_ecdsa(x, k):
    for i in range(k):
        key = x.scalar(valid=(i % 5 != 0))
        msg = be(x.scalar())
        extra = None
        m = i % 6
        if m == 1:
            extra = be(x.rng.randrange(2**256))
        elif m == 2:
            extra = le(x.rng.randrange(1, 201))
        I, _ = x.case("ecdsa_sign", [msg, be(key), None, extra])
        if i % 3 == 0:
            x.case("ecdsa_sign_recoverable", [msg, be(key)])
        if I.startswith("ok "):
            sig = bytes.fromhex(I[3:])
            pub = x.pub(key)
            x.case("ecdsa_verify", [sig, msg, pub], note="valid")
            D = x.w.run("ct", "ecdsa_signature_serialize_der", [sig])
            if D.startswith("ok "):
                der = bytes.fromhex(D[3:])
                x.case("ecdsa_signature_parse_der", [der], note="DER of a real signature")
                x.case("ecdsa_signature_parse_der", [mutate_der(x.rng, der)], note="mutated DER of a real signature")
            r, s = int.from_bytes(sig[:32], "little"), int.from_bytes(sig[32:], "little")
            x.case("ecdsa_verify", [le(r) + le(N - s), msg, pub], note="high S")
            j = x.rng.randrange(5)
            if j == 0:
                x.case("ecdsa_verify", [sig, be(x.scalar()), pub], note="other message")
            elif j == 1:
                x.case("ecdsa_verify", [sig, msg, x.any_pub()], note="other key / structure")
            elif j == 2:
                t = bytearray(sig)
                t[x.rng.randrange(64)] ^= 1 << x.rng.randrange(8)
                x.case("ecdsa_verify", [bytes(t), msg, pub], note="bit flip")
            elif j == 3:
                x.case("ecdsa_verify", [le(x.scalar()) + le(x.scalar()), msg, pub], note="pool r,s")
            else:
                x.case("ecdsa_verify", [le(r) + le(x.scalar()), msg, pub], note="pool s")
    for ed in (b"", b"\x01" * 16, b"\x01" * 31, b"\x01" * 33, b"\x01" * 64):
        x.case("ecdsa_sign", [be(7), be(5), None, ed], note="extra data length")
    x.case("ecdsa_sign", [be(7)[:31], be(5), None, None], note="length")
    x.case("ecdsa_sign", [be(7), be(5) + b"\x00", None, None], note="length")
    x.case("ecdsa_verify", [bytes(63), be(7), x.pub(1)], note="length")
    x.case("ecdsa_verify", [bytes(64), be(7)[:31], x.pub(1)], note="length")
    x.case("ecdsa_verify", [bytes(64), be(7), x.pub(1) + b"\x00"], note="length")
    # s exactly at the low-S boundary, under the key that makes it a real signature or not
    for s in ((N - 1) // 2, (N + 1) // 2):
        x.case("ecdsa_verify", [le(x.rng.randrange(1, N)) + le(s), be(x.scalar()), x.pub(x.scalar(valid=True))], note="s boundary")


def gen_schnorr(x, k):
    for i in range(k):
        key = x.scalar(valid=(i % 5 != 0))
        msg = be(x.scalar())
        aux = be(x.rng.randrange(2**256)) if i % 2 else None
        if i % 4 == 3 and 0 < key < N:
            kp = be(key) + x.pub(key)
            I, _ = x.case("schnorrsig_sign", [msg, kp, None, aux], note="96-byte keypair")
        else:
            I, _ = x.case("schnorrsig_sign", [msg, be(key), None, aux])
        if I.startswith("ok "):
            sig = bytes.fromhex(I[3:])
            pub = x.pub(key)
            xo = x.w.run("ct", "xonly_pubkey_from_pubkey", [pub])
            xonly = bytes.fromhex(xo[3:].split(" ")[0])
            x.case("schnorrsig_verify", [sig, msg, xonly], note="valid")
            j = x.rng.randrange(6)
            if j == 0:
                x.case("schnorrsig_verify", [sig, be(x.scalar()), xonly], note="other message")
            elif j == 1:
                x.case("schnorrsig_verify", [sig, msg, x.any_pub()], note="other key / structure")
            elif j == 2:
                t = bytearray(sig)
                t[x.rng.randrange(64)] ^= 1 << x.rng.randrange(8)
                x.case("schnorrsig_verify", [bytes(t), msg, xonly], note="bit flip")
            elif j == 3:
                x.case("schnorrsig_verify", [be(x.scalar()) + be(x.scalar()), msg, xonly], note="pool r,s")
            elif j == 4:
                x.case("schnorrsig_verify", [sig, msg, pub], note="full (possibly odd-Y) key structure")
            else:
                x.case("schnorrsig_verify", [sig[:32] + be(x.scalar()), msg, xonly], note="pool s")
    g = x.pub(1)
    x.case("schnorrsig_sign", [be(7), be(5) + x.pub(6), None, None], note="keypair with a foreign public half")
    x.case("schnorrsig_sign", [be(7), be(5) + bytes(64), None, None], note="keypair with a zero public half")
    x.case("schnorrsig_sign", [be(7), be(0) + x.pub(6), None, None], note="keypair with a zero secret")
    x.case("schnorrsig_sign", [be(7), be(N) + x.pub(6), None, None], note="keypair with secret n")
    x.case("schnorrsig_sign", [be(7), be(5) + be(1), None, None], note="64-byte keypair")
    for ed in (b"", b"\x01" * 16, b"\x01" * 33):
        x.case("schnorrsig_sign", [be(7), be(5), None, ed], note="aux length")
    x.case("schnorrsig_sign", [be(7)[:31], be(5), None, None], note="length")
    x.case("schnorrsig_verify", [bytes(63), be(7), g], note="length")
    x.case("schnorrsig_verify", [bytes(64), be(7) + b"\x00", g], note="length")
    x.case("schnorrsig_verify", [bytes(64), be(7), g[:63]], note="length")


def gen_recoverable(x, k):
    for i in range(k):
        key = x.scalar(valid=True)
        msg = be(x.scalar())
        I, _ = x.case("ecdsa_sign_recoverable", [msg, be(key)])
        if I.startswith("ok "):
            rs = bytes.fromhex(I[3:])
            x.case("ecdsa_recover", [rs, msg], note="valid")
            x.case("ecdsa_recoverable_signature_serialize_compact", [rs])
            x.case("ecdsa_recoverable_signature_convert", [rs])
            r, s = int.from_bytes(rs[:32], "little"), int.from_bytes(rs[32:64], "little")
            rid = x.rng.choice([0, 1, 2, 3, 4, 5, 7, 255])
            x.case("ecdsa_recover", [rs[:64] + bytes([rid]), msg], note="other recid")
            x.case("ecdsa_recover", [le(r) + le(N - s) + bytes([rs[64]]), msg], note="high S")
            x.case("ecdsa_recover", [rs, be(x.scalar())], note="other message")
            # a genuine r (a valid abscissa for this recovery id) with boundary values of s, and the reverse
            for sb in (0, 1, N - 1, N, (N - 1) // 2, (N + 1) // 2):
                x.case("ecdsa_recover", [le(r) + le(sb % 2**256) + bytes([rs[64]]), msg], note="boundary s")
            for rb_ in (0, N, P - N, 1):
                x.case("ecdsa_recover", [le(rb_) + le(s) + bytes([rs[64]]), msg], note="boundary r")
        r, s = x.scalar(), x.scalar()
        rid = x.rng.choice([-1, 0, 1, 2, 3, 4, 5, 255, 256])
        x.case("ecdsa_recoverable_signature_parse_compact", [be(r) + be(s), rid])
        rb = x.rng.choice([0, 1, 2, 3, 4, 5, 6, 7, 128, 255])
        st = le(r) + le(s) + bytes([rb])
        x.case("ecdsa_recover", [st, be(x.scalar())], note="pool r,s")
        x.case("ecdsa_recoverable_signature_serialize_compact", [st])
        x.case("ecdsa_recoverable_signature_convert", [st])
    # (r, s) = (4, 4) recovers with all four ids; r just below / at p - n decides whether ids 2, 3 exist
    for r in (4, P - N - 1, P - N, 1, 2):
        for rid in range(4):
            x.case("ecdsa_recover", [le(r) + le(4) + bytes([rid]), be(x.rng.randrange(2**256))], note="small r")
            x.case("ecdsa_recover", [le(r) + le(0) + bytes([rid]), be(x.rng.randrange(2**256))], note="small r, s = 0")
    for fn in ("ecdsa_recoverable_signature_serialize_compact", "ecdsa_recoverable_signature_convert"):
        x.case(fn, [bytes(64)], note="length")
        x.case(fn, [bytes(66)], note="length")
    x.case("ecdsa_recover", [bytes(64), be(1)], note="length")
    x.case("ecdsa_recover", [le(4) + le(4) + b"\x00", be(1)[:31]], note="length")
    x.case("ecdsa_recoverable_signature_parse_compact", [bytes(63), 0], note="length")
    x.case("ecdsa_sign_recoverable", [be(1)[:31], be(1)], note="length")


def toy_run(triples):
    """the REAL ecdsa_sign_recoverable code over the toy curve (harness/toy_signrec.py, a subprocess: it replaces
    module constants of embit.util.key)"""
    import subprocess
    import sys
    p = subprocess.run([sys.executable, os.path.join(os.path.dirname(os.path.dirname(os.path.abspath(__file__))),
                                                     "toy_signrec.py")],
                       input=json.dumps(triples), capture_output=True, text=True, timeout=600)
    if p.returncode != 0:
        raise RuntimeError("toy_signrec.py failed: " + p.stderr[-400:])
    return json.loads(p.stdout)


def gen_toy_signrec(x, k):
    """C08V: a nonce point with x(R) >= n — the region where the recovery-id search of the old code differed from
    libsecp256k1 — CANNOT be constructed through the public API on secp256k1 (ecdsa_sign_recoverable takes no nonce
    function; a nonce with a chosen point is a discrete logarithm; probability 2^-128 per signature). So the region is
    exercised on the toy curve y^2 = x^3 + 7 / F_43 (n = 31; 14 of the 30 nonce points have x >= n), where the real
    python code (curve constants replaced, nonce fixed) is compared with the model of the fixed code
    (`toy.py.…` = ecdsaSignRecoverableDirect) and with libsecp256k1's contract (`toy.contract.…`) over the same curve."""
    c = x.c
    n = 31
    triples = []
    for kk in range(1, n):                       # every nonce point, boundary messages / keys
        triples.append([kk, x.rng.randrange(0, n), x.rng.randrange(1, n)])
        triples.append([kk, x.rng.choice([0, 1, n - 1, n, n + 1, 2**256 - 1]), x.rng.choice([1, 2, n - 2, n - 1])])
    triples += [[3, 1, 1], [2, 5, 3], [15, 6, 3], [2, 6, 3], [2, 1, 3]]          # the witness points of Props/C08X
    triples += [[3, 1, 0], [3, 1, n], [3, 1, n + 1], [3, 1, 2**256 - 1]]          # invalid keys
    for _ in range(20 * k):
        triples.append([x.rng.randrange(1, n), x.rng.randrange(0, 2 * n), x.rng.randrange(1, n)])
    seen, uniq = set(), []
    for t in triples:
        if tuple(t) not in seen:
            seen.add(tuple(t))
            uniq.append(t)
    real = toy_run(uniq)
    from core import run_driver
    old = run_driver(["toy.pyold.ecdsa_sign_recoverable %d %d %d" % tuple(t) for t in uniq])
    for t, I, O in zip(uniq, real, old):
        line_args = "%d %d %d" % tuple(t)
        rid = int(I[-2:], 16) if I.startswith("ok ") else None
        info = {"fn": "toy.ecdsa_sign_recoverable", "args": line_args, "note": "toy curve", "py": I[:400], "recid": rid,
                "old_model": O[:400]}
        c.count(("toy.ecdsa_sign_recoverable", line_args), nontrivial=True)
        c.tally("toy.ecdsa_sign_recoverable:" + ("recid %d" % rid if rid is not None else "reject"))
        if rid is not None and rid >= 2:
            c.tally("toy.ecdsa_sign_recoverable:x(R)>=n")
        if O != I:
            c.tally("toy.ecdsa_sign_recoverable:old search model differs (region of C08X `_partial`)")
        c.expect("toy.py.ecdsa_sign_recoverable " + line_args, I, dict(info, tie="model-vs-py (toy curve)"), proven=False,
                 op="toy.py.ecdsa_sign_recoverable")
        c.expect("toy.contract.ecdsa_sign_recoverable " + line_args, I, dict(info, tie="contract-vs-py (toy curve)"),
                 proven=False, op="toy.contract.ecdsa_sign_recoverable")


def inplace_bytes_probe(x):
    """the in-place variants on an immutable bytes argument (C08-KF1, fixed by fixes/c08-kf1.diff: both backends
    raise and neither writes into the object; `case` demands that, no classifier any more)"""
    x.case("ec_privkey_tweak_add", [be(5), be(1)], inplace="bytes", note="immutable bytes buffer")
    x.case("ec_pubkey_tweak_add", [x.pub(5), be(1)], inplace="bytes", note="immutable bytes buffer")
    # also on operands the C function would refuse anyway, and on boundary keys
    x.case("ec_privkey_tweak_add", [be(N - 1), be(1)], inplace="bytes", note="immutable bytes buffer, sum = 0")
    x.case("ec_privkey_tweak_add", [be(0), be(1)], inplace="bytes", note="immutable bytes buffer, invalid secret")
    x.case("ec_privkey_tweak_add", [be(1)[:31], be(1)], inplace="bytes", note="immutable bytes buffer, length")
    x.case("ec_pubkey_tweak_add", [x.pub(1), be(N - 1)], inplace="bytes", note="immutable bytes buffer, infinity")
    x.case("ec_pubkey_tweak_add", [x.pub(N - 1), be(0)], inplace="bytes", note="immutable bytes buffer, zero tweak")
    x.case("ec_pubkey_tweak_add", [bytes(64), be(1)], inplace="bytes", note="immutable bytes buffer, invalid pubkey")


def corpus(x):
    p = os.path.join(VERIF, "corpus", "C08.json")
    if os.path.exists(p):
        for e in json.load(open(p)):
            args = []
            for a in e["args"]:
                args.append(None if a is None else a if isinstance(a, int) else bytes.fromhex(a))
            x.case(e["fn"], args, inplace=e.get("inplace", False), note="corpus:" + e.get("what", ""))


def explore(c, scale):
    x = Ctx(c)
    try:
        corpus(x)
        c.flush()
        inplace_bytes_probe(x)
        gen_scalar_fns(x, 10 * scale)
        gen_privkey_add(x, 14 * scale)
        gen_pubkey_add(x, 9 * scale)
        c.flush()
        gen_pubkey_codec(x, 6 * scale)
        gen_sig_codec(x, 12 * scale)
        c.flush()
        gen_ecdsa(x, 10 * scale)
        gen_schnorr(x, 8 * scale)
        gen_recoverable(x, 6 * scale)
        gen_toy_signrec(x, scale)
        c.flush()
        # key.py's own field / curve arithmetic against its Lean model (Props/C08Y.lean)
        from embit.util import key as _key
        c08_pycurve.run_block(c, _key, min(scale, 40))
        c.extra["worker_crashes"] = c.extra.get("worker_crashes", 0) + x.w.crashes
        c.extra["worker_calls"] = c.extra.get("worker_calls", 0) + x.w.calls
    finally:
        x.w.close()


def run(tier, seed):
    c = Check(PROP, MODS, tier, seed)
    c.rule = ("every binding function shared by py_secp256k1 and ctypes_secp256k1 (26) on operands drawn from the boundary "
              "pool {0,1,2,n-2,n-1,n,n+1,(n-1)/2,(n+1)/2,p-1,p,p+1,2^256-1,p-n,p-n-1}, operands summing to 0 / the point at "
              "infinity, invalid and non-canonical structures (all-zero, off-curve, coordinates >= p, odd-Y x-only keys, "
              "foreign keypairs), wrong lengths, recovery ids -1..256, mutated DER, and random values; a case is distinct "
              "by (function, arguments)")
    c.assumptions = ["libsecp256k1 itself is a black box: the contract (Spec/LibsecpContract.lean) is validated against it "
                     "differentially, not proved", "nonce_function arguments other than None are not compared (C function "
                     "pointer vs Python callable)", "RFC 6979 retries and r = 0 / s = 0 (probability ~2^-128) are never "
                     "reached by a test; the theorems cover them"]
    c.build_and_audit()
    explore(c, 10 if tier == "quick" else 150)
    return c.finish(search=lambda cc: explore(cc, 3))


def replay(path):
    r = json.load(open(path))
    info = r.get("info", r)
    fn = info.get("fn") or r.get("fn")
    toks = (info.get("args") or "").split(" ")
    args = []
    for t in toks:
        if t == "None":
            args.append(None)
        elif t == "-":
            args.append(b"")
        elif t.lstrip("-").isdigit() and len(t) < 12:
            args.append(int(t))
        elif t:
            args.append(bytes.fromhex(t))
    if fn and fn.startswith("toy."):
        from core import run_driver
        t = [int(a) for a in toks if a]
        print("py (toy):", toy_run([t])[0])
        for o in ("py", "contract", "pyold"):
            print("%-8s:" % o, run_driver(["toy.%s.ecdsa_sign_recoverable %d %d %d" % (o, *t)])[0])
        return 0
    w = secpworker.Worker()
    inplace = info.get("inplace", False)
    print("py     :", w.run("py", fn, args, inplace))
    print("ctypes :", w.run("ct", fn, args, inplace))
    from core import run_driver
    print("model  :", run_driver(["py.%s %s" % (fn, tokens(args))])[0])
    print("spec   :", run_driver(["contract.%s %s" % (fn, tokens(args))])[0])
    w.close()
    return 0
