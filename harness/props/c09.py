"""C09 — HD and taproot key derivation follow BIP32/BIP341 and commute with neutering.

Theorems: lean/EmbitModel/Props/C09.lean (model child = CKDpriv/CKDpub, derive = fold, hardened from public refused,
neutering commutes, taproot tweak commutes and is the BIP341 output key, path text round trip, depth overflow).
Tie: every case runs on embit under BOTH secp256k1 backends and on the Lean model / the Lean BIP32 and BIP341 specs
(ops of Driver/Keys.lean); the property predicates (commutation, fold, refusal, parity, round trip) are evaluated
directly on embit as well. HMAC / tagged-hash overrides reach the 2^-128 branches (I_L >= n, zero sums, t >= n)."""
import json
import os

from core import Check, hx, VERIF, run_driver
import facts
import keyshared as ks
from keyshared import (ec, bip32, NETWORKS, N, H, on_backends, guarded, backend, BACKENDS, hmac_override,
                       tagged_override, show_hd, show_priv, show_pub, spec_tokens, mk_hd, mk_key, opt, rbytes)

PROP = "C09"
MODS = ["EmbitModel.Props.C09", "EmbitModel.Props.C09X"]


# the pure-Python backend's missing range checks are C08's findings (D9 / D10); a C09 case differs under `py` only there
def py_backend_range(rec):
    i = rec.get("info", rec)
    return i.get("backend") == "py" and i.get("edge") == "il>=n"


def expect_backends(c, line, answers, info, proven=True):
    for name, ans in answers:
        c.expect(line, ans, dict(info, backend=name), proven=proven)


# ------------------------------------------------------------------ child

def child_case(c, s, index, hardened, ov=None, edge=None):
    """one HDKey.child call on both backends, vs model, vs the BIP32 spec, and the direct predicates"""
    info = dict(ks.info_of(s), index=index, hardened=hardened, hmac=opt(ov), edge=edge)
    idx = index + H if (hardened and index < H) else index
    is_hard = hardened or idx >= H

    def run():
        with hmac_override(ov):
            return "ok " + show_hd(mk_hd(s).child(index, hardened))
    answers = on_backends(run)
    c.count(("child", spec_tokens(s), index, hardened, opt(ov)), nontrivial=True)
    c.tally("child:%s:%s:%s" % (s["kind"], "hard" if is_hard else "soft", edge or "plain"))
    line = "bip32.child %s %d %d %s" % (spec_tokens(s), index, int(hardened), opt(ov))
    expect_backends(c, line, answers, info)
    for name, ans in answers:
        binfo = dict(info, backend=name)
        # hardened derivation from a public key is refused
        if s["kind"] == "pub" and is_hard and ans != "none":
            c.fail("hardened child derived from a public key", dict(binfo, op="child", got=ans))
        if index > 0xFFFFFFFF and ans != "none":
            c.fail("index >= 2^32 accepted", dict(binfo, op="child", got=ans))
        # depth 255 -> 256 cannot be represented
        if s["depth"] >= 255 and ans != "none":
            c.fail("child of a depth-255 key was produced", dict(binfo, op="child", got=ans))
        # BIP32 as oracle (Lean spec): key, chain code; metadata directly
        if idx <= 0xFFFFFFFF and (ov is None or len(ov) == 64):     # HMAC-SHA512 outputs are 64 bytes
            if s["kind"] == "prv":
                sl = "spec.ckdpriv %s %s %d %s" % (hx(s["key"]), hx(s["cc"]), idx, opt(ov))
            else:
                sl = "spec.ckdpub %s %s %d %s" % (hx(s["key"]), hx(s["cc"]), idx, opt(ov))
            if ans == "none":
                # refused: BIP32 must say invalid, unless the refusal is the depth / version bookkeeping
                if s["depth"] < 255:
                    c.expect(sl, "none", dict(binfo, check="spec-invalid"), proven=True, op="spec.ckd")
            elif ans != "timeout":
                t = ans.split()
                if t[1] == "prv":
                    key, cc, ver, depth, fp, cn = t[2], t[4], t[5], int(t[6]), t[7], int(t[8])
                else:
                    key, cc, ver, depth, fp, cn = t[2], t[3], t[4], int(t[5]), t[6], int(t[7])
                c.expect(sl, "ok %s %s" % (key, cc), dict(binfo, check="spec"), proven=True, op="spec.ckd")
                psec = ks.sec_of(s["key"]) if s["kind"] == "prv" else s["key"]
                c.expect("spec.fp " + hx(psec), "ok " + fp, dict(binfo, check="fingerprint"), proven=True, op="spec.fp")
                if depth != s["depth"] + 1 or cn != idx or ver != hx(s["ver"]):
                    c.fail("child metadata wrong (depth / child number / version)", dict(binfo, op="child", got=ans))
    # neutering commutes (non-hardened steps)
    if s["kind"] == "prv" and not is_hard:
        def left():
            with hmac_override(ov):
                return "ok " + show_hd(mk_hd(s).child(index, hardened).to_public())

        def right():
            with hmac_override(ov):
                return "ok " + show_hd(mk_hd(s).to_public().child(index, hardened))
        for (name, l), (_, r) in zip(on_backends(left), on_backends(right)):
            if l != r:
                rec = dict(info, backend=name, op="neuter-commutes", left=l, right=r)
                c.fail("derive-then-neuter differs from neuter-then-derive", rec)


def uncompressed_parent_case(c, s, index):
    """an HD key around a private key flagged uncompressed: refused (fix k04), or else BIP32 children"""
    s = dict(s, c=False)
    info = dict(ks.info_of(s), index=index, kind2="uncompressed-private-parent")

    def run():
        k = mk_hd(s).child(index)
        return "ok %s %s" % (hx(k.key._secret), hx(k.chain_code))
    answers = on_backends(run)
    c.count(("child-unc", spec_tokens(s), index), nontrivial=True)
    c.tally("child:uncompressed-private-parent:" + ("refused" if answers[0][1] == "none" else "derived"))
    for name, ans in answers:
        if ans != "none":
            c.expect("spec.ckdpriv %s %s %d None" % (hx(s["key"]), hx(s["cc"]), index), ans,
                     dict(info, backend=name, check="spec"), proven=True, op="spec.ckd")
            # neutering must still work and commute
            if index < H:
                l = guarded(lambda: show_hd(mk_hd(s).child(index).to_public()))
                r = guarded(lambda: show_hd(mk_hd(s).to_public().child(index)))
                if l != r or l == "none":
                    c.fail("HD key with an uncompressed private key: derive/neuter do not commute",
                           dict(info, backend=name, op="neuter-commutes", left=l, right=r))


def child_block(c, n_parents, n_idx):
    for k in range(n_parents):
        s = ks.gen_parent(c.rng, private=(k % 2 == 0), odd=(k % 4 < 2))
        idxs = list(ks.SPECIAL_INDICES[:5]) + [ks.gen_index(c.rng) for _ in range(n_idx)]
        for i in idxs:
            child_case(c, s, i, False)
        for i in [0, 5, 2 ** 31 - 1, 2 ** 31, 2 ** 31 + 5, 2 ** 32 - 1]:
            child_case(c, s, i, True)
        child_case(c, s, 2 ** 32, False)
        if s["kind"] == "prv" and k % 4 == 0:
            uncompressed_parent_case(c, s, c.rng.choice([0, 1, 2 ** 31 - 1, 2 ** 31]))
        child_case(c, s, 2 ** 32 + c.rng.randrange(1, 1000), c.rng.random() < 0.5)
        c.sample({"parent": spec_tokens(s)[:200], "indices": idxs[:8]})
        if k % 10 == 9:
            c.flush()
    c.flush()


def edge_block(c, n):
    """HMAC output chosen: I_L in {0, 1, n-1, n, n+1, 2^256-1, n-k (zero sum), n-k+1}; short outputs"""
    for k in range(n):
        private = k % 2 == 0
        s = ks.gen_parent(c.rng, private=private, depth=c.rng.choice([0, 1, 7]))
        # the parent scalar is needed to hit the zero sum also for public parents
        secret = ks.gen_secret_parity(c.rng, s["odd"])
        if private:
            s["key"] = secret
        else:
            s["key"] = ks.sec_of(secret)
        kp = int.from_bytes(secret, "big")
        ir = rbytes(c.rng, 32)
        for il, edge in [(0, "il=0"), (1, "il=1"), (N - 1, "il=n-1"), (N, "il>=n"), (N + 1, "il>=n"),
                         (2 ** 256 - 1, "il>=n"), (N - kp, "zero-sum"), ((N - kp + 1) % N, "near-zero-sum"),
                         (c.rng.randrange(N, 2 ** 256), "il>=n")]:
            ov = il.to_bytes(32, "big") + ir
            child_case(c, s, c.rng.choice([0, 1, 2 ** 31 - 1]), False, ov, edge)
            if private:
                child_case(c, s, c.rng.choice([2 ** 31, 2 ** 32 - 1]), False, ov, edge)
        for ov, edge in [(rbytes(c.rng, 63), "short-hmac"), (rbytes(c.rng, 31), "short-hmac"), (b"", "short-hmac"),
                         (rbytes(c.rng, 65), "long-hmac")]:
            child_case(c, s, 0, False, ov, edge)
    c.flush()


# ------------------------------------------------------------------ derive / paths

def derive_case(c, s, path, kind):
    info = dict(ks.info_of(s), path=[int(x) for x in path][:300], kind=kind)

    def run():
        return "ok " + show_hd(mk_hd(s).derive(list(path)))
    answers = on_backends(run, 120.0)
    c.count(("derive", spec_tokens(s), tuple(path)), nontrivial=len(path) > 1)
    c.tally("derive:%s:%s:len%s" % (s["kind"], kind, "0" if not path else "1" if len(path) == 1 else "2-9" if len(path) < 10
                                    else "10-254" if len(path) < 255 else "255+"))
    line = "bip32.derive %s %d %s" % (spec_tokens(s), len(path), " ".join(str(int(x)) for x in path))
    expect_backends(c, line.rstrip(), answers, info)

    # BIP32 as oracle for the whole path (Lean spec fold with bookkeeping, Spec/Bip32Path.lean; derive = this fold
    # is C09X.derive_eq_spec_priv / _pub): key, chain code, depth, parent fingerprint, child number
    if all(0 <= i < 2 ** 32 for i in path) and s["depth"] + len(path) <= 255 and s.get("c", True):
        sl = "spec.derivenode %s %s %s %d %s %d %d %s" % (s["kind"], hx(s["key"]), hx(s["cc"]), s["depth"], hx(s["fp"]), s["cn"],
                                                         len(path), " ".join(str(int(x)) for x in path))
        for name, ans in answers:
            if ans == "timeout":
                continue
            want = ans
            if ans != "none":
                t = ans.split()
                if t[1] == "prv":
                    want = "ok %s %s %s %s %s" % (t[2], t[4], t[6], t[7], t[8])
                    if t[5] != hx(s["ver"]) or t[3] != "1":
                        c.fail("derived key changed version or compression flag", dict(info, backend=name, op="derive", got=ans))
                else:
                    want = "ok %s %s %s %s %s" % (t[2], t[3], t[5], t[6], t[7])
                    if t[4] != hx(s["ver"]):
                        c.fail("derived key changed version", dict(info, backend=name, op="derive", got=ans))
            c.expect(sl.rstrip(), want, dict(info, backend=name, check="spec-path"), proven=True, op="spec.derivenode")

    # path derivation equals repeated child derivation (directly on embit)
    def fold():
        k = mk_hd(s)
        for i in path:
            k = k.child(i)
        return "ok " + show_hd(k)
    for (name, a), (_, b) in zip(answers, on_backends(fold, 120.0)):
        if a != b:
            c.fail("derive(path) differs from repeated child()", dict(info, backend=name, op="derive-fold", derive=a, fold=b))
        if s["depth"] + len(path) > 255 and a != "none":
            c.fail("derivation beyond depth 255 was produced", dict(info, backend=name, op="derive", got=a))
        if s["kind"] == "pub" and any(i >= H for i in path) and a != "none":
            c.fail("hardened step derived from a public key", dict(info, backend=name, op="derive", got=a))
    # neutering commutes with non-hardened paths
    if s["kind"] == "prv" and all(0 <= i < H for i in path):
        def left():
            return "ok " + show_hd(mk_hd(s).derive(list(path)).to_public())

        def right():
            return "ok " + show_hd(mk_hd(s).to_public().derive(list(path)))
        for (name, l), (_, r) in zip(on_backends(left, 120.0), on_backends(right, 120.0)):
            if l != r:
                c.fail("derive-then-neuter differs from neuter-then-derive (path)",
                       dict(info, backend=name, op="neuter-commutes-path", left=l, right=r))


def gen_path(rng, n, hardened_ok):
    out = []
    for _ in range(n):
        i = ks.gen_index(rng)
        if not hardened_ok:
            i %= H
        out.append(i)
    return out


def derive_block(c, n, long_paths):
    for k in range(n):
        private = k % 3 != 2
        s = ks.gen_parent(c.rng, private=private, depth=c.rng.choice([0, 0, 1, 3, 200, 250]))
        for ln in [0, 1, 2, c.rng.randrange(3, 9)]:
            derive_case(c, s, gen_path(c.rng, ln, private and c.rng.random() < 0.6), "random")
        room = 255 - s["depth"]
        if room <= 60:
            derive_case(c, s, gen_path(c.rng, room, private), "to-depth-255")
            derive_case(c, s, gen_path(c.rng, room + 1, private), "overflow")
        derive_case(c, s, [0, -1], "negative")
        derive_case(c, s, [2 ** 32], "too-large")
    for k in range(long_paths):
        private = k % 2 == 0
        s = ks.gen_parent(c.rng, private=private, depth=0)
        derive_case(c, s, gen_path(c.rng, 255, private), "to-depth-255")
        derive_case(c, s, gen_path(c.rng, 256, False), "overflow")
        s2 = ks.gen_parent(c.rng, private=private, depth=c.rng.randrange(1, 255))
        derive_case(c, s2, gen_path(c.rng, 255 - s2["depth"], private), "to-depth-255")
        derive_case(c, s2, gen_path(c.rng, 256 - s2["depth"], private), "overflow")
        c.flush()
    c.flush()


PATH_TEXTS = ["m", "", "m/", "/", "m/0/", "0/1", "m/0h/1H/2'", "m//0", "M/0", "m/-1", "m/ 1", "m/1 ", "m/0x10",
              "m/4294967296", "m/2147483648h", "m/1_0", "m/1__0", "m/_1", "m/1_", "m/+1", "m/+-1", "m/m/0", "m/0//",
              "m/-1h", "m/2147483647h", "m/0h'", "m/h", "m/'", "m/44h/0h/0h/0/5", "44'/1'/0'", "m/007", "m/\t5\n",
              "m/- 1", "m/1/", "m/1//2", "m/99999999999999999999", "m/0/m", "m/0H/", "//", "m/ /1", "m/1.0", "m/1e3",
              "m/48h/0h/0h/2h", "m/-0", "m/+0h", "m/0_0h"]
# second audit B-6: int() strips exactly 9..13 and 32, NOT 0x1c..0x1f (which str.strip() would strip) — each of them and
# the characters int() does strip, before / after the digits and before the hardened marker
PATH_TEXTS += [t % ch for ch in "\x1c\x1d\x1e\x1f\x0b\x0c\r" for t in ("m/0%s", "m/%s1h/2", "m/1%sh", "m/5/%s7%s")[:3]]
PATH_TEXTS += ["m/5/%s7%s" % (ch, ch) for ch in "\x1c\x1f\x0b "]


def path_text_case(c, text, s=None):
    b = text.encode()

    def run():
        p = bip32.parse_path(text)
        return "ok " + " ".join([str(len(p))] + [str(x) for x in p])
    ans = guarded(run)
    c.count(("parsepath", text), nontrivial=True)
    c.tally("parsepath:" + ("accepted" if ans != "none" else "rejected"))
    c.expect("bip32.parsepath " + hx(b), ans, {"text": text}, proven=False)
    if s is not None:
        def drv():
            return "ok " + show_hd(mk_hd(s).derive(text))
        expect_backends(c, "bip32.derivestr %s %s" % (spec_tokens(s), hx(b)), on_backends(drv), dict(ks.info_of(s), text=text))

        def via_list():
            return "ok " + show_hd(mk_hd(s).derive(bip32.parse_path(text)))
        for (name, a), (_, b2) in zip(on_backends(drv), on_backends(via_list)):
            if a != b2:
                c.fail("derive(text) differs from derive(parse_path(text))", dict(ks.info_of(s), text=text, backend=name,
                                                                                 op="derive-text", a=a, b=b2))


def path_roundtrip_case(c, path, fp=None):
    def run():
        return "ok " + hx(bip32.path_to_str(list(path), fp).encode())
    ans = guarded(run)
    c.count(("pathstr", tuple(path), fp), nontrivial=len(path) > 0)
    c.tally("pathstr")
    c.expect("bip32.pathstr %s %d %s" % (opt(fp), len(path), " ".join(str(x) for x in path)), ans,
             {"path": list(path)[:300]}, proven=True)
    if fp is None and ans not in ("none", "timeout"):
        back = guarded(lambda: bip32.parse_path(bip32.path_to_str(list(path))))
        if back != list(path):
            c.fail("parse_path(path_to_str(p)) != p", {"op": "path-roundtrip", "path": list(path)[:300], "back": str(back)[:300]})


def path_block(c, n):
    s = ks.gen_parent(c.rng, private=True, depth=0)
    for t in PATH_TEXTS:
        path_text_case(c, t, s)
    for _ in range(n):
        p = gen_path(c.rng, c.rng.choice([0, 1, 2, 3, 5, 8]), True)
        path_roundtrip_case(c, p)
        path_roundtrip_case(c, p, rbytes(c.rng, 4))
        text = bip32.path_to_str(p)
        r = c.rng.random()
        if r < 0.3:
            text = text.replace("h", c.rng.choice(["'", "H"]))
        elif r < 0.4:
            text = text[2:]
        elif r < 0.5:
            text = text + "/"
        elif r < 0.7 and len(text) > 1:
            # one random character edit
            pos = c.rng.randrange(len(text))
            text = text[:pos] + c.rng.choice("/mhH'_-+ 0123456789x") + text[pos + c.rng.choice([0, 1]):]
        path_text_case(c, text, s if c.rng.random() < 0.3 else None)
    path_roundtrip_case(c, [0, 1, 2 ** 31 - 1, 2 ** 31, 2 ** 32 - 1])
    path_roundtrip_case(c, gen_path(c.rng, 255, True))
    path_roundtrip_case(c, [-1, 5, -2 ** 31])
    path_roundtrip_case(c, [2 ** 32, 2 ** 40, 10 ** 30])
    c.flush()


# ------------------------------------------------------------------ to_public (version map)

def neuter_block(c, n):
    table = ks.all_versions()
    for (net, name, ver, private) in table:
        secret = ks.gen_secret(c.rng)
        s = {"kind": "prv" if private else "pub", "key": secret if private else ks.sec_of(secret), "c": True,
             "cc": ks.gen_cc(c.rng), "ver": ver, "depth": c.rng.choice([0, 1, 255]), "fp": bytes(4), "cn": 0}
        for explicit in [None, c.rng.choice(table)[2], rbytes(c.rng, 4)]:
            def run():
                return "ok " + show_hd(mk_hd(s).to_public(explicit))
            answers = on_backends(run)
            c.count(("neuter", spec_tokens(s), opt(explicit)), nontrivial=True)
            c.tally("neuter:%s:%s" % (name, "auto" if explicit is None else "explicit"))
            info = dict(ks.info_of(s), net=net, name=name, explicit=opt(explicit))
            expect_backends(c, "bip32.neuter %s %s" % (spec_tokens(s), opt(explicit)), answers, info)
            for bname, ans in answers:
                if not private:
                    if ans != "none":
                        c.fail("to_public of a public key returned a key", dict(info, backend=bname, op="neuter", got=ans))
                    continue
                if explicit is not None and any(v[2] == explicit and v[3] for v in table) and ans != "none":
                    c.fail("to_public accepted a private version for the public key", dict(info, backend=bname, op="neuter", got=ans))
                if explicit is None:
                    want = NETWORKS[net][name.replace("prv", "pub")]
                    exp = "ok pub %s %s %s %d %s %d" % (hx(ks.sec_of(secret)), hx(s["cc"]), hx(want), s["depth"], hx(s["fp"]), s["cn"])
                    if ans != exp:
                        c.fail("to_public: wrong key / version mapping / metadata", dict(info, backend=bname, op="neuter", got=ans, want=exp))
    # unknown private versions: no mapping
    for _ in range(n):
        secret = ks.gen_secret(c.rng)
        ver = c.rng.choice([b"\x04\x88\xad\xe5", b"\x04\x88\xad\xe3", rbytes(c.rng, 4)])
        s = {"kind": "prv", "key": secret, "c": True, "cc": ks.gen_cc(c.rng), "ver": ver, "depth": 0, "fp": bytes(4), "cn": 0}
        if guarded(lambda: mk_hd(s) and "ok") != "ok":
            continue

        def run():
            return "ok " + show_hd(mk_hd(s).to_public())
        expect_backends(c, "bip32.neuter %s None" % spec_tokens(s), on_backends(run), dict(ks.info_of(s), kind2="unknown-version"))
        c.count(("neuter-unknown", spec_tokens(s)), nontrivial=True)
        c.tally("neuter:unknown-version")
    c.flush()


# ------------------------------------------------------------------ taproot tweak

def merkle_roots(rng):
    return [b"", bytes(32), b"\xff" * 32, rbytes(rng, 32), rbytes(rng, 32)]


def tweak_case(c, secret, compressed, h, ov=None, edge=None):
    if ov is not None and len(ov) == 32 and int.from_bytes(ov, "big") == 0:
        edge = "t=0"
    info = {"secret": hx(secret), "compressed": compressed, "h": hx(h), "tagged": opt(ov), "edge": edge}

    def priv():
        with tagged_override(ov):
            return "ok " + show_priv(ec.PrivateKey(secret, compressed).taproot_tweak(h))

    def pub():
        with tagged_override(ov):
            return "ok " + show_pub(ec.PrivateKey(secret, compressed).get_public_key().taproot_tweak(h))

    def priv_then_pub():
        with tagged_override(ov):
            return "ok " + show_pub(ec.PrivateKey(secret, compressed).taproot_tweak(h).get_public_key())
    sec = ks.sec_of(secret, compressed)
    odd = ks.sec_of(secret)[0] == 3
    c.count(("tweak", secret, compressed, h, opt(ov)), nontrivial=True)
    c.tally("tweak:%s:%s:h%d:%s" % ("odd" if odd else "even", "compressed" if compressed else "uncompressed", len(h), edge or "plain"))
    a_priv = on_backends(priv)
    a_pub = on_backends(pub)
    a_pp = on_backends(priv_then_pub)
    expect_backends(c, "tweak.priv %s %d 0 %s %s" % (hx(secret), int(compressed), hx(h), opt(ov)), a_priv, info)
    expect_backends(c, "tweak.pub %s %s %s" % (hx(sec), hx(h), opt(ov)), a_pub, info)
    x = ks.sec_of(secret)[1:33]
    for (name, ap), (_, apub), (_, app) in zip(a_priv, a_pub, a_pp):
        binfo = dict(info, backend=name)
        # tweak-then-public-key equals public-key-then-tweak
        if app != apub:
            c.fail("pub(priv.taproot_tweak(h)) differs from pub(priv).taproot_tweak(h)",
                   dict(binfo, op="tweak-commutes", priv_then_pub=app, pub_tweak=apub))
        # BIP341 as oracle (Lean spec): the output key has even Y and X = x(Q)
        if ov is not None and len(ov) != 32:
            continue                 # a tagged hash is 32 bytes: outside BIP341's domain, model comparison only
        if apub == "none":
            if edge != "t=0":      # embit refuses t = 0 as well (BIP341 only t >= n): stated in Props/C09
                c.expect("spec.tappub %s %s %s" % (hx(x), hx(h), opt(ov)), "none", dict(binfo, check="spec-invalid"),
                         proven=True, op="spec.tappub")
        elif apub != "timeout":
            t = apub.split()
            if t[1][:2] != "02":
                c.fail("tweaked public key has odd Y", dict(binfo, op="tweak-parity", got=apub))
            c.expect("spec.tappub %s %s %s" % (hx(x), hx(h), opt(ov)), "ok", dict(binfo, check="spec", got=t[1]),
                     proven=True, op="spec.tappub", canon=lambda out, want=t[1][2:66]: "ok" if out.split()[-1] == want else out)
        if ap not in ("none", "timeout"):
            d2 = ap.split()[1]
            c.expect("spec.tapsec %s %s %s" % (hx(secret), hx(h), opt(ov)), "ok", dict(binfo, check="spec-seckey", got=d2),
                     proven=True, op="spec.tapsec",
                     canon=lambda out, d2=d2: "ok" if out.startswith("ok ") and int(out.split()[1], 16) in
                     (int(d2, 16), N - int(d2, 16)) else out)


def tweak_block(c, n):
    for k in range(n):
        odd = k % 2 == 0
        secret = ks.gen_secret_parity(c.rng, odd)
        for h in merkle_roots(c.rng):
            tweak_case(c, secret, True, h)
        tweak_case(c, secret, False, c.rng.choice(merkle_roots(c.rng)))
        tweak_case(c, secret, k % 4 < 2, rbytes(c.rng, c.rng.choice([1, 31, 33, 64])))
        if k % 10 == 9:
            c.flush()
    c.flush()


def tweak_edge_block(c, n):
    for k in range(n):
        odd = k % 2 == 0
        secret = ks.gen_secret_parity(c.rng, odd)
        d = int.from_bytes(secret, "big")
        dd = (N - d) if odd else d          # the even-Y scalar
        for t, edge in [(0, "t=0"), (1, "t=1"), (N - 1, "t=n-1"), (N, "t>=n"), (N + 1, "t>=n"), (2 ** 256 - 1, "t>=n"),
                        (N - dd, "zero-sum"), ((N - dd + 1) % N, "near-zero-sum"), ((N - dd - 1) % N, "near-zero-sum")]:
            tweak_case(c, secret, c.rng.random() < 0.7, c.rng.choice([b"", rbytes(c.rng, 32)]), t.to_bytes(32, "big"), edge)
        tweak_case(c, secret, True, b"", rbytes(c.rng, 31), "short-hash")
    c.flush()


def hd_tweak_block(c, n):
    for k in range(n):
        s = ks.gen_parent(c.rng, private=(k % 2 == 0))
        h = c.rng.choice(merkle_roots(c.rng))

        def run():
            return "ok " + show_hd(mk_hd(s).taproot_tweak(h))
        answers = on_backends(run)
        c.count(("hdtweak", spec_tokens(s), h), nontrivial=True)
        c.tally("hdtweak:" + s["kind"])
        expect_backends(c, "tweak.hd %s %s" % (spec_tokens(s), hx(h)), answers, dict(ks.info_of(s), h=hx(h)))
        if s["kind"] == "prv":
            def l():
                return "ok " + hx(mk_hd(s).taproot_tweak(h).to_public().sec())

            def r():
                return "ok " + hx(mk_hd(s).to_public().taproot_tweak(h).sec())
            for (name, a), (_, b) in zip(on_backends(l), on_backends(r)):
                if a != b:
                    c.fail("HDKey: tweak-then-neuter differs from neuter-then-tweak",
                           dict(ks.info_of(s), h=hx(h), backend=name, op="hd-tweak-commutes", left=a, right=b))
    c.flush()


# ------------------------------------------------------------------ vectors of the repository

def vectors(c):
    dv, _ = ks.bip32_vectors()
    c.extra["bip32_vectors"] = len(dv)
    for seed, path, xprv, xpub in dv:
        root = bip32.HDKey.from_seed(bytes.fromhex(seed))
        s = {"kind": "prv", "key": root.key._secret, "c": True, "cc": root.chain_code, "ver": root.version, "depth": 0,
             "fp": bytes(4), "cn": 0}
        want_prv = bip32.HDKey.from_base58(xprv)
        want_pub = bip32.HDKey.from_base58(xpub)
        line = "bip32.derive %s %d %s" % (spec_tokens(s), len(path), " ".join(str(x) for x in path))
        c.count(("vector", xprv), nontrivial=True)
        c.tally("vector")
        # the published vector vs the MODEL (and embit below)
        c.expect(line.rstrip(), "ok " + show_hd(want_prv), {"vector": xprv}, proven=True)
        # the published vector vs the SPEC: fold CKDpriv
        k, cc = root.key._secret, root.chain_code
        ok = True
        for i in path:
            out = run_driver(["spec.ckdpriv %s %s %d None" % (hx(k), hx(cc), i)])[0].split()
            if out[0] != "ok":
                ok = False
                break
            k, cc = bytes.fromhex(out[1]), bytes.fromhex(out[2])
        if not ok or k != want_prv.key._secret or cc != want_prv.chain_code:
            c.broken.append(("spec-vector", "Spec.Bip32.CKDpriv does not reproduce the BIP32 vector " + xprv))
        for name, ans in on_backends(lambda: "ok " + show_hd(mk_hd(s).derive(path))):
            if ans != "ok " + show_hd(want_prv):
                c.fail("BIP32 test vector not reproduced", {"op": "vector", "vector": xprv, "backend": name, "got": ans})
        for name, ans in on_backends(lambda: "ok " + show_hd(mk_hd(s).derive(path).to_public())):
            if ans != "ok " + show_hd(want_pub):
                c.fail("BIP32 test vector (xpub) not reproduced", {"op": "vector", "vector": xpub, "backend": name, "got": ans})
    # BIP341 wallet test vectors (scriptPubKey section): internal key, merkle root -> tweak, output key
    for (ik, mr, out) in BIP341_VECTORS:
        x = bytes.fromhex(ik)
        h = bytes.fromhex(mr)
        for name, ans in on_backends(lambda: hx(ec.PublicKey.from_xonly(x).taproot_tweak(h).xonly())):
            c.count(("bip341", ik), nontrivial=True)
            c.tally("vector-bip341")
            if ans != out:
                c.fail("BIP341 test vector not reproduced", {"op": "vector341", "internal": ik, "root": mr, "backend": name, "got": ans})
        c.expect("spec.tappub %s %s None" % (ik, hx(h)), "ok", {"vector341": ik}, proven=True, op="spec.tappub",
                 canon=lambda o, want=out: "ok" if o.split()[-1] == want else o)
    c.flush()


# BIP341 wallet-test-vectors.json, scriptPubKey[*]: internalPubkey, merkleRoot, tweakedPubkey
BIP341_VECTORS = [
    ("d6889cb081036e0faefa3a35157ad71086b123b2b144b649798b494c300a961d", "",
     "53a1f6e454df1aa2776a2814a721372d6258050de330b3c6d10ee8f4e0dda343"),
    ("187791b6f712a8ea41c8ecdd0ee77fab3e85263b37e1ec18a3651926b3a6cf27",
     "5b75adecf53548f3ec6ad7d78383bf84cc57b55a3127c72b9a2481752dd88b21",
     "147c9c57132f6e7ecddba9800bb0c4449251c92a1e60371ee77557b6620f3ea3"),
    ("93478e9488f956df2396be2ce6c5cced75f900dfa18e7dabd2428aae78451820",
     "c525714a7f49c28aedbbba78c005931a81c234b2f6c99a73e4d06082adc8bf2b",
     "e4d810fd50586274face62b8a807eb9719cef49c04177cc6b76a9a4251d5450e"),
    ("ee4fe085983462a184015d1f782d6a5f8b9c2b60130aff050ce221ecf3786592",
     "6c2dc106ab816b73f9d07e3cd1ef2c8c1256f519748e0813e4edd2405d277bef",
     "712447206d7a5238acc7ff53fbe94a3b64539ad291c7cdbc490b7577e4b17df5"),
    ("f9f400803e683727b14f463836e1e78e1c64417638aa066919291a225f0e8dd8",
     "ab179431c28d3b68fb798957faf5497d69c883c6fb1e1cd9f81483d87bac90cc",
     "77e30a5522dd9f894c3f8b8bd4c4b2cf82ca7da8a3ea6a239655c39c050ab220"),
    ("e0dfe2300b0dd746a3f8674dfd4525623639042569d829c7f0eed9602d263e6f",
     "ccbd66c6f7e8fdab47b3a486f59d28262be857f30d4773f2d5ea47f7761ce0e2",
     "91b64d5324723a985170e4dc5a0f84c041804f2cd12660fa5dec09fc21783605"),
    ("55adf4e8967fbd2e29f20ac896e60c3b0f1d5b0efa9d34941b5958c7b0a0312d",
     "2f6b2c5397b6d68ca18e09a3f05161668ffe93a988582d55c6f07bd5b3329def",
     "75169f4001aa68f15bbed28b218df1d0a62cbbcf1188c6665110c293c907b831"),
]


def corpus(c):
    p = os.path.join(VERIF, "corpus", "C09.json")
    if not os.path.exists(p):
        return
    for e in json.load(open(p)):
        if e["op"] == "child":
            s = {k: (bytes.fromhex(v) if k in ("key", "cc", "ver", "fp") else v) for k, v in e["parent"].items()}
            child_case(c, s, e["index"], e.get("hardened", False), bytes.fromhex(e["hmac"]) if e.get("hmac") else None, e.get("edge"))
        elif e["op"] == "tweak":
            tweak_case(c, bytes.fromhex(e["secret"]), e["compressed"], bytes.fromhex(e["h"]),
                       bytes.fromhex(e["tagged"]) if e.get("tagged") else None, e.get("edge"))
        elif e["op"] == "path":
            path_text_case(c, e["text"])
    c.flush()


def primitives(c):
    """the executable reference primitives behind the model, against hashlib / embit"""
    import hashlib
    import hmac as _hmac
    from embit import hashes as H_
    for k in [0, 1, 2, N - 1, N, N + 1] + [c.rng.getrandbits(256) for _ in range(6)]:
        c.expect("ec.mulcheck %d" % k, "same", {"k": k}, proven=False,
                 canon=lambda o: "same" if o.startswith("ok ") and o.split()[1] == o.split()[2] else o)
        if 0 < k < N:
            c.expect("ec.pubfast %d" % k, "ok " + hx(ks.sec_of(k.to_bytes(32, "big"), False)), {"k": k}, proven=False)
    for _ in range(6):
        key, msg = rbytes(c.rng, c.rng.choice([32, 0, 200])), rbytes(c.rng, c.rng.choice([37, 69, 0, 300]))
        c.expect("hash.hmac512 %s %s" % (hx(key), hx(msg)), "ok " + hx(_hmac.new(key, msg, "sha512").digest()), {}, proven=False)
        c.expect("hash.hash160 %s" % hx(msg), "ok " + hx(H_.hash160(msg)), {}, proven=False)
        c.expect("hash.tagged %s %s" % (hx(b"TapTweak"), hx(msg)), "ok " + hx(H_.tagged_hash("TapTweak", msg)), {}, proven=False)
    c.flush()


def explore(c, scale):
    vectors(c)
    corpus(c)
    primitives(c)
    child_block(c, 12 * scale, 3)
    edge_block(c, 4 * scale)
    derive_block(c, 6 * scale, 1 * scale)
    path_block(c, 40 * scale)
    neuter_block(c, 6 * scale)
    tweak_block(c, 16 * scale)
    tweak_edge_block(c, 4 * scale)
    hd_tweak_block(c, 6 * scale)


def run(tier, seed):
    c = Check(PROP, MODS, tier, seed)
    c.classifiers["py_backend_range"] = py_backend_range
    c.rule = ("seeded HD parents (private/public, even/odd Y, special and random scalars, depth 0..255, every SLIP-132 version) x "
              "indices {0,1,2^31-1,2^31,2^32-1,...} u random x hardened flag; chosen HMAC outputs (I_L in {0,1,n-1,n,n+1,2^256-1,"
              "n-k,...}); list and text paths up to depth 255 and beyond; merkle roots {empty,00..00,ff..ff,random,odd lengths} x "
              "both Y parities x compressed/uncompressed; chosen TapTweak hashes; BIP32 and BIP341 vectors; every case on both "
              "secp256k1 backends. A case is distinct by content.")
    c.assumptions = ["EcLaws for secp256k1 (stated mathematical hypothesis of the theorems)",
                     "path text: ASCII only; CPython's 4300-digit int limit is not modelled",
                     "embit refuses a TapTweak hash of 0 (BIP341 refuses only t >= n): probability 2^-256, stated in taproot_eq_bip341"]
    changed, err = facts.regenerate("keyversions")
    if err:
        c.broken.append(("facts", "cannot extract the key version tables: " + err))
    c.extra["backends"] = [n for n, _ in BACKENDS]
    c.build_and_audit()
    explore(c, 2 if tier == "quick" else 12)
    return c.finish(search=lambda cc: explore(cc, 3))


def replay(path):
    r = json.load(open(path))
    print(json.dumps(r, indent=1)[:4000])
    if r.get("request"):
        print("model:", run_driver([r["request"]])[0][:2000])
    return 0
