"""C16 — SLIP39 shares: any threshold subset recovers, fewer never yield a secret.

Theorems: lean/EmbitModel/Props/C16.lean (tables, GF(256) field, interpolation = Lagrange, any-k-recover,
Feistel inverse, share text round trip, RS1024 create/verify and 1-3 word error detection, refusal logic) and
lean/EmbitModel/Props/C16X.lean (mnemonic/parse = encodeShare/decodeShare of the standard's bit layout for
extendable flag 0; two-level recovery on valid sets = the standard's combineShares; any sufficient two-level set
(supersets included) recovers; fewer groups / fewer members refused) and lean/EmbitModel/Props/C16Y.lean
(generate_shares succeeds exactly on valid parameters and a tape of 1 + [k >= 2](L-4 + (k-2)L) draws — checked here
against the number of randint calls embit makes; threshold-1 mixed sets return the first secret in group order, a
documented consequence of the standard having no digest share at threshold 1 — exercised by check_mixed_threshold_one).
Tie: every op below is run on embit (randomness injected through the `randint` argument, deterministic from
the seed) and on the Lean model / spec through the driver; the property predicate is also evaluated directly
on embit (c.fail) without the model:
  * a subset of >= k shares does not recover the secret       * a subset of < k shares returns ANY secret
  * the n shares are not distinct                              * a corrupted share / mixed set is accepted
  * an accepted mnemonic does not re-encode to itself
The large subset sweeps run with a cheap stand-in for PBKDF2 patched into `embit.slip39.hashlib` (the model
and the theorems are generic in the Feistel round function); the real PBKDF2-HMAC-SHA256 path is exercised on
a smaller number of cases and on the official vectors found in the repo's tests."""
import ast
import hashlib
import hmac as _hmac
import itertools
import json
import os
import signal

from core import Check, hx, VERIF, REPO, run_driver

import embit.slip39 as S
from embit.slip39 import Share, ShareSet, rs1024_polymod, rs1024_create_checksum, rs1024_verify_checksum
from embit.wordlists.slip39 import SLIP39_WORDS as W
from embit.bip39 import mnemonic_from_bytes, mnemonic_to_bytes

PROP = "C16"
MODS = ["EmbitModel.Props.C16", "EmbitModel.Props.C16X", "EmbitModel.Props.C16Y"]
WIDX = {w: i for i, w in enumerate(W)}


# ---------------------------------------------------------------- helpers
class _FakeHashlib:
    """stand-in for the `hashlib` module inside embit.slip39: cheap round function, everything else real"""

    def __getattr__(self, n):
        return getattr(hashlib, n)

    @staticmethod
    def pbkdf2_hmac(name, pw, salt, iters, dklen):
        if dklen <= 0:
            raise ValueError("key length must be greater than 0.")
        return _hmac.new(pw, salt + iters.to_bytes(8, "big"), "sha256").digest()[:dklen]


class kdf:
    def __init__(self, mode):
        self.mode = mode

    def __enter__(self):
        self.old = S.hashlib
        if self.mode == "fake":
            S.hashlib = _FakeHashlib()

    def __exit__(self, *a):
        S.hashlib = self.old


class Timeout(Exception):
    pass


def _alarm(sig, frm):
    raise Timeout()


def guarded(fn, secs=30):
    """('ok', value) | ('exc', exception)"""
    signal.signal(signal.SIGALRM, _alarm)
    signal.setitimer(signal.ITIMER_REAL, secs)
    try:
        return ("ok", fn())
    except Timeout:
        raise
    except Exception as e:  # noqa
        return ("exc", e)
    finally:
        signal.setitimer(signal.ITIMER_REAL, 0)


class Tape:
    """the injected `randint`: seeded, recorded so the model sees the same draws"""

    def __init__(self, rng, first=None, style=None):
        self.rng = rng
        self.tape = []
        self.first = first
        self.style = style if style is not None else rng.choice(["uniform", "uniform", "edge", "const"])
        self.const = rng.randrange(256)

    def __call__(self, a, b):
        if self.first is not None and not self.tape:
            v = self.first
        elif self.style == "edge":
            v = self.rng.choice([a, b, a + 1, b - 1, self.rng.randint(a, b)])
        elif self.style == "const":
            v = min(max(self.const, a), b)
        else:
            v = self.rng.randint(a, b)
        self.tape.append(v)
        return v


def idx_of(m):
    return [WIDX[w] for w in m.split()]


def words_of(idx):
    return " ".join(W[i] for i in idx)


def tl(l):
    return "%d %s" % (len(l), " ".join(map(str, l))) if l else "0"


def tpoints(pts):
    return ("%d " % len(pts) + " ".join("%d %s" % (x, hx(b)) for x, b in pts)) if pts else "0"


def tmnems(ms):
    return "%d %s" % (len(ms), " ".join(tl(idx_of(m)) for m in ms)) if ms else "0"


def share_toks(s):
    return "%d %d %d %d %d %d %d %d %s" % (s.share_bit_length, s.id, s.exponent, s.group_index, s.group_threshold,
                                           s.group_count, s.member_index, s.member_threshold, hx(s.bytes))


def rbytes(rng, n):
    r = rng.random()
    if r < 0.08:
        return bytes(n)
    if r < 0.16:
        return b"\xff" * n
    if r < 0.24:
        return bytes(rng.choice([0, 1, 255]) for _ in range(n))
    return bytes(rng.getrandbits(8) for _ in range(n))


def rpass(rng):
    return rng.choice([b"", b"", b"TREZOR", b"a", bytes(rng.getrandbits(8) for _ in range(rng.randrange(1, 40)))])


# independent GF(256) arithmetic (carry-less, modulus x^8+x^4+x^3+x+1) for the direct checks
def gf_mul(a, b):
    r = 0
    for _ in range(8):
        if b & 1:
            r ^= a
        a <<= 1
        if a & 0x100:
            a ^= 0x11B
        b >>= 1
    return r


def _gf_inv(a):
    r = 1
    for _ in range(254):
        r = gf_mul(r, a)
    return r


GF_INV = [_gf_inv(a) for a in range(256)]


def gf_inv(a):
    return GF_INV[a]


def lagrange_bytes(x, pts):
    n = len(pts[0][1])
    out = bytearray(n)
    for i, (xi, yi) in enumerate(pts):
        l = 1
        for j, (xj, _) in enumerate(pts):
            if j != i:
                l = gf_mul(l, gf_mul(x ^ xj, gf_inv(xi ^ xj)))
        for b in range(n):
            out[b] ^= gf_mul(yi[b], l)
    return bytes(out)


# ---------------------------------------------------------------- primitive ops
def check_tables(c):
    exp, log2 = bytes(ShareSet.exp), bytes(ShareSet.log2)
    c.count(("tables",), True)
    c.expect("slip39.tables", "ok %s %s" % (exp.hex(), log2.hex()), {"what": "exp/log tables"}, proven=True)
    cur = 1
    for i in range(255):
        if exp[i] != cur or log2[cur] != i:
            c.fail("exp/log table entry %d is not the power of 3 in GF(256)" % i, {"op": "tables", "i": i})
            break
        cur = gf_mul(cur, 3)
    for a, b in [(3, 7), (0x53, 0xCA), (255, 255), (0, 9), (1, 200)] + [(c.rng.randrange(256), c.rng.randrange(256)) for _ in range(20)]:
        c.expect("slip39.gfmul.spec %d %d" % (a, b), "ok %d" % gf_mul(a, b), {"what": "harness GF(256) vs Lean spec"}, proven=False)


def check_rs(c, n):
    rng = c.rng
    for _ in range(n):
        L = rng.choice([0, 1, 3, 4, 17, 30, rng.randrange(0, 45)])
        vs = [rng.randrange(1024) for _ in range(L)]
        c.count(("rs", tuple(vs)), L > 3)
        c.expect("slip39.polymod " + tl(vs), "ok %d" % rs1024_polymod(vs), {"values": vs}, proven=True)
        cs = rs1024_create_checksum(b"shamir", vs)
        c.expect("slip39.rscreate " + tl(vs), "ok " + " ".join(map(str, cs)), {"values": vs}, proven=True)
        c.expect("slip39.rscreate.spec " + tl(vs), "ok " + " ".join(map(str, cs)), {"values": vs}, proven=True)
        if not rs1024_verify_checksum(b"shamir", vs + cs):
            c.fail("created checksum does not verify", {"op": "rs", "values": vs})
        ws = [rng.randrange(1024) for _ in range(L + 3)] if rng.random() < 0.5 else vs + cs
        r = "ok %d" % (1 if rs1024_verify_checksum(b"shamir", ws) else 0)
        c.expect("slip39.rsverify " + tl(ws), r, {"values": ws}, proven=True)
        c.expect("slip39.rsvalid.spec " + tl(ws), r, {"values": ws}, proven=True)
        c.tally("rs:len%d" % (L // 10 * 10))


def check_interp(c, n):
    rng = c.rng
    for _ in range(n):
        m = rng.randrange(1, 17)
        pool = rng.choice([list(range(16)), list(range(16)) + [254, 255], list(range(256))])
        m = min(m, len(pool) - 1)
        xs = rng.sample(pool, m + 1)
        x, xs = xs[0], xs[1:]
        if rng.random() < 0.3:
            x = rng.choice([254, 255])
            xs = [v for v in xs if v != x] or [0]
        ln = rng.choice([16, 32, 16, 32, 1, 5])
        pts = [(xi, rbytes(rng, ln)) for xi in xs]
        got = bytes(ShareSet.interpolate(x, pts))
        c.count(("interp", x, tuple(pts)), len(pts) > 1)
        c.tally("interp:m%d" % len(pts))
        info = {"x": x, "pts": [(a, b.hex()) for a, b in pts]}
        c.expect("slip39.interp %d %s" % (x, tpoints(pts)), "ok " + hx(got), info, proven=True)
        c.expect("slip39.interp.spec %d %s" % (x, tpoints(pts)), "ok " + hx(got), info, proven=True)
        if got != lagrange_bytes(x, pts):
            c.fail("interpolate differs from Lagrange interpolation over GF(256)", dict(info, op="interp"))


def subsets_of(rng, n, k, exhaustive_upto=6, sampled=10):
    """index subsets (as tuples): exhaustive for small n, sampled around the threshold above"""
    if n <= exhaustive_upto:
        out = [t for r in range(1, n + 1) for t in itertools.combinations(range(n), r)]
    else:
        out = []
        sizes = [k, k, k, k - 1, k - 1, k + 1, n, 1, k - 2] + [rng.randrange(1, n + 1) for _ in range(sampled)]
        for sz in sizes[: sampled + 4]:
            if 1 <= sz <= n:
                out.append(tuple(sorted(rng.sample(range(n), sz))))
        out = sorted(set(out))
    res = []
    for t in out:
        t = list(t)
        if rng.random() < 0.3:
            rng.shuffle(t)
        res.append(t)
    return res


def check_split(c, secret, k, n, full):
    """split_secret / recover_secret at the level of raw share data (no encryption)"""
    rng = c.rng
    tape = Tape(rng)
    st, data = guarded(lambda: ShareSet.split_secret(secret, k, n, randint=tape))
    info = {"secret": secret.hex(), "k": k, "n": n, "tape": tape.tape[:2000]}
    req = "%s %d %d %s" % (hx(secret), k, n, tl(tape.tape))
    c.count(("split", secret, k, n, tuple(tape.tape)), k >= 2)
    c.tally("split:k%d" % (1 if k == 1 else 2 if k == 2 else 3))
    if st != "ok":
        c.expect("slip39.split " + req, "none", info, proven=False)
        if 1 <= k <= n <= 16 and len(secret) in (16, 32):
            c.fail("split_secret raised for valid parameters", dict(info, op="split", exc=repr(data)))
        return
    data = [(x, bytes(b)) for x, b in data]
    c.expect("slip39.split " + req, "ok " + tpoints(data), info, proven=True)
    c.expect("slip39.split.spec " + req, "ok " + tpoints(data), info, proven=True)
    if len(data) != n or len({x for x, _ in data}) != n or len(set(data)) != n:
        c.fail("split does not yield n distinct shares", dict(info, op="split.distinct", got=len(data)))
        return
    if k == 1:
        if any(b != secret for _, b in data):
            c.fail("threshold 1: share value differs from the secret", dict(info, op="split.k1"))
        return
    for t in subsets_of(rng, n, k, sampled=6 if not full else 14):
        sub = [data[i] for i in t]
        st2, got = guarded(lambda: bytes(ShareSet.recover_secret(sub)))
        r = "ok " + hx(got) if st2 == "ok" else "none"
        sinfo = dict(info, subset=t)
        c.count(("recsecret", tuple(sub)), True)
        c.expect("slip39.recsecret " + tpoints(sub), r, sinfo, proven=len(t) >= k)
        if len(t) == k:
            c.expect("slip39.recsecret.spec %d %s" % (k, tpoints(sub)), r, sinfo, proven=True)
        if len(t) >= k and r != "ok " + hx(secret):
            c.fail("a subset of >= k shares does not recover the secret", dict(sinfo, op="recsecret", got=r))
        if len(t) < k and st2 == "ok":
            c.fail("a subset of < k shares returned a secret", dict(sinfo, op="recsecret", got=r))
        c.tally("recsecret:" + ("ge_k" if len(t) >= k else "lt_k"))


# ---------------------------------------------------------------- share text
def impl_parse(m):
    st, s = guarded(lambda: Share.parse(m))
    return s if st == "ok" else None


def check_parse_idx(c, idx, kind, expect_reject=False, to_driver=True, spec=True):
    """Share.parse on a word-index list: impl vs model (vs spec), accepted => re-encodes to itself"""
    m = words_of(idx)
    s = impl_parse(m)
    r = "ok " + share_toks(s) if s is not None else "none"
    c.count(("parse", tuple(idx)), True)
    c.tally("parse:%s:%s" % (kind, "accepted" if s is not None else "rejected"))
    info = {"kind": kind, "indices": idx}
    if to_driver:
        c.expect("share.parse " + tl(idx), r, info, proven=True)
        if spec and (s is None or s.exponent < 16):
            c.expect("share.decode.spec " + tl(idx), r, info, proven=True)     # share_parse_eq_spec
    if s is not None:
        if expect_reject:
            c.fail("a corrupted share mnemonic was accepted (%s)" % kind, dict(info, op="share.parse", parsed=r))
        st, back = guarded(lambda: s.mnemonic())
        if st != "ok" or back != m:
            c.fail("accepted mnemonic does not re-encode to itself (%s)" % kind,
                   dict(info, op="share.roundtrip", reencoded=(back if st == "ok" else repr(back))))
    return s


def rand_share(rng, sbl=None):
    sbl = sbl or rng.choice([128, 256, 128, 256, 144, 160, 192, 240, 320])
    gc = rng.randrange(1, 17)
    return dict(share_bit_length=sbl, id=rng.getrandbits(15), exponent=rng.choice([0, 1, 2, 3, rng.randrange(32)]),
                group_index=rng.randrange(16), group_threshold=rng.randrange(1, gc + 1), group_count=gc,
                member_index=rng.randrange(16), member_threshold=rng.randrange(1, 17),
                value=int.from_bytes(rbytes(rng, sbl // 8), "big"))


def check_share_fields(c, n):
    rng = c.rng
    for _ in range(n):
        f = rand_share(rng)
        bad = rng.random() < 0.15
        if bad:
            which = rng.choice(["gt", "gc", "gi", "mi", "mt", "value"])
            if which == "gt":
                f["group_threshold"] = rng.choice([0, f["group_count"] + 1])
            elif which == "gc":
                f["group_count"] = rng.choice([0, 17])
            elif which == "gi":
                f["group_index"] = 16
            elif which == "mi":
                f["member_index"] = 16
            elif which == "mt":
                f["member_threshold"] = rng.choice([0, 17])
            else:
                f["value"] = 1 << f["share_bit_length"]
        st, s = guarded(lambda: Share(**f))
        vb = f["value"].to_bytes(f["share_bit_length"] // 8 + (1 if f["value"] >> f["share_bit_length"] else 0), "big")
        toks = "%d %d %d %d %d %d %d %d %s" % (f["share_bit_length"], f["id"], f["exponent"], f["group_index"],
                                               f["group_threshold"], f["group_count"], f["member_index"],
                                               f["member_threshold"], hx(vb))
        info = {"fields": {k: str(v) for k, v in f.items()}}
        c.count(("fields", toks), True)
        if st != "ok":
            c.expect("share.mnemonic " + toks, "none", info, proven=False)
            c.tally("share.new:rejected")
            continue
        m = s.mnemonic()
        idx = idx_of(m)
        c.tally("share.new:ok:sbl%d" % f["share_bit_length"])
        # share_mnemonic_eq_spec: the model's mnemonic is the standard's encodeShare for extendable flag 0
        c.expect("share.mnemonic " + toks, "ok " + tl(idx), info, proven=f["exponent"] < 16)
        if f["exponent"] < 16:
            c.expect("share.encode.spec " + toks, "ok " + tl(idx), info, proven=True)
        else:
            # extendable bit set: the standard's text differs in the checksum only (customisation string)
            def rel(out, idx=idx):
                o = out.split()
                same_data = o[:1] == ["ok"] and o[2:-3] == [str(x) for x in idx[:-3]]
                return "data-words-equal checksum-differs" if same_data and o[-3:] != [str(x) for x in idx[-3:]] else out
            c.expect("share.encode.spec " + toks, "data-words-equal checksum-differs", info, proven=True, canon=rel)
            c.tally("share.extbit:checked")
        back = check_parse_idx(c, idx, "printed")
        if back is None or share_toks(back) != share_toks(s):
            c.fail("parse(mnemonic(share)) is not the share", dict(info, op="share.text", mnemonic=m))


def check_parse_variants(c, n):
    """near-valid mnemonics with a correct checksum: wrong lengths, padding bits, Gt > g, random data"""
    rng = c.rng
    for _ in range(n):
        kind = rng.choice(["len", "len", "pad", "gtgc", "random", "short", "cs"])
        if kind == "short":
            L = rng.randrange(0, 8)
        elif kind == "len":
            L = rng.choice([16, 17, 18, 19, 20, 21, 22, 23, 24, 25, 26, 27, 28, 30, 31, 32, 33, 34, 35, 36, 37, 40])
        else:
            L = rng.choice([20, 33])
        body = [rng.randrange(1024) for _ in range(max(L - 3, 0))]
        if L >= 7 and kind != "random":
            # keep Gt <= g and zero padding unless the kind says otherwise
            gc = rng.randrange(1, 17)
            gt = rng.randrange(1, gc + 1)
            if kind == "gtgc" and gc < 16:
                gt = rng.randrange(gc + 1, 17)
            gi, mi, mt = rng.randrange(16), rng.randrange(16), rng.randrange(1, 17)
            bits = (gi << 16) | ((gt - 1) << 12) | ((gc - 1) << 8) | (mi << 4) | (mt - 1)
            body[2], body[3] = bits >> 10, bits & 1023
            nv = L - 7
            sbl = nv * 10 // 16 * 16
            padbits = nv * 10 - sbl
            if nv > 0 and padbits:
                val = rng.getrandbits(sbl) if sbl else 0
                if kind == "pad":
                    val |= 1 << (sbl + rng.randrange(padbits))
                for j in range(nv):
                    body[4 + j] = (val >> (10 * (nv - 1 - j))) & 1023
        cs = b"shamir"
        if kind == "cs":
            cs = rng.choice([b"shamir_extendable", b"", b"shamis", b"Shamir", b"shami", b"shamirr", bytes(rng.getrandbits(8) for _ in range(6))])
        idx = body + (rs1024_create_checksum(cs, body) if L >= 3 else [])
        idx = idx[:L] if L < 3 else idx
        check_parse_idx(c, idx, "variant:" + kind, expect_reject=(kind == "cs" and cs != b"shamir"), spec=(kind != "cs"))


def check_substitutions(c, m, exhaustive_positions, n23, driver_sample):
    """1-3 word substitutions of a valid share mnemonic must be rejected"""
    rng = c.rng
    idx = idx_of(m)
    L = len(idx)
    polymod_prefix = [x for x in b"shamir"]
    positions = range(L) if exhaustive_positions is None else exhaustive_positions
    cnt = 0
    for p in positions:
        for v in range(1024):
            if v == idx[p]:
                continue
            mut = idx[:p] + [v] + idx[p + 1:]
            cnt += 1
            # fast path on the checksum function itself; every 97th case also through Share.parse
            ok = rs1024_polymod(polymod_prefix + mut) == 1
            c.count(("sub1", L, p, v, idx[p]), True)
            if ok:
                c.fail("single-word substitution passes the RS1024 checksum", {"op": "sub1", "indices": mut, "orig": idx})
            if cnt % 97 == 0:
                check_parse_idx(c, mut, "sub1", expect_reject=True, to_driver=(cnt % (97 * driver_sample) == 0), spec=False)
    c.tally("sub1:%dwords" % L, cnt)
    for _ in range(n23):
        e = rng.choice([2, 3])
        ps = rng.sample(range(L), e)
        mut = list(idx)
        for p in ps:
            mut[p] = (mut[p] + rng.randrange(1, 1024)) % 1024 if rng.random() < 0.7 else mut[p] ^ (1 << rng.randrange(10))
        c.tally("sub%d:%dwords" % (e, L))
        check_parse_idx(c, mut, "sub%d" % e, expect_reject=True, to_driver=(rng.random() < 0.25), spec=False)
    # four substitutions may or may not be caught; only the correspondence is checked
    for _ in range(max(n23 // 20, 2)):
        ps = rng.sample(range(L), 4)
        mut = list(idx)
        for p in ps:
            mut[p] = (mut[p] + rng.randrange(1, 1024)) % 1024
        check_parse_idx(c, mut, "sub4")


# ---------------------------------------------------------------- full pipeline
def impl_recover(ms, passphrase):
    st, r = guarded(lambda: ShareSet.recover_mnemonic(ms, passphrase))
    return (mnemonic_to_bytes(r) if st == "ok" else None), (None if st == "ok" else r)


def expect_recover(c, mode, ms, passphrase, info, proven):
    got, exc = impl_recover(ms, passphrase)
    r = "ok " + hx(got) if got is not None else "none"
    c.expect("slip39.recover %s %s %s" % (mode, hx(passphrase), tmnems(ms)), r, info, proven=proven)
    return got


def generate(c, mode, secret, k, n, passphrase, e, first_id=None, style=None):
    tape = Tape(c.rng, first=first_id, style=style)
    bip = mnemonic_from_bytes(secret)
    st, ms = guarded(lambda: ShareSet.generate_shares(bip, k, n, passphrase=passphrase, exponent=e, randint=tape))
    info = {"secret": secret.hex(), "k": k, "n": n, "passphrase": passphrase.hex(), "exponent": e, "kdf": mode,
            "tape": tape.tape[:2000]}
    req = "slip39.generate %s %s %d %d %s %d %s" % (mode, hx(secret), k, n, hx(passphrase), e, tl(tape.tape))
    if st != "ok":
        c.expect(req, "none", info, proven=False)
        if 1 <= k <= n <= 16:
            c.fail("generate_shares raised for valid parameters", dict(info, op="generate", exc=repr(ms)))
        return None, info
    c.expect(req, "ok %d %s" % (len(ms), " ".join(tl(idx_of(m)) for m in ms)), info, proven=False)
    # Props/C16Y.lean generate_draws / generate_succeeds_iff: the exact number of randint calls
    draws = 1 + (0 if k == 1 else (len(secret) - 4) + (k - 2) * len(secret))
    c.tally("gen:draws:" + ("exact" if len(tape.tape) == draws else "differs"))
    if len(tape.tape) != draws:
        c.fail("generate_shares drew %d random numbers, the proved count is %d" % (len(tape.tape), draws),
               dict(info, op="generate.draws"))
    return ms, info


def check_pipeline(c, mode, secret, k, n, passphrase, e, sampled=8, subsets=None, parse_each=True):
    rng = c.rng
    with kdf(mode):
        ms, info = generate(c, mode, secret, k, n, passphrase, e)
        c.count(("gen", mode, secret, k, n, passphrase, e, tuple(info["tape"][:40])), True)
        c.tally("gen:%s:%s:e%d" % (mode, "k1" if k == 1 else "k=n" if k == n else "k<n", e))
        if ms is None:
            return None
        if len(ms) != n or len(set(ms)) != n:
            c.fail("generate_shares does not yield n distinct shares", dict(info, op="generate.distinct", got=len(ms), shares=ms))
            return None
        if parse_each:
            for m in ms:
                s = check_parse_idx(c, idx_of(m), "generated")
                if s is None:
                    c.fail("generated share does not parse", dict(info, op="generate.parse", mnemonic=m))
        for t in (subsets if subsets is not None else subsets_of(rng, len(ms), k, sampled=sampled)):
            sub = [ms[i] for i in t]
            sinfo = dict(info, subset=t)
            got = expect_recover(c, mode, sub, passphrase, sinfo, proven=len(t) >= k)
            c.count(("recover", mode, tuple(sub), passphrase), True)
            c.tally("recover:" + ("ge_k" if len(t) >= k else "lt_k"))
            if len(t) >= k and got != secret:
                c.fail("a subset of >= k shares does not recover the secret",
                       dict(sinfo, op="recover", got=(got.hex() if got is not None else None)))
            if len(t) < k and got is not None:
                c.fail("a subset of < k shares returned a secret", dict(sinfo, op="recover", got=got.hex()))
    return ms


def reprint(m, **changes):
    """a share mnemonic with some header fields / value replaced and the checksum recomputed"""
    s = Share.parse(m)
    f = dict(share_bit_length=s.share_bit_length, id=s.id, exponent=s.exponent, group_index=s.group_index,
             group_threshold=s.group_threshold, group_count=s.group_count, member_index=s.member_index,
             member_threshold=s.member_threshold, value=s.value)
    f.update(changes)
    return Share(**f).mnemonic()


def refused(c, what, ms, passphrase, info, proven=True):
    got = expect_recover(c, "fake", ms, passphrase, info, proven=proven)
    c.count(("refuse", what, tuple(ms)), True)
    c.tally("refuse:" + what + (":accepted" if got is not None else ":refused"))
    if got is not None:
        c.fail("%s was not refused: a secret was returned" % what, dict(info, op="refuse:" + what, got=got.hex(), shares=ms))


def check_mixed_and_digest(c, rounds):
    rng = c.rng
    with kdf("fake"):
        for _ in range(rounds):
            size = rng.choice([16, 32])
            n = rng.randrange(2, 9)
            k = rng.randrange(2, n + 1)
            e = rng.randrange(4)
            pw = rpass(rng)
            id1 = rng.getrandbits(15)
            id2 = (id1 + rng.randrange(1, 1 << 15)) % (1 << 15)
            sec1, sec2 = rbytes(rng, size), rbytes(rng, size)
            a, ia = generate(c, "fake", sec1, k, n, pw, e, first_id=id1, style="uniform")
            b, _ = generate(c, "fake", rng.choice([sec1, sec2]), k, n, pw, e, first_id=id2, style="uniform")
            b2, _ = generate(c, "fake", sec2, k, n, pw, e, first_id=id1, style="uniform")
            if a is None or b is None or b2 is None:
                continue
            info = dict(ia, k=k, n=n)
            pick = sorted(rng.sample(range(n), k))
            j = rng.randrange(k)
            # different identifier
            mix = [a[i] for i in pick]
            mix[j] = b[pick[j]]
            refused(c, "mixed:id", mix, pw, info)
            # the same share re-labelled with another identifier (only the header check can tell)
            mix = [a[i] for i in pick]
            mix[j] = reprint(mix[j], id=id2)
            refused(c, "mixed:id-relabelled", mix, pw, info)
            # same identifier, another split of another secret: only the digest can tell
            if sec1 != sec2:
                mix = [a[i] for i in pick]
                mix[j] = b2[pick[j]]
                refused(c, "mixed:same-id-other-split", mix, pw, info)
            # header disagreements, same identifier
            base = [a[i] for i in pick]
            for what, ch in (("exponent", dict(exponent=(e + rng.randrange(1, 32)) % 32)),
                             ("group_threshold", dict(group_threshold=(k - 1 if k > 2 and rng.random() < 0.5 else min(k + 1, n)) if k != n else k - 1)),
                             ("group_count", dict(group_count=n + 1 if n < 16 else n - 1)),
                             ("length", dict(share_bit_length=(256 if size == 16 else 128), value=rng.getrandbits(128)))):
                mix = list(base)
                st, mm = guarded(lambda: reprint(mix[j], **ch))
                if st != "ok" or mm == mix[j]:
                    continue
                mix[j] = mm
                refused(c, "mixed:" + what, mix, pw, info)
            # the same share twice / same index twice
            mix = list(base)
            mix[j] = mix[(j + 1) % k]
            refused(c, "mixed:duplicate", mix, pw, info)
            # k distinct shares plus a redundant copy: refused by the uniqueness check (correspondence only)
            mix = list(base) + [base[j]]
            got = expect_recover(c, "fake", mix, pw, dict(info, what="duplicate-extra"), proven=True)
            c.count(("dup-extra", tuple(mix)), True)
            c.tally("refuse:duplicate-extra" + (":accepted" if got is not None else ":refused"))
            if got is not None and got != sec1:
                c.fail("share set with a duplicated share returned a wrong secret", dict(info, op="dup-extra", got=got.hex()))
            # fewer than k after removing one
            if k >= 2:
                refused(c, "fewer", base[:-1], pw, info)
            # bad digest: one value byte corrupted, checksum repaired
            for extra in (0, 1):
                if k + extra > n:
                    continue
                pick2 = sorted(rng.sample(range(n), k + extra))
                mix = [a[i] for i in pick2]
                jj = rng.randrange(len(mix))
                s = Share.parse(mix[jj])
                pos = rng.randrange(size)
                delta = rng.randrange(1, 256) << (8 * pos)
                mix[jj] = reprint(mix[jj], value=s.value ^ delta)
                refused(c, "bad-digest", mix, pw, dict(info, corrupted=jj, byte=pos))
            # member-threshold mismatch inside one group is refused (two shares, same group index)
            s0 = Share.parse(base[0])
            mix = [reprint(base[0], member_threshold=2, member_index=0), reprint(base[0], member_threshold=3, member_index=1)] + base[1:]
            refused(c, "mixed:member-threshold", mix, pw, info)


def check_mixed_threshold_one(c, rounds):
    """Threshold 1 — an EXPECTED, DOCUMENTED behaviour, not a refusal (audit A11 / I-16.2).

    SLIP-0039 has no digest share at threshold 1: every share carries the encrypted secret itself. Two share sets of
    two DIFFERENT secrets generated with the same identifier / exponent / passphrase / n and threshold 1 have identical
    headers; one share of each (different indices) is accepted by embit, which accepts more shares than the threshold
    asks for, and `recover` returns `decrypt(share_data[0][1])`: the secret of the share that comes first in GROUP
    order (smaller group index; list order inside one group) — Props/C16Y.lean `mixed_threshold_one_generated`,
    `mixed_threshold_one_returns_first`. The standard calls the two-share set invalid by counting
    (`mixed_threshold_one_invalid_for_standard`; spec ops below). Same index twice is refused by the uniqueness check
    (`mixed_threshold_one_same_index_refused`). Tallies, not failures, as long as embit does exactly this."""
    rng = c.rng
    with kdf("fake"):
        for _ in range(rounds):
            size = rng.choice([16, 32])
            n = rng.randrange(2, 17)
            e = rng.randrange(4)
            pw = rpass(rng)
            ident = rng.getrandbits(15)
            sec1 = rbytes(rng, size)
            sec2 = rbytes(rng, size)
            while sec2 == sec1:
                sec2 = bytes(rng.getrandbits(8) for _ in range(size))
            a, ia = generate(c, "fake", sec1, 1, n, pw, e, first_id=ident, style="uniform")
            b, _ = generate(c, "fake", sec2, 1, n, pw, e, first_id=ident, style="uniform")
            if a is None or b is None:
                continue
            i, j = rng.sample(range(n), 2)
            info = dict(ia, secret2=sec2.hex(), i=i, j=j, what="threshold-1 mixed set (documented: first in group order)")
            # (a) one share of each set, different group indices, both list orders: the smaller group index decides
            first = sec1 if i < j else sec2
            cases = [("groups", [a[i], b[j]], first), ("groups-swapped", [b[j], a[i]], first)]
            # (b) both shares in ONE group (member threshold 1, member indices 0 and 1): list order decides
            x = reprint(b[j], group_index=i, member_index=1)
            cases += [("members", [a[i], x], sec1), ("members-swapped", [x, a[i]], sec2)]
            for kind, mix, want in cases:
                minfo = dict(info, kind=kind, shares=mix, expected=want.hex())
                got = expect_recover(c, "fake", mix, pw, minfo, proven=True)     # mixed_threshold_one_* (C16Y)
                # the standard: not a valid set (two shares where the thresholds are 1), combination refuses
                c.expect("slip39.validset.spec " + tmnems(mix), "ok 0", minfo, proven=True)
                c.expect("slip39.combine.spec fake %s %s" % (hx(pw), tmnems(mix)), "none", minfo, proven=True)
                c.count(("mixed-k1", kind, tuple(mix), pw), True)
                if got == want:
                    c.tally("mixed:k1:first-returned")
                    c.tally("mixed:k1:first-returned:" + kind)
                elif got is None:
                    # stricter than documented (e.g. a future embit comparing the values / counting shares): not a
                    # violation of the property, but no longer the behaviour the theorem describes -> model mismatch
                    c.tally("mixed:k1:refused:" + kind)
                elif got in (sec1, sec2):
                    c.tally("mixed:k1:other-returned:" + kind)
                    c.fail("threshold-1 mixed set: embit returned the secret of the share that is NOT first in group "
                           "order (documented behaviour changed)", dict(minfo, op="mixed-k1", got=got.hex()))
                else:
                    c.fail("threshold-1 mixed set: embit returned a value that is neither of the two secrets",
                           dict(minfo, op="mixed-k1", got=got.hex()))
            # (c) the same index of both sets: refused by the index-uniqueness check, whatever the values
            refused(c, "mixed:k1:same-index", [a[i], b[i]], pw, dict(info, kind="same-index"))
            # (d) a single share of either set is a valid set and gives that set's secret
            for one, want in ((a[i], sec1), (b[j], sec2)):
                got = expect_recover(c, "fake", [one], pw, dict(info, kind="single", shares=[one]), proven=True)
                c.expect("slip39.validset.spec " + tmnems([one]), "ok 1", dict(info, kind="single"), proven=True)
                c.count(("single-k1", one, pw), True)
                c.tally("mixed:k1:single:" + ("recovered" if got == want else "wrong"))
                if got != want:
                    c.fail("a single threshold-1 share does not return its secret",
                           dict(info, op="single-k1", shares=[one], got=(got.hex() if got is not None else None)))


def check_two_level(c, rounds):
    """group shares built by the harness from embit's own split_secret (embit only generates one level)"""
    rng = c.rng
    with kdf("fake"):
        for _ in range(rounds):
            size = rng.choice([16, 32])
            secret = rbytes(rng, size)
            pw = rpass(rng)
            e = rng.randrange(4)
            ident = rng.getrandbits(15)
            gn = rng.randrange(1, 5)
            gt = rng.randrange(1, gn + 1)
            ems = ShareSet.encrypt(secret, ident, e, pw)
            tape = Tape(rng, style="uniform")
            gshares = ShareSet.split_secret(ems, gt, gn, randint=tape)
            groups = []
            for gi, gsec in gshares:
                mn = rng.randrange(1, 5)
                mt = rng.randrange(1, mn + 1)
                members = ShareSet.split_secret(bytes(gsec), mt, mn, randint=tape)
                groups.append([(mt, Share(size * 8, ident, e, gi, gt, gn, mi, mt, int.from_bytes(mb, "big")).mnemonic())
                               for mi, mb in members])
            info = {"secret": secret.hex(), "groups": [[m for _, m in g] for g in groups], "gt": gt, "passphrase": pw.hex()}
            # exact sets (valid in the sense of the standard): gt groups, from each exactly its member threshold
            for rep in range(3):
                chosen = []
                for g in rng.sample(groups, gt):
                    chosen += [m for _, m in rng.sample(g, g[0][0])]
                rng.shuffle(chosen)
                if rep == 2:
                    # one share value corrupted (checksum repaired): digest failure or, without digest, another secret
                    j = rng.randrange(len(chosen))
                    sj = Share.parse(chosen[j])
                    chosen[j] = reprint(chosen[j], value=sj.value ^ (1 << rng.randrange(size * 8)))
                einfo = dict(info, chosen=chosen, exact=True, corrupted=(rep == 2))
                got = expect_recover(c, "fake", chosen, pw, einfo, proven=True)          # group_recover_eq_spec
                c.expect("slip39.validset.spec " + tmnems(chosen), "ok 1", einfo, proven=True)
                c.expect("slip39.combine.spec fake %s %s" % (hx(pw), tmnems(chosen)),
                         "ok " + hx(got) if got is not None else "none", einfo, proven=True)
                c.count(("twolevel-exact", tuple(chosen)), True)
                c.tally("twolevel-exact:" + ("corrupted:" if rep == 2 else "") + ("recovered" if got is not None else "refused"))
                if rep != 2 and got != secret:
                    c.fail("a valid (exact) group share set did not return the secret",
                           dict(einfo, op="twolevel-exact", got=(got.hex() if got is not None else None)))
                if rep == 2 and got == secret:
                    c.fail("a corrupted share value went unnoticed", dict(einfo, op="twolevel-exact"))
            for _ in range(6):
                chosen = []
                full_groups = 0
                short = False
                exact = True
                ngroups = 0
                for g in groups:
                    mt = g[0][0]
                    cnt = rng.choice([0, mt, mt, len(g), max(mt - 1, 0), rng.randrange(0, len(g) + 1)])
                    sel = rng.sample(g, cnt)
                    chosen += [m for _, m in sel]
                    if cnt >= mt:
                        full_groups += 1
                    elif cnt > 0:
                        short = True
                    if cnt > 0:
                        ngroups += 1
                        exact = exact and cnt == mt
                exact = exact and ngroups == gt
                if not chosen:
                    continue
                rng.shuffle(chosen)
                # every case is covered by a theorem of Props/C16X: exact -> group_recover_eq_spec; all present groups
                # complete and >= gt of them -> two_level_sufficient_set_recovers; a group below its member threshold ->
                # fewer_members_refused; fewer than gt groups (then gt >= 2) -> fewer_groups_refused
                got = expect_recover(c, "fake", chosen, pw, dict(info, chosen=chosen), proven=True)
                # the standard accepts exactly the exact sets; embit also accepts supersets
                c.expect("slip39.validset.spec " + tmnems(chosen), "ok %d" % (1 if exact else 0), dict(info, chosen=chosen),
                         proven=True)
                if exact:
                    c.expect("slip39.combine.spec fake %s %s" % (hx(pw), tmnems(chosen)),
                             "ok " + hx(got) if got is not None else "none", dict(info, chosen=chosen), proven=True)
                c.count(("twolevel", tuple(chosen)), True)
                c.tally("twolevel:" + ("recovered" if got is not None else "refused") + (":exact" if exact else ""))
                if got is not None and got != secret:
                    c.fail("group share set returned a wrong secret", dict(info, op="twolevel", chosen=chosen, got=got.hex()))
                if got is None and full_groups >= gt and not short:
                    c.fail("a sufficient group share set was refused", dict(info, op="twolevel", chosen=chosen))
                if got is not None and full_groups < gt:
                    c.fail("an insufficient group share set returned a secret", dict(info, op="twolevel", chosen=chosen, got=got.hex()))
                if got is not None and short:
                    # fewer_members_refused: a group below its member threshold raises even if enough others are complete
                    c.fail("a set with a group below its member threshold returned a secret",
                           dict(info, op="twolevel", chosen=chosen, got=got.hex()))


def check_crypt(c, mode, n):
    rng = c.rng
    with kdf(mode):
        for _ in range(n):
            ln = rng.choice([16, 32, 16, 32, 2, 18, 15, 0]) if mode == "fake" else rng.choice([16, 32])
            payload = rbytes(rng, ln)
            ident = rng.getrandbits(15) if rng.random() < 0.9 else rng.choice([0, 32767, 65535, 65536])
            e = rng.randrange(4)
            pw = rpass(rng)
            st, enc = guarded(lambda: ShareSet.encrypt(payload, ident, e, pw))
            r = "ok " + hx(enc) if st == "ok" else "none"
            info = {"payload": payload.hex(), "id": ident, "e": e, "passphrase": pw.hex(), "kdf": mode}
            c.count(("crypt", mode, payload, ident, e, pw), ln >= 16)
            c.tally("crypt:%s:%s" % (mode, "ok" if st == "ok" else "raise"))
            c.expect("slip39.crypt %s enc %s %d %d %s" % (mode, hx(payload), ident, e, hx(pw)), r, info, proven=True)
            if st == "ok":
                c.expect("slip39.crypt.spec %s enc %s %d %d %s" % (mode, hx(payload), ident, e, hx(pw)), r, info, proven=True)
                ss = ShareSet([Share(len(payload) * 8 if ln in (16, 32) else 128, ident, e, 0, 1, 1, 0, 1, 0)])
                st2, dec = guarded(lambda: ss.decrypt(enc, pw))
                if st2 != "ok" or dec != payload:
                    c.fail("decrypt(encrypt(x)) != x", dict(info, op="crypt"))
                if mode == "fake" or rng.random() < 0.3:
                    c.expect("slip39.crypt %s dec %s %d %d %s" % (mode, hx(enc), ident, e, hx(pw)), "ok " + hx(payload), info, proven=True)


# ---------------------------------------------------------------- official vectors from the repo's tests
def repo_vectors():
    """(name, [mnemonics], expected hex | None) taken from tests/tests/test_slip39.py (Trezor's vectors.json)"""
    p = os.path.join(REPO, "tests", "tests", "test_slip39.py")
    if not os.path.exists(p):
        return []
    out = []
    tree = ast.parse(open(p).read())
    for node in ast.walk(tree):
        if isinstance(node, ast.Assign) and any(isinstance(t, ast.Name) and t.id == "test_cases" for t in node.targets) \
                and isinstance(node.value, ast.List):
            for el in node.value.elts:
                if isinstance(el, ast.List) and len(el.elts) == 3 and isinstance(el.elts[1], ast.List):
                    name = el.elts[0].value
                    ms = [x.value for x in el.elts[1].elts]
                    third = el.elts[2]
                    exp = third.value if isinstance(third, ast.Constant) and isinstance(third.value, str) else None
                    out.append((name, ms, exp))
    return out


def check_vectors(c, limit=None):
    vs = repo_vectors()
    c.extra["official_vectors"] = len(vs)
    for name, ms, exp in vs[:limit]:
        def run():
            return ShareSet([Share.parse(m) for m in ms]).recover(b"TREZOR")
        st, got = guarded(run, 60)
        r = "ok " + hx(got) if st == "ok" else "none"
        info = {"vector": name, "mnemonics": ms}
        c.count(("vector", name), True)
        c.tally("vector:" + ("valid" if exp else "invalid"))
        try:
            req = "slip39.recover real %s %s" % (hx(b"TREZOR"), tmnems(ms))
        except KeyError:
            continue
        c.expect(req, r, info, proven=False)
        # the standard's two-level combination (Spec/Slip39Groups.lean) on the official vectors: the valid ones are
        # exact sets and give the published secret, the invalid ones are refused
        c.expect("slip39.combine.spec real %s %s" % (hx(b"TREZOR"), tmnems(ms)), "ok " + exp if exp is not None else "none",
                 info, proven=True)
        if exp is not None and r != "ok " + exp:
            c.fail("official SLIP-0039 vector not recovered", dict(info, op="vector", got=r, expected=exp))
        if exp is None and st == "ok":
            c.fail("invalid official SLIP-0039 vector accepted", dict(info, op="vector", got=r))
        for m in ms:
            check_parse_idx(c, idx_of(m), "vector")


def corpus(c):
    p = os.path.join(VERIF, "corpus", "C16.json")
    if not os.path.exists(p):
        return
    for e in json.load(open(p)):
        if e["kind"] == "parse":
            check_parse_idx(c, e["indices"], "corpus:" + e.get("what", ""), expect_reject=e.get("reject", False))
        elif e["kind"] == "generate":
            check_pipeline(c, "fake", bytes.fromhex(e["secret"]), e["k"], e["n"], bytes.fromhex(e.get("passphrase", "")),
                           e.get("exponent", 0))


# ---------------------------------------------------------------- exploration
def explore(c, tier):
    rng = c.rng
    quick = tier == "quick"
    check_tables(c)
    check_rs(c, 150 if quick else 1500)
    check_interp(c, 150 if quick else 2000)
    check_share_fields(c, 150 if quick else 2000)
    check_parse_variants(c, 200 if quick else 3000)
    c.flush()
    # raw split / recover_secret over every 1 <= k <= n <= 16
    for rep in range(1 if quick else 6):
        for n in range(1, 17):
            for k in range(1, n + 1):
                size = rng.choice([16, 32])
                check_split(c, rbytes(rng, size), k, n, full=not quick)
        c.flush()
    # invalid parameters
    for (k, n, ln) in [(0, 3, 16), (4, 3, 16), (2, 17, 16), (1, 0, 16), (2, 3, 15), (2, 3, 20), (2, 3, 0), (1, 17, 32)]:
        check_split(c, bytes(ln), k, n, full=False)
    # whole pipeline (cheap round function): every 1 <= k <= n <= 16, both sizes over the run
    shares_for_subst = []
    for rep in range(1 if quick else 6):
        for n in range(1, 17):
            for k in range(1, n + 1):
                size = rng.choice([16, 32])
                ms = check_pipeline(c, "fake", rbytes(rng, size), k, n, rpass(rng), rng.randrange(4),
                                    sampled=(6 if quick else 14), parse_each=(n <= 4 or rng.random() < 0.2))
                if ms:
                    shares_for_subst.append(rng.choice(ms))
            c.flush()
    check_mixed_and_digest(c, 25 if quick else 300)
    check_mixed_threshold_one(c, 20 if quick else 250)
    check_two_level(c, 15 if quick else 200)
    check_crypt(c, "fake", 60 if quick else 600)
    c.flush()
    # real PBKDF2-HMAC-SHA256
    check_crypt(c, "real", 4 if quick else 60)
    for (k, n) in ([(1, 1), (2, 3), (3, 5), (1, 2)] if quick else [(1, 1), (1, 3), (2, 2), (2, 3), (3, 5), (5, 5), (2, 16), (16, 16), (9, 12), (4, 6)]):
        size = rng.choice([16, 32])
        e = rng.randrange(4) if not quick else rng.randrange(2)
        sub = [sorted(rng.sample(range(n), k))] + ([sorted(rng.sample(range(n), k - 1))] if k > 1 else [])
        check_pipeline(c, "real", rbytes(rng, size), k, n, rpass(rng), e, subsets=sub, parse_each=False)
    check_vectors(c)
    c.flush()
    # substitutions
    by_len = {}
    for m in shares_for_subst:
        by_len.setdefault(len(m.split()), []).append(m)
    for L, lst in sorted(by_len.items()):
        take = lst[: (1 if quick else 8)]
        for m in take:
            check_substitutions(c, m, None, 300 if quick else 3000, driver_sample=(8 if quick else 3))
        for m in lst[len(take): len(take) + (3 if quick else 12)]:
            check_substitutions(c, m, rng.sample(range(L), 2), 100 if quick else 600, driver_sample=8)
    c.flush()


def run(tier, seed):
    c = Check(PROP, MODS, tier, seed)
    c.rule = ("every 1<=k<=n<=16 at raw split level and through generate_shares/recover_mnemonic (128- and 256-bit secrets, "
              "passphrases, exponents 0-3, injected randint tape incl. constant/edge tapes), subsets exhaustive for n<=6 and "
              "sampled around the threshold above; mixed sets (other id / same id other split / exponent / thresholds / "
              "counts / length / duplicates), threshold-1 mixed sets of two secrets with identical headers (expected: first secret in "
              "group order, tallied mixed:k1:*), corrupted value byte with repaired checksum, all single-word substitutions of "
              "sampled 20- and 33-word shares, sampled 2-3 word substitutions, near-valid mnemonics (lengths 0-40, padding "
              "bits, Gt>g), two-level group sets, official vectors from the repo tests; a case is distinct by content and "
              "non-trivial when k>=2 or it is a mutated/assembled share set")
    c.assumptions = ["the subset sweeps use a cheap stand-in for PBKDF2 patched into embit.slip39.hashlib (theorems are generic "
                     "in the round function); real PBKDF2-HMAC-SHA256 is exercised on fewer cases and the official vectors",
                     "BIP39 conversion of the 16/32-byte secret (mnemonic_to/from_bytes) is C15's subject and assumed bijective",
                     "word <-> index conversion is outside the model (the word list is checked to hold 1024 distinct words)",
                     "a wrong-digest acceptance has probability 2^-32 per case for a random corruption (4-byte digest)"]
    c.build_and_audit()
    if len(W) != 1024 or len(set(W)) != 1024:
        c.fail("SLIP39 word list does not hold 1024 distinct words", {"op": "wordlist"})
    corpus(c)
    explore(c, tier)
    return c.finish(search=lambda cc: explore(cc, "quick"))


def replay(path):
    """re-evaluates one recorded case on the real code, the model and (where there is one) the spec"""
    r = json.load(open(path))
    print(json.dumps({k: r[k] for k in r if k not in ("broken_obligations",)}, indent=1, default=str)[:4000])
    mode = r.get("kdf", (r.get("info") or {}).get("kdf", "fake"))
    if r.get("request"):
        print("model/spec:", run_driver([r["request"]])[0][:2000])
        print("impl (as recorded):", r.get("impl", "")[:2000])
        req = r["request"].split(" ")
        if req[0] in ("slip39.recover", "slip39.combine.spec"):
            import ast as _ast
            ms_idx, pos, cnt = [], 4, int(req[3])
            for _ in range(cnt):
                ln = int(req[pos]); ms_idx.append([int(x) for x in req[pos + 1: pos + 1 + ln]]); pos += 1 + ln
            with kdf(req[1]):
                got, exc = impl_recover([words_of(ix) for ix in ms_idx], bytes.fromhex(req[2]) if req[2] != "-" else b"")
            print("impl (now):", ("ok " + hx(got)) if got is not None else "none (%r)" % exc)
        if req[0] == "share.parse":
            idx = [int(x) for x in req[2:]]
            st, s = guarded(lambda: Share.parse(words_of(idx)))
            print("impl (now):", ("ok " + share_toks(s)) if st == "ok" else "none (%r)" % s)
        return 0
    if r.get("indices"):
        idx = r["indices"] if isinstance(r["indices"], list) else json.loads(r["indices"])
        st, s = guarded(lambda: Share.parse(words_of(idx)))
        print("impl :", ("ok " + share_toks(s)) if st == "ok" else "none (%r)" % s)
        print("model:", run_driver(["share.parse " + tl(idx)])[0])
        print("spec :", run_driver(["share.decode.spec " + tl(idx)])[0])
        return 0
    if "tape" in r and "k" in r and "secret" in r:
        secret, k, n = bytes.fromhex(r["secret"]), int(r["k"]), int(r["n"])
        tape = list(r["tape"])
        it = iter(tape)
        pw = bytes.fromhex(r.get("passphrase", ""))
        e = int(r.get("exponent", 0))
        if str(r.get("op", "")).startswith(("split", "recsecret")):
            st, data = guarded(lambda: ShareSet.split_secret(secret, k, n, randint=lambda a, b: next(it)))
            print("impl split :", ("ok " + tpoints([(x, bytes(b)) for x, b in data])) if st == "ok" else "none (%r)" % data)
            print("model split:", run_driver(["slip39.split %s %d %d %s" % (hx(secret), k, n, tl(tape))])[0])
            print("spec split :", run_driver(["slip39.split.spec %s %d %d %s" % (hx(secret), k, n, tl(tape))])[0])
            if st == "ok" and r.get("subset") is not None:
                sub = [(x, bytes(b)) for x, b in (data[i] for i in r["subset"])]
                st2, got = guarded(lambda: bytes(ShareSet.recover_secret(sub)))
                print("impl recover_secret :", ("ok " + hx(got)) if st2 == "ok" else "none (%r)" % got)
                print("model recover_secret:", run_driver(["slip39.recsecret " + tpoints(sub)])[0])
            return 0
        with kdf(mode):
            st, ms = guarded(lambda: ShareSet.generate_shares(mnemonic_from_bytes(secret), k, n, passphrase=pw, exponent=e,
                                                               randint=lambda a, b: next(it)))
            print("impl generate :", ("ok %d shares" % len(ms)) if st == "ok" else "none (%r)" % ms)
            if st == "ok":
                for m in ms:
                    print("   ", m)
            print("model generate:", run_driver(["slip39.generate %s %s %d %d %s %d %s" % (mode, hx(secret), k, n, hx(pw), e, tl(tape))])[0][:3000])
            sub = r.get("shares") or ([ms[i] for i in r["subset"]] if st == "ok" and r.get("subset") is not None and max(r["subset"]) < len(ms) else None)
            if sub:
                got, exc = impl_recover(sub, pw)
                print("impl recover :", ("ok " + hx(got)) if got is not None else "none (%r)" % exc)
                print("model recover:", run_driver(["slip39.recover %s %s %s" % (mode, hx(pw), tmnems(sub))])[0])
        return 0
    for key in ("shares", "chosen", "mnemonics"):
        if r.get(key):
            pw = bytes.fromhex(r.get("passphrase", "")) if key != "mnemonics" else b"TREZOR"
            md = "real" if key == "mnemonics" else "fake"
            with kdf(md):
                st, got = guarded(lambda: ShareSet([Share.parse(m) for m in r[key]]).recover(pw), 120)
            print("impl recover :", ("ok " + hx(got)) if st == "ok" else "none (%r)" % got)
            print("model recover:", run_driver(["slip39.recover %s %s %s" % (md, hx(pw), tmnems(r[key]))])[0])
            print("spec validSet:", run_driver(["slip39.validset.spec " + tmnems(r[key])])[0])
            print("spec combine :", run_driver(["slip39.combine.spec %s %s %s" % (md, hx(pw), tmnems(r[key]))])[0])
            return 0
    return 0
