"""C15 — BIP39 mnemonics: entropy round-trip, exact validity, standard seed.

Theorems: lean/EmbitModel/Props/C15.lean (for every 32-byte hash function and every list of 2048 distinct words:
the packing loop's invariant, mnemonic_to_bytes = BIP39 decoding, mnemonic_from_bytes = BIP39 encoding, both round
trips, "accepted iff valid" in both directions, seed = PBKDF2 as BIP39 prescribes).

Tie to the repository, on every run:
  * facts: the word lists actually used (the default argument objects of the loaded module and the alternate list of
    the repository's tests) are checked for the structural facts the theorems assume: 2048 entries, all distinct,
    no empty word, no white space inside a word, NFKD form. A failed fact is a broken obligation.
  * correspondence: embit and the native Lean model are run on the same inputs (words travel as indices into the
    list in use; a word that is not in the list travels as a number >= 2048).
  * the property predicate is also evaluated directly on embit against an independent Python statement of BIP39
    (hashlib + big integers) — failures are reported with the input, whatever the model says.
"""
import hashlib
import json
import os
import signal
import sys
import unicodedata

from core import Check, hx, VERIF, REPO, run_driver

from embit import bip39

PROP = "C15"
MODS = ["EmbitModel.Props.C15", "EmbitModel.Props.C15X"]
ALLOWED_ENT = (16, 20, 24, 28, 32)
ALLOWED_WORDS = (12, 15, 18, 21, 24)


# --------------------------------------------------------------------------------------------------------------
# guarded calls into embit

class _Timeout(Exception):
    pass


def _alarm(signum, frame):
    raise _Timeout()


def guarded(fn, *a, **k):
    """('ok', value) | ('raise', exception class name) | ('timeout', None)"""
    signal.signal(signal.SIGALRM, _alarm)
    signal.setitimer(signal.ITIMER_REAL, 10.0)
    try:
        return ("ok", fn(*a, **k))
    except _Timeout:
        return ("timeout", None)
    except Exception as e:  # noqa
        return ("raise", type(e).__name__)
    finally:
        signal.setitimer(signal.ITIMER_REAL, 0)


# --------------------------------------------------------------------------------------------------------------
# word lists and the facts the theorems assume about them

class WL:
    def __init__(self, name, words):
        self.name = name
        self.words = words
        self.index = {}
        for i, w in enumerate(words):
            self.index.setdefault(w, i)

    def idx(self, w):
        """index of a word; a word outside the list is sent as a number >= 2048 (lookup fails in the model)"""
        i = self.index.get(w)
        if i is None:
            return 2048 + (int.from_bytes(hashlib.sha1(w.encode("utf-8", "surrogatepass")).digest()[:2], "big") % 1000)
        return i

    def toks(self, words):
        return " ".join([str(len(words))] + [str(self.idx(w)) for w in words])


def load_lists(c):
    lists = []
    d = {
        "mnemonic_to_bytes": bip39.mnemonic_to_bytes.__defaults__[-1],
        "mnemonic_is_valid": bip39.mnemonic_is_valid.__defaults__[-1],
        "mnemonic_to_seed": bip39.mnemonic_to_seed.__defaults__[-1],
        "mnemonic_from_bytes": bip39.mnemonic_from_bytes.__defaults__[-1],
        "find_candidates": bip39.find_candidates.__defaults__[-1],
    }
    base = d["mnemonic_to_bytes"]
    for k, v in d.items():
        if v is not base and list(v) != list(base):
            c.broken.append(("fact", "default word list of %s differs from mnemonic_to_bytes's" % k))
    en = WL("english", list(base))
    lists.append(en)
    es = None
    try:
        sys.path.insert(0, os.path.join(REPO, "tests", "tests"))
        from data.bip39_es import WORDLIST as ES  # the alternate list used by the repository's tests
        es = WL("spanish", list(ES))
        lists.append(es)
    except Exception as e:  # noqa
        c.extra["alternate_list"] = "not available: %r" % (e,)
    finally:
        sys.path.pop(0)
    # a synthetic list: the English one reversed (any 2048 distinct words will do for the theorems)
    lists.append(WL("reversed-english", list(reversed(en.words))))
    for l in lists:
        check_list_facts(c, l)
    return lists


def check_list_facts(c, l):
    ws = l.words
    facts = {
        "length_2048": len(ws) == 2048,
        "distinct": len(set(ws)) == len(ws),
        "words_are_str": all(isinstance(w, str) for w in ws),
    }
    if facts["words_are_str"]:
        facts["split_gives_word_back"] = all(w.split() == [w] for w in ws)  # non-empty, no white space
        facts["nfkd"] = all(unicodedata.normalize("NFKD", w) == w for w in ws)
    c.extra.setdefault("wordlist_facts", {})[l.name] = facts
    for k, v in facts.items():
        if not v:
            c.broken.append(("fact", "word list %s violates %s (hypothesis of the C15 theorems)" % (l.name, k)))


# --------------------------------------------------------------------------------------------------------------
# BIP39 stated independently in Python (big integers, hashlib)

def spec_encode(e):
    ent = len(e) * 8
    cs = ent // 32
    h = hashlib.sha256(e).digest()
    bits = bin(int.from_bytes(e, "big"))[2:].zfill(ent) if ent else ""
    bits += bin(int.from_bytes(h, "big"))[2:].zfill(256)[:cs]
    return [int(bits[i:i + 11], 2) for i in range(0, len(bits), 11)]


def spec_decode(words, l, max_words=24):
    """entropy when the phrase is BIP39-valid, else None (max_words=None: the extended rule)"""
    n = len(words)
    if n < 12 or n % 3 != 0 or (max_words is not None and n > max_words):
        return None
    if any(w not in l.index for w in words):
        return None
    bits = "".join(format(l.index[w], "011b") for w in words)
    nent = n * 11 * 32 // 33
    ent, cs = bits[:nent], bits[nent:]
    e = int(ent, 2).to_bytes(nent // 8, "big")
    hb = bin(int.from_bytes(hashlib.sha256(e).digest(), "big"))[2:].zfill(256)
    return e if cs == hb[:len(cs)] and len(cs) <= 256 else None


def spec_seed(m, pw):
    return hashlib.pbkdf2_hmac("sha512", m.encode("utf-8"), b"mnemonic" + pw.encode("utf-8"), 2048, 64)


# --------------------------------------------------------------------------------------------------------------
# single checks

def ans(r, show):
    return "ok " + show(r[1]) if r[0] == "ok" else "none" if r[0] == "raise" else r[0]


def kw(l):
    return {} if l.name == "english" else {"wordlist": l.words}


def check_phrase(c, l, words, kind, sep=" "):
    """validity + decoding of a phrase given as a list of words (joined by `sep`)."""
    m = sep.join(words)
    words = m.strip().split()  # what embit sees
    n = len(words)
    info = {"kind": kind, "list": l.name, "mnemonic": m[:4000]}
    in_domain = n <= 24
    r = guarded(bip39.mnemonic_to_bytes, m, **kw(l))
    v = guarded(bip39.mnemonic_is_valid, m, **kw(l))
    c.count(("phrase", l.name, m), nontrivial=n >= 12)
    c.tally("phrase:%s:%s" % (kind, "accepted" if r[0] == "ok" else "rejected"))
    if n in ALLOWED_WORDS:
        c.tally("words:%d" % n)
    c.expect("bip39.to_bytes 0 " + l.toks(words), ans(r, hx), dict(info, op="to_bytes"), proven=in_domain)
    c.expect("bip39.valid " + l.toks(words), "ok " + ("1" if v == ("ok", True) else "0"), dict(info, op="valid"),
             proven=in_domain)
    if in_domain:
        c.expect("bip39.spec_decode " + l.toks(words), ans(r, hx), dict(info, op="spec_decode"), proven=True)
        # the property itself, against the independent Python statement of BIP39
        e = spec_decode(words, l)
        if (r[0] == "ok") != (e is not None):
            c.fail("phrase accepted although BIP39-invalid" if r[0] == "ok" else "BIP39-valid phrase refused",
                   dict(info, op="to_bytes", impl=ans(r, hx), spec=(e.hex() if e is not None else "invalid")))
        elif r[0] == "ok" and bytes(r[1]) != e:
            c.fail("accepted phrase decodes to the wrong entropy", dict(info, op="to_bytes", impl=hx(r[1]), spec=e.hex()))
        if v[0] != "ok" or v[1] is not (e is not None):
            c.fail("mnemonic_is_valid disagrees with BIP39 validity",
                   dict(info, op="valid", impl=repr(v), spec=e is not None))
        if e is not None:
            # mnemonic -> entropy -> mnemonic
            b = guarded(bip39.mnemonic_from_bytes, e, **kw(l))
            if b != ("ok", " ".join(words)):
                c.fail("valid mnemonic does not survive to_bytes/from_bytes", dict(info, op="from_to", impl=repr(b)[:2000]))
    else:
        c.expect("bip39.spec_decode_ext " + l.toks(words), ans(r, hx), dict(info, op="spec_decode_ext"), proven=False)
    return r


def check_entropy(c, l, e, kind):
    """entropy -> mnemonic -> entropy"""
    info = {"kind": kind, "list": l.name, "entropy": e.hex()}
    in_domain = len(e) in ALLOWED_ENT
    r = guarded(bip39.mnemonic_from_bytes, bytes(e), **kw(l))
    c.count(("entropy", l.name, e), nontrivial=in_domain)
    c.tally("entropy:%d:%s" % (len(e) if len(e) <= 40 else 99, "ok" if r[0] == "ok" else "raise"))
    words = r[1].split(" ") if r[0] == "ok" and r[1] != "" else []
    impl = ("ok " + l.toks(words)) if r[0] == "ok" else "none"
    c.expect("bip39.from_bytes " + hx(e), impl, dict(info, op="from_bytes"), proven=in_domain)
    if not in_domain:
        return None
    c.expect("bip39.spec_encode " + hx(e), impl, dict(info, op="spec_encode"), proven=True)
    if r[0] != "ok":
        c.fail("mnemonic_from_bytes refuses an allowed entropy", dict(info, op="from_bytes", impl=repr(r)))
        return None
    want = [l.words[i] for i in spec_encode(e)]
    if words != want:
        c.fail("mnemonic differs from the BIP39 encoding", dict(info, op="from_bytes", impl=r[1], spec=" ".join(want)))
    back = guarded(bip39.mnemonic_to_bytes, r[1], **kw(l))
    if back[0] != "ok" or bytes(back[1]) != bytes(e):
        c.fail("entropy -> mnemonic -> entropy is not the identity", dict(info, op="to_from", mnemonic=r[1], impl=repr(back)))
    v = guarded(bip39.mnemonic_is_valid, r[1], **kw(l))
    if v != ("ok", True):
        c.fail("generated mnemonic is not valid", dict(info, op="valid", mnemonic=r[1], impl=repr(v)))
    c.expect("bip39.to_bytes 0 " + l.toks(words), ans(back, hx), dict(info, op="to_bytes", mnemonic=r[1]), proven=True)
    return words


def check_seed(c, l, m, pw, kind, validate=True):
    """seed of the string `m` exactly as given (embit does not normalise)"""
    words = m.strip().split()
    info = {"kind": kind, "list": l.name, "mnemonic": m[:4000], "passphrase": pw, "op": "seed", "validate": validate}
    if validate:
        r = guarded(bip39.mnemonic_to_seed, m, pw, **kw(l))
    else:
        r = guarded(bip39.mnemonic_to_seed, m, pw, wordlist=None)
    c.count(("seed", l.name, m, pw, validate), nontrivial=True)
    c.tally("seed:%s:%s" % (kind, "ok" if r[0] == "ok" else "raise"))
    # the property speaks about phrases (word sequences) in NFKD: the string is in its domain when it is the words
    # joined by single spaces; other spellings of the same words are corresponded with the model only
    canonical = m == " ".join(words) and unicodedata.normalize("NFKD", m) == m and unicodedata.normalize("NFKD", pw) == pw
    in_domain = len(words) <= 24 and canonical
    mu, pu = m.encode("utf-8"), pw.encode("utf-8")
    c.expect("bip39.seed %d %s %s %s" % (1 if validate else 0, l.toks(words), hx(mu), hx(pu)), ans(r, hx), info,
             proven=in_domain)
    # the same through the model of the function on STRINGS (Model/Bip39Str.lean, theorems C15X): the driver splits
    # the string and encodes it itself, so the validated words and the hashed bytes come from one argument
    try:
        m.encode("utf-8"), pw.encode("utf-8")
        encodable = True
    except UnicodeEncodeError:
        encodable = False
    if encodable:
        cps = lambda t: " ".join([str(len(t))] + [str(ord(ch)) for ch in t])  # noqa: E731
        sps = sorted({ord(ch) for ch in m if ch.isspace()})
        dic = [(w, l.index[w]) for w in sorted(set(words)) if w in l.index]
        c.expect("bip39.seedstr %d %s %s %s %s" % (
            1 if validate else 0, cps(m), " ".join([str(len(sps))] + [str(x) for x in sps]),
            " ".join([str(len(dic))] + ["%s %d" % (cps(w), i) for w, i in dic]), cps(pw)), ans(r, hx),
            dict(info, op="seedstr"), proven=in_domain)
    valid = spec_decode(words, l) is not None
    if validate and in_domain:
        if valid != (r[0] == "ok"):
            c.fail("seed derived for an invalid phrase" if r[0] == "ok" else "no seed for a valid phrase",
                   dict(info, impl=ans(r, hx)))
    if r[0] == "ok" and canonical:
        if bytes(r[1]) != spec_seed(m, pw):
            c.fail("seed differs from PBKDF2-HMAC-SHA512(phrase, 'mnemonic'+passphrase, 2048, 64)",
                   dict(info, impl=hx(r[1]), spec=spec_seed(m, pw).hex()))
        c.expect("bip39.spec_seed %s %s" % (hx(mu), hx(pu)), "ok " + hx(r[1]), dict(info, op="spec_seed"), proven=True)


def check_split(c, s):
    """the string layer of the model against str.strip().split()"""
    cs = [0 if ch.isspace() else ord(ch) for ch in s]
    parts = s.strip().split()
    out = [str(len(parts))]
    for p in parts:
        out += [str(len(p))] + [str(ord(ch)) for ch in p]
    c.expect("bip39.split " + " ".join([str(len(cs))] + [str(x) for x in cs]), "ok " + " ".join(out),
             {"op": "split", "string": s}, proven=False)
    c.count(("split", s), nontrivial=False)


# --------------------------------------------------------------------------------------------------------------
# generators

BOUNDARY_BYTES = [0x00, 0xFF, 0x80, 0x7F, 0x01, 0x55, 0xAA]
PASSPHRASES = ["", "TREZOR", " ", "correct horse battery staple",
               unicodedata.normalize("NFKD", "ñandú pässwörd ÅΩ ㍍ ｶﾞ 日本語"),
               unicodedata.normalize("NFKD", "\u1e9b\u0323 \ufb01 \u00b2 \u00bd"), "x" * 200, "\u3000 "]
OUTSIDE = ["zzzz", "Abandon", "ABANDON", "abandonn", "abando", "a", "0", "título", "abandon,", "école", "zoo."]
WHITESPACE = [" ", "  ", "\t", "\n", " \r\n", "\u3000", "\u2009", "\x1f", "\xa0 "]


def short_lived_lists(c, en, rounds):
    """C15 speaks of ANY 2048-word list: the answer for a list must come from the words it holds at the time of the
    call, whatever lists were used before. Every round builds fresh list objects (rotations of the English list) inside
    a function, uses them and drops them, so that a later list can occupy the address of an earlier one; one list is
    also re-ordered in place between two calls. Expected values come from the harness's own BIP39 (spec_encode /
    spec_decode) - a predicate on embit alone."""
    rng = c.rng
    bad = 0

    def one(words, e, kind):
        nonlocal bad
        idx = {w: i for i, w in enumerate(words)}
        want = " ".join(words[i] for i in spec_encode(e))
        info = {"kind": kind, "entropy": e.hex(), "first_word": words[0]}
        c.count(("short-lived", words[0], e, kind), nontrivial=True)
        r = guarded(bip39.mnemonic_from_bytes, e, wordlist=words)
        if r != ("ok", want):
            bad += 1
            c.fail("mnemonic_from_bytes with a freshly built word list differs from the BIP39 encoding over that list",
                   dict(info, op="short-lived:from_bytes", impl=repr(r)[:200], spec=want))
            return
        back = guarded(bip39.mnemonic_to_bytes, want, wordlist=words)
        if back[0] != "ok" or bytes(back[1]) != e:
            bad += 1
            c.fail("a phrase valid over the word list passed in is rejected or decoded to another entropy (word lists "
                   "used by earlier calls must not matter)", dict(info, op="short-lived:to_bytes", mnemonic=want, impl=repr(back)[:200]))
        v = guarded(bip39.mnemonic_is_valid, want, wordlist=words)
        if v != ("ok", True):
            bad += 1
            c.fail("a phrase valid over the word list passed in is reported invalid", dict(info, op="short-lived:valid", mnemonic=want, impl=repr(v)))
        # the same words judged against ANOTHER fresh list: valid exactly when BIP39 over that list says so
        other = words[1:] + words[:1]
        l2 = WL("tmp", other)
        exp = spec_decode(want.split(" "), l2)
        got = guarded(bip39.mnemonic_to_bytes, want, wordlist=other)
        if (exp is None) != (got[0] != "ok") or (exp is not None and bytes(got[1]) != exp):
            bad += 1
            c.fail("a phrase is judged against a word list other than the one passed in", dict(info, op="short-lived:other-list", mnemonic=want, impl=repr(got)[:200], spec=exp.hex() if exp else None))

    def fresh(k):
        return en.words[k:] + en.words[:k]

    for r in range(rounds):
        e = rand_entropy(rng, rng.choice([16, 24, 32]))
        one(fresh(rng.randrange(1, 2048)), e, "fresh")
    # one caller-owned list, re-ordered in place between calls
    own = fresh(7)
    for r in range(max(2, rounds // 8)):
        e = rand_entropy(rng, 16)
        one(own, e, "own")
        own.reverse()
        one(own, e, "own-reversed-in-place")
    c.tally("short-lived-lists:%d rounds, %d failures" % (rounds, bad))


def rand_entropy(rng, n):
    r = rng.random()
    if n == 0:
        return b""
    if r < 0.1:
        return bytes([rng.choice(BOUNDARY_BYTES)]) * n
    if r < 0.2:  # sparse
        b = bytearray(n)
        for _ in range(rng.randrange(1, 4)):
            b[rng.randrange(n)] = 1 << rng.randrange(8)
        return bytes(b)
    return bytes(rng.getrandbits(8) for _ in range(n))


def flip_word_bit(l, words, pos, bit):
    """the phrase with bit `bit` (0 = least significant of the 11) of word `pos` flipped"""
    w = list(words)
    w[pos] = l.words[l.index[w[pos]] ^ (1 << bit)]
    return w


def mutations_of_valid(c, l, words, exhaustive_cs, n_other):
    rng = c.rng
    n = len(words)
    k = n // 3  # checksum bits, all in the low bits of the last word
    # every single checksum bit
    for b in range(k):
        check_phrase(c, l, flip_word_bit(l, words, n - 1, b), "checksum-bit-%d-of-%d" % (b, k))
    # other checksum values (all of them when exhaustive)
    last = l.index[words[-1]]
    others = [x for x in range(1 << k) if x != (last & ((1 << k) - 1))]
    if not exhaustive_cs:
        others = rng.sample(others, min(len(others), 3))
    for x in others:
        w = list(words)
        w[-1] = l.words[(last >> k << k) | x]
        check_phrase(c, l, w, "checksum-value")
    # entropy bits (a different entropy with the old checksum: invalid unless the checksum happens to agree)
    for _ in range(2):
        pos = rng.randrange(n)
        bit = rng.randrange(11)
        if pos == n - 1 and bit < k:
            bit = k
        check_phrase(c, l, flip_word_bit(l, words, pos, bit), "entropy-bit")
    # a word that is not in the list, at every position
    for pos in range(n):
        w = list(words)
        bad = rng.choice(OUTSIDE + [n_other.words[rng.randrange(2048)]])
        if bad in l.index:
            bad = bad + "x"
        w[pos] = bad
        check_phrase(c, l, w, "out-of-list-word")
    # wrong lengths: drop / add words
    check_phrase(c, l, words[:-1], "length-minus-1")
    check_phrase(c, l, words[1:], "length-minus-1")
    check_phrase(c, l, words + [words[0]], "length-plus-1")
    check_phrase(c, l, words + words[:2], "length-plus-2")
    # two words swapped, a word repeated
    i, j = rng.sample(range(n), 2)
    w = list(words)
    w[i], w[j] = w[j], w[i]
    check_phrase(c, l, w, "swap")


def lengths_sweep(c, l):
    """0..27 words (and a few longer), random list words and prefixes/extensions of valid phrases"""
    rng = c.rng
    for n in list(range(0, 28)) + [30, 33, 36, 48]:
        check_phrase(c, l, [l.words[rng.randrange(2048)] for _ in range(n)], "random-words-%s" % ("in" if n <= 24 else "beyond"))
    for nbytes in (0, 4, 8, 12, 36, 40, 44, 64):
        e = rand_entropy(rng, nbytes)
        r = guarded(bip39.mnemonic_from_bytes, e, **kw(l))
        check_entropy(c, l, e, "outside-domain")
        if r[0] == "ok":
            check_phrase(c, l, r[1].split(), "from-entropy-%d" % nbytes)
    for nbytes in (1, 2, 3, 5, 15, 17, 18, 30, 33, 1024, 1028):
        check_entropy(c, l, rand_entropy(rng, nbytes), "outside-domain")
    # all-zero words / all-last words at every length 12..24 (accepted only by checksum luck)
    for n in range(12, 25):
        check_phrase(c, l, [l.words[0]] * n, "constant-words")
        check_phrase(c, l, [l.words[2047]] * n, "constant-words")


def whitespace_cases(c, l, words):
    rng = c.rng
    canon = " ".join(words)
    for _ in range(3):
        m = rng.choice(["", " ", "\n", "\t "]) + "".join(
            w + rng.choice(WHITESPACE) for w in words[:-1]) + words[-1] + rng.choice(["", " ", "\n", "\r\n"])
        r = guarded(bip39.mnemonic_to_bytes, m, **kw(l))
        r0 = guarded(bip39.mnemonic_to_bytes, canon, **kw(l))
        c.count(("ws", l.name, m), nontrivial=True)
        c.tally("whitespace-variant")
        # observation, not a demand of the property: validation splits on any white space, so the verdict is the
        # canonical phrase's; the seed, however, is taken over the string as given (see check_seed)
        c.expect("bip39.to_bytes 0 " + l.toks(m.strip().split()), ans(r, hx),
                 {"op": "to_bytes", "kind": "whitespace", "list": l.name, "mnemonic": m}, proven=True)
        if (r[0] == "ok") != (r0[0] == "ok"):
            c.tally("whitespace-variant:verdict-differs-from-canonical")
        check_split(c, m)
    return m


def explore(c, lists, n_entropy, n_seed, exhaustive_cs, model=True):
    rng = c.rng
    for li, l in enumerate(lists):
        other = lists[(li + 1) % len(lists)]
        valid_phrases = []
        for nbytes in ALLOWED_ENT:
            cases = [bytes([b]) * nbytes for b in BOUNDARY_BYTES[:4]]
            cases += [rand_entropy(rng, nbytes) for _ in range(n_entropy)]
            for k, e in enumerate(cases):
                words = check_entropy(c, l, e, "boundary" if k < 4 else "random")
                if words:
                    valid_phrases.append(words)
                    if k < 2 or k % 3 == 0:
                        mutations_of_valid(c, l, words, exhaustive_cs and k < 6, other)
                    if len(c.samples) < 6 and k == 4:
                        c.sample({"list": l.name, "entropy": e.hex(), "mnemonic": " ".join(words)})
            c.flush()
        lengths_sweep(c, l)
        # ignore_checksum=True and the "fix the checksum" idiom
        for _ in range(max(4, n_entropy // 2)):
            n = rng.choice(ALLOWED_WORDS + (27,))
            words = [l.words[rng.randrange(2048)] for _ in range(n)]
            m = " ".join(words)
            r = guarded(bip39.mnemonic_to_bytes, m, ignore_checksum=True, **kw(l))
            c.count(("ignore", l.name, m), nontrivial=True)
            c.tally("ignore-checksum")
            c.expect("bip39.to_bytes 1 " + l.toks(words), ans(r, hx), {"op": "to_bytes_ignore", "list": l.name, "mnemonic": m},
                     proven=False)
            if r[0] == "ok" and n <= 24:
                fixed = guarded(bip39.mnemonic_from_bytes, bytes(r[1]), **kw(l))
                if fixed[0] != "ok" or spec_decode(fixed[1].split(), l) != bytes(r[1]):
                    c.fail("ignore_checksum + from_bytes does not give a valid phrase with the same entropy",
                           {"op": "fix_checksum", "list": l.name, "mnemonic": m, "impl": repr(fixed)[:2000]})
        # white space
        for words in valid_phrases[:: max(1, len(valid_phrases) // 4)][:5]:
            m = whitespace_cases(c, l, words)
            if n_seed:
                check_seed(c, l, m, "", "whitespace-variant")
                m2 = rng.choice(["", " ", "\n"]) + "".join(w + rng.choice([" ", "  ", "\t", "\n"]) for w in words)
                check_seed(c, l, m2, "TREZOR", "whitespace-variant")
        # seeds
        picks = [valid_phrases[rng.randrange(len(valid_phrases))] for _ in range(n_seed)]
        for k, words in enumerate(picks):
            pw = PASSPHRASES[k % len(PASSPHRASES)] if k < 2 * len(PASSPHRASES) else "".join(
                chr(rng.choice([rng.randrange(32, 127), rng.randrange(0x400, 0x450), rng.randrange(0x4E00, 0x4F00)]))
                for _ in range(rng.randrange(0, 40)))
            pw = unicodedata.normalize("NFKD", pw)
            check_seed(c, l, " ".join(words), pw, "valid")
            if k % 4 == 0:
                bad = flip_word_bit(l, words, len(words) - 1, rng.randrange(len(words) // 3))
                check_seed(c, l, " ".join(bad), pw, "wrong-checksum")
                check_seed(c, l, " ".join(bad), pw, "unchecked", validate=False)
            if k % 8 == 0:
                check_seed(c, l, " ".join(words[:-1]), pw, "wrong-length")
                w = list(words)
                w[rng.randrange(len(w))] = "zzzz"
                check_seed(c, l, " ".join(w), pw, "out-of-list-word")
        c.flush()
    # find_candidates, _extract_index, primitives
    en = lists[0]
    for _ in range(20 if n_entropy < 20 else 200):
        w = en.words[rng.randrange(2048)]
        part = w[:rng.randrange(0, len(w) + 1)] + rng.choice(["", "", "q"])
        nmax = rng.choice([0, 1, 2, 5, 10, 100, 3000])
        r = guarded(bip39.find_candidates, part, nmax)
        hits = [i for i, x in enumerate(en.words) if x.startswith(part)]
        c.count(("cand", part, nmax), nontrivial=False)
        c.tally("find_candidates")
        c.expect("bip39.candidates %d %d %s" % (nmax, len(hits), " ".join(map(str, hits))),
                 ans(r, lambda v: en.toks(v)), {"op": "find_candidates", "part": part, "nmax": nmax}, proven=False)
        b = bytes(rng.getrandbits(8) for _ in range(rng.randrange(0, 12)))
        nn = rng.randrange(0, 9)
        r = guarded(bip39._extract_index, 11, b, nn)
        c.expect("bip39.extract 11 %s %d" % (hx(b), nn), ans(r, str), {"op": "extract_index", "b": b.hex(), "n": nn},
                 proven=False)
        d = bytes(rng.getrandbits(8) for _ in range(rng.choice([0, 1, 16, 32, 55, 56, 64, 119, 200])))
        c.expect("hash.sha256 " + hx(d), "ok " + hashlib.sha256(d).hexdigest(), {"op": "sha256"}, proven=False)
    for (p, s, it, ln) in [(b"", b"", 1, 64), (b"password", b"salt", 2, 64), (b"k" * 200, b"mnemonic", 3, 64)]:
        c.expect("hash.pbkdf2 %s %s %d %d" % (hx(p), hx(s), it, ln), "ok " + hashlib.pbkdf2_hmac("sha512", p, s, it, ln).hex(),
                 {"op": "pbkdf2"}, proven=False)
    c.flush()


def vectors(c, lists):
    """the published vectors present in the repository (Trezor's, and the Spanish ones of the tests)"""
    en = lists[0]
    try:
        sys.path.insert(0, os.path.join(REPO, "tests", "tests"))
        import importlib
        vs = importlib.import_module("test_bip39").VECTORS
    except Exception as e:  # noqa
        c.extra["vectors"] = "not available: %r" % (e,)
        vs = []
    finally:
        sys.path.pop(0)
    for k, (ent, mn, seed, _x) in enumerate(vs):
        e = bytes.fromhex(ent)
        words = check_entropy(c, en, e, "vector")
        if words is not None and " ".join(words) != mn:
            c.fail("Trezor vector: wrong mnemonic", {"op": "from_bytes", "entropy": ent, "impl": " ".join(words), "spec": mn})
        r = guarded(bip39.mnemonic_to_seed, mn, "TREZOR")
        if r[0] != "ok" or bytes(r[1]).hex() != seed:
            c.fail("Trezor vector: wrong seed", {"op": "seed", "mnemonic": mn, "passphrase": "TREZOR", "impl": repr(r)[:300], "spec": seed})
        if k % 6 == 0:
            check_seed(c, en, mn, "TREZOR", "vector")
        c.tally("vector")
    es = [l for l in lists if l.name == "spanish"]
    if es:
        es = es[0]
        for mn, seed in [
            ("título paso humano cañón enfado ropero hueco cromo blusa turno fideo glaciar verano baba gordo fila "
             "trance íntimo rotar gustar sombra revés laguna jardín",
             "bb0c5656117fd52d995dafca2d692974e74cb7c713c35871a0915d7bda6122694b2b67664113b198d2c1dd828195587c7dec8d6179f93d2157d6a11d8d0a949d"),
            ("natural tóxico choque regreso norte tarta uña prisión bulto ángulo fervor nariz",
             "30affe746f3a81816739c2dacc3de426084482b729c7b592cee0ff2bdf73315943a5da8d8da4afd767f905d5ded4b0ab3a948d7eff9834fca5e8691a186fee20"),
        ]:
            mn = unicodedata.normalize("NFKD", mn)
            check_phrase(c, es, mn.split(" "), "vector-es")
            r = guarded(bip39.mnemonic_to_seed, mn, "", wordlist=es.words)
            if r[0] != "ok" or bytes(r[1]).hex() != seed:
                c.fail("Spanish vector: wrong seed", {"op": "seed", "list": "spanish", "mnemonic": mn, "passphrase": "",
                                                      "impl": repr(r)[:300], "spec": seed})
            check_seed(c, es, mn, "", "vector-es")
            c.tally("vector")
    c.flush()


def corpus(c, lists):
    p = os.path.join(VERIF, "corpus", "C15.json")
    if not os.path.exists(p):
        return
    byname = {l.name: l for l in lists}
    for e in json.load(open(p)):
        l = byname.get(e.get("list", "english"))
        if l is None:
            continue
        if "mnemonic" in e:
            check_phrase(c, l, e["mnemonic"].strip().split(), "corpus")
        if "entropy" in e:
            check_entropy(c, l, bytes.fromhex(e["entropy"]), "corpus")
    c.flush()


def run(tier, seed):
    c = Check(PROP, MODS, tier, seed)
    c.rule = ("per word list (English default, the tests' Spanish list, a synthetic permutation): entropies of all five "
              "lengths (boundary patterns + seeded random) through from_bytes/to_bytes/is_valid; for valid phrases every "
              "single checksum bit flipped, other checksum values (all of them for a subset), entropy bits flipped, an "
              "out-of-list word at every position, words dropped/added/swapped; random word sequences of 0..27, 30, 33, 36, 48 "
              "words; entropies outside the five lengths; white-space variants; seeds with empty/ASCII/NFKD non-ASCII/long "
              "passphrases for valid, invalid and unchecked phrases; published vectors. A case is distinct by content; "
              "non-trivial: a phrase of >= 12 words, an allowed entropy, or a seed derivation")
    c.assumptions = [
        "strings are modelled after str.strip().split(): the model works on the word sequence and on the UTF-8 bytes of the "
        "string as given; NFKD normalisation is the caller's business (embit does none) and inputs are generated in NFKD",
        "phrases of more than 24 words and entropies outside 16..32 bytes are outside the property: embit's behaviour there "
        "(accepted under the extended rule) is modelled and corresponded, never reported as a failure",
        "observation: validation splits on any white space but the seed is derived from the string as given, so a phrase "
        "with doubled/trailing white space validates and yields a seed different from the single-spaced phrase's",
    ]
    c.build_and_audit()
    lists = load_lists(c)
    corpus(c, lists)
    vectors(c, lists)
    short_lived_lists(c, lists[0], 60 if tier == "quick" else 600)
    if tier == "quick":
        explore(c, lists, 16, 16, False)
    else:
        explore(c, lists, 150, 250, True)
    return c.finish(search=lambda cc: explore(cc, lists, 40, 8, True))


def replay(path):
    r = json.load(open(path))
    c = Check(PROP, MODS, "replay", r.get("seed", 0))
    lists = {l.name: l for l in load_lists(c)}
    l = lists.get(r.get("list", r.get("info", {}).get("list", "english")), lists["english"])
    info = r.get("info", r)
    if "mnemonic" in info:
        m = info["mnemonic"]
        words = m.strip().split()
        print("impl  to_bytes:", ans(guarded(bip39.mnemonic_to_bytes, m, **kw(l)), hx))
        print("impl  valid   :", guarded(bip39.mnemonic_is_valid, m, **kw(l)))
        e = spec_decode(words, l)
        print("spec  (python):", e.hex() if e is not None else "invalid")
        out = run_driver(["bip39.to_bytes 0 " + l.toks(words), "bip39.spec_decode " + l.toks(words)])
        print("model to_bytes:", out[0])
        print("spec  (lean)  :", out[1])
        if info.get("op") in ("seed", "spec_seed"):
            pw = info.get("passphrase", "")
            print("impl  seed    :", ans(guarded(bip39.mnemonic_to_seed, m, pw, **kw(l)), hx))
            print("spec  seed    :", spec_seed(m, pw).hex())
            print("model seed    :", run_driver(["bip39.seed 1 %s %s %s" % (l.toks(words), hx(m.encode()), hx(pw.encode()))])[0])
    if "entropy" in info:
        e = bytes.fromhex(info["entropy"])
        print("impl  from_bytes:", guarded(bip39.mnemonic_from_bytes, e, **kw(l)))
        print("spec  (python)  :", " ".join(l.words[i] for i in spec_encode(e)))
        print("model from_bytes:", run_driver(["bip39.from_bytes " + hx(e)])[0])
    return 0
