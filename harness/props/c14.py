"""C14 — a descriptor claims a PSBT scope only when the script really is its own.

Theorems: lean/EmbitModel/Props/C14.lean (owns_sound, never_claims and its corollaries, owns_complete over the model of
Descriptor.owns / Key.check_derivation / AllowedDerivation.check_derivation as it is AFTER fixes/owns-keeps-looking.diff,
for every key list, every scope and every derive-script function; old_first_match_rejected_honest_scope is the witness
of the repaired first-match defect, not a limitation of the present code) and lean/EmbitModel/Props/C14X.lean
(owns_sound_parsed: the same soundness for every descriptor Descriptor.from_string returns, with no well-formedness
or derive premise; owns_parsed_script_eq_spec: composed with C12 script_eq_spec; owns_raises_on_hardened_record: the
region owns_complete excludes by NoRaise - owns() raises on an honest scope preceded by a hardened record for the same
key, recorded as an observation, classes `mixed-hardened-then-correct` / `path-hardened-index` below). Tie to the code: ranged descriptors from harness/dgen.py; PSBT scopes are built with
embit's own PSBT classes (and round-tripped through PSBT.serialize / PSBT.parse) carrying correct, foreign,
partially matching and adversarially mixed derivation records and scripts of the same or another type; `owns()` of
embit is diffed with the model (`desc.owns`). Independently of the model: SOUNDNESS (owns is True only if some
record of the scope is the metadata of one of the descriptor's extended keys at an unhardened index on an allowed
branch AND the scope's script equals the script embit derives there — matched by this file's own matcher),
NEVER-CLAIMS per negative class, COMPLETENESS for honest scopes."""
import json
import signal

from core import Check, run_driver
import dgen

from embit.descriptor import Descriptor
from embit.psbt import PSBT, DerivationPath
from embit.transaction import Transaction, TransactionInput, TransactionOutput
from embit.script import Script
from embit import ec

PROP = "C14"
MODS = ["EmbitModel.Props.C14", "EmbitModel.Props.C14X"]
HARD = dgen.HARD


class Timeout(Exception):
    pass


def _alarm(signum, frame):
    raise Timeout()


def guarded(f, *a):
    signal.signal(signal.SIGALRM, _alarm)
    signal.setitimer(signal.ITIMER_REAL, 20.0)
    try:
        return ("ok", f(*a))
    except Timeout:
        return ("timeout", None)
    except Exception as e:
        return ("raise", "%s: %s" % (type(e).__name__, e))
    finally:
        signal.setitimer(signal.ITIMER_REAL, 0)


def hx(s):
    return s.encode().hex() if s else "-"


def hb(b):
    return b.hex() if len(b) else "-"


# ------------------------------------------------------------------ independent matcher (the property's relation)

def step_matches(steps, rest):
    """all (i, b) with: steps instantiated at (i, b) == rest; i, b may be None when the steps do not use them"""
    if len(steps) != len(rest):
        return []
    cands = [(None, None)]
    for st, v in zip(steps, rest):
        nxt = []
        for (i, b) in cands:
            if st == "*":
                if i is None or i == v:
                    nxt.append((v, b))
            elif isinstance(st, tuple):
                for j, e in enumerate(st[1]):
                    if e == v and (b is None or b == j):
                        nxt.append((i, j))
            elif st == v:
                nxt.append((i, b))
        cands = nxt
    return cands


def record_matches(ke, fp, path):
    """every (i, b) such that (fp, path) is the derivation metadata of key expression `ke` at (i, b)"""
    if not ke.is_hd or not ke.steps:
        return []
    res = []
    own = ke.my_fingerprint()
    if ke.origin is not None:
        ofp, opath = ke.origin
        if ofp == fp and path[: len(opath)] == list(opath):
            res += step_matches(ke.steps, path[len(opath):])
    if own == fp:
        res += step_matches(ke.steps, path)
    return res


def sound_witness(D, d, spk, records):
    """is there a record, an extended key, an unhardened index and an allowed branch whose derived script is spk?"""
    for (fp, path) in records:
        for ke in D.keys():
            for (i, b) in record_matches(ke, fp, path):
                if i is None:
                    continue          # not a ranged key: no index recorded
                if i >= HARD:
                    continue
                bb = 0 if b is None else b
                st, dd = guarded(lambda: d.derive(i, bb).script_pubkey().data)
                if st == "ok" and dd == spk:
                    return (i, bb)
    return None


# ------------------------------------------------------------------ scopes

def dummy_pub(rng):
    return ec.PrivateKey(bytes([rng.randrange(1, 255)] * 32)).get_public_key()


def genuine_metadata(d, i, b):
    """what a scope of the descriptor's own output (i, b) would carry besides script and records: witness script,
    redeem script, the derived public keys, the taproot internal key. All of it is unauthenticated: a scope decorated
    with it but paying to another script must not be claimed"""
    deco = {}
    st, dd = guarded(lambda: d.derive(i, b))
    if st != "ok":
        return deco
    for name, fn in (("witness_script", lambda: dd.witness_script()), ("redeem_script", lambda: dd.redeem_script())):
        st, v = guarded(fn)
        if st == "ok" and v is not None:
            deco[name] = v
    st, ks = guarded(lambda: [k.get_public_key() if hasattr(k, "get_public_key") else k.key for k in dd.keys])
    if st == "ok":
        deco["pubkeys"] = [k for k in ks if isinstance(k, ec.PublicKey)]
    if getattr(dd, "taproot", False):
        st, ik = guarded(lambda: dd.key.get_public_key() if hasattr(dd.key, "get_public_key") else dd.key.key)
        if st == "ok" and isinstance(ik, ec.PublicKey):
            deco["taproot_internal_key"] = ik
    return deco


def build_scopes(c, spk, records, tap_records, no_spk=False, deco=None):
    """an input scope and an output scope carrying the script and the records, built with embit's PSBT classes and
    round-tripped through serialize/parse; returns [(name, scope)]"""
    r = c.rng
    out_spk = Script(spk)
    tx = Transaction(vin=[TransactionInput(bytes(r.getrandbits(8) for _ in range(32)), r.randrange(4))],
                     vout=[TransactionOutput(r.randrange(1, 10 ** 8), out_spk)])
    psbt = PSBT(tx)
    if not no_spk:
        psbt.inputs[0].witness_utxo = TransactionOutput(r.randrange(1, 10 ** 8), Script(spk))
    real = list((deco or {}).get("pubkeys", []))
    for sc in (psbt.inputs[0], psbt.outputs[0]):
        for n, (fp, path) in enumerate(records):
            pub = real[n] if n < len(real) else ec.PrivateKey((n + 1).to_bytes(32, "big")).get_public_key()
            sc.bip32_derivations[pub] = DerivationPath(fp, list(path))
        for n, (fp, path) in enumerate(tap_records):
            pub = real[n] if n < len(real) else ec.PrivateKey((n + 101).to_bytes(32, "big")).get_public_key()
            sc.taproot_bip32_derivations[pub] = ([], DerivationPath(fp, list(path)))
        if deco:
            if "witness_script" in deco:
                sc.witness_script = deco["witness_script"]
            if "redeem_script" in deco:
                sc.redeem_script = deco["redeem_script"]
            if "taproot_internal_key" in deco:
                sc.taproot_internal_key = deco["taproot_internal_key"]
    res = [("in", psbt.inputs[0])]
    if not no_spk:
        res.append(("out", psbt.outputs[0]))
    if r.random() < 0.3:
        st, p2 = guarded(lambda: PSBT.parse(psbt.serialize()))
        if st == "ok":
            res.append(("in-parsed", p2.inputs[0]))
            if not no_spk:
                res.append(("out-parsed", p2.outputs[0]))
    return res


def scope_line(T, scope):
    spk = scope.script_pubkey
    recs = [(v.fingerprint, v.derivation) for v in scope.bip32_derivations.values()]
    taps = [(v[1].fingerprint, v[1].derivation) for v in scope.taproot_bip32_derivations.values()]

    def enc(l):
        return " ".join([str(len(l))] + ["%s %d %s" % (hb(fp), len(p), " ".join(map(str, p))) for (fp, p) in l])
    line = "desc.owns %s %s %s %s" % (hx(T), "None" if spk is None else hb(spk.data), enc(recs), enc(taps))
    return " ".join(line.split()), recs + taps


def check_scope(c, D, d, T, spk, records, tap_records, kind, expect=None, no_spk=False, deco=None):
    """expect: True (must be claimed), False (must not be claimed), None (soundness only)"""
    if deco:
        c.tally("decorated:" + kind.split("-")[0])
    for name, scope in build_scopes(c, spk, records, tap_records, no_spk, deco):
        st, v = guarded(d.owns, scope)
        impl = "ok %d" % (1 if v else 0) if st == "ok" else "none"
        line, recs = scope_line(T, scope)
        info = {"kind": kind, "scope": name, "text": T, "spk": spk.hex(), "records": [(fp.hex(), p) for fp, p in recs],
                "impl": impl}
        c.count((kind, T, spk, tuple((fp, tuple(p)) for fp, p in recs), name), nontrivial=True)
        c.tally("%s:%s" % (kind, impl))
        c.expect(line, impl, info, proven=False)
        if st == "timeout":
            c.fail("owns() does not return", info)
            continue
        claimed = st == "ok" and v is True
        w = sound_witness(D, d, spk, recs) if (claimed or expect is False) else None
        if expect is False and w is not None:
            expect = None          # the class label does not apply: some record does derive this script
            c.tally("negative-class-with-a-genuine-witness")
        if claimed:
            if w is None:
                c.fail("owns() claims a scope although no recorded path of one of its keys derives the scope's script",
                       info)
        if expect is False and claimed:
            c.fail("owns() claims a scope of class '%s'" % kind, info)
        if expect is True and not claimed:
            c.fail("owns() does not claim an honest scope", info)
        if st == "ok" and v not in (True, False):
            c.fail("owns() returns a non-boolean", dict(info, value=repr(v)))


def perturb_path(r, ke, path, how):
    """alter a recorded full path of key `ke`"""
    p = list(path)
    olen = len(ke.origin[1]) if ke.origin is not None else 0
    if how == "origin-element" and olen:
        j = r.randrange(olen)
        p[j] ^= r.choice([1, HARD])
    elif how == "extra":
        p.append(r.choice([0, 1]))
    elif how == "missing" and p:
        p.pop()
    elif how == "fixed-step":
        fixed = [olen + j for j, st in enumerate(ke.steps) if isinstance(st, int)]
        if fixed:
            p[r.choice(fixed)] += 1
        else:
            p.insert(olen, 0)
    elif how == "bad-branch":
        sets = [olen + j for j, st in enumerate(ke.steps) if isinstance(st, tuple)]
        if sets:
            j = sets[0]
            st = ke.steps[j - olen]
            v = max(st[1]) + 1
            p[j] = v if v < 2 ** 32 else 5
        else:
            p.insert(olen, 7)
    elif how == "hardened-index":
        wi = [olen + j for j, st in enumerate(ke.steps) if st == "*"]
        p[wi[0]] |= HARD
    else:
        p.insert(0, 0)
    return p


def check_desc(c, pool, D, others):
    r = c.rng
    T = D.text()
    st, d = guarded(Descriptor.from_string, T)
    if st != "ok":
        c.tally("descriptor-rejected")
        return
    hd = [k for k in D.keys() if k.is_hd and k.ranged]
    if not hd:
        c.tally("no-ranged-extended-key")
    c.tally("wrapper:" + D.wrapper + ("+tree" if D.tree else ""))
    c.sample({"text": T[:300]})
    nb = D.nbranches
    i = r.choice([0, 1, 2 ** 31 - 1, r.randrange(2 ** 31)])
    b = r.randrange(nb)
    st, spk = guarded(lambda: d.derive(i, b).script_pubkey().data)
    if st != "ok":
        c.tally("cannot-derive")
        return
    tap = D.wrapper == "tr"
    deco = genuine_metadata(d, i, b)
    allk = [k for k in D.keys() if k.is_hd and k.steps]
    honest = [k.record_at(i, b) for k in allk]
    short = [k.record_at(i, b, short=True) for k in allk]

    def place(recs):
        """taproot descriptors carry their records in taproot_bip32_derivations (sometimes in the other map)"""
        if tap and r.random() < 0.85:
            return [], recs
        return recs, []
    # ---- honest scopes
    if hd:
        ranged_only = all(k.ranged for k in allk)
        exp = True if ranged_only else None
        check_scope(c, D, d, T, spk, *place(honest), kind="honest", expect=exp)
        check_scope(c, D, d, T, spk, *place(honest), kind="honest-own-metadata", expect=exp, deco=deco)
        check_scope(c, D, d, T, spk, *place(short), kind="honest-short", expect=exp)
        k0 = r.choice(hd)
        check_scope(c, D, d, T, spk, *place([k0.record_at(i, b)]), kind="honest-one-key",
                    expect=True if (nb == 1 or k0.nbranches > 1) else None)
        sh = list(honest)
        r.shuffle(sh)
        check_scope(c, D, d, T, spk, *place(sh), kind="honest-shuffled", expect=exp)
    # ---- no script / no records
    check_scope(c, D, d, T, spk, *place(honest), kind="no-script", expect=False, no_spk=True)
    check_scope(c, D, d, T, spk, [], [], kind="no-records", expect=False)
    if not hd:
        return
    branched = [k for k in hd if nb == 1 or k.nbranches > 1]
    k0 = r.choice(branched or hd)      # a key whose record determines the branch
    yes = True if branched else None
    fp0, p0 = k0.record_at(i, b)
    # ---- foreign fingerprint
    foreign = [(bytes(r.getrandbits(8) for _ in range(4)), p) for (_, p) in honest]
    check_scope(c, D, d, T, spk, *place(foreign), kind="foreign-fingerprint", expect=False)
    # ---- script differs: another index / branch / descriptor, honest records
    for what in ("other-index", "other-branch", "other-descriptor"):
        if what == "other-index":
            st2, spk2 = guarded(lambda: d.derive((i + 1) % HARD, b).script_pubkey().data)
        elif what == "other-branch":
            if nb < 2:
                continue
            st2, spk2 = guarded(lambda: d.derive(i, (b + 1) % nb).script_pubkey().data)
        else:
            o = r.choice(others) if others else None
            if o is None:
                continue
            st2, spk2 = guarded(lambda: o.derive(i, 0).script_pubkey().data)
        if st2 == "ok" and spk2 != spk:
            check_scope(c, D, d, T, spk2, *place(honest), kind="script-" + what, expect=False)
            # the change-spoofing scope: everything the descriptor would record for (i, b) - derivations under the
            # real derived keys, witness / redeem script, internal key - around a script that is not its own
            check_scope(c, D, d, T, spk2, *place(honest), kind="script-" + what + "-own-metadata", expect=False, deco=deco)
    # same keys, other wrapper (single-key forms)
    if D.wrapper in ("pkh", "wpkh", "shwpkh"):
        for w in ("pkh", "wpkh", "shwpkh", "tr"):
            if w != D.wrapper and not (w == "tr" and D.key.kind not in ("xpub", "xprv")):
                o = dgen.Desc(w, key=D.key)
                st2, spk2 = guarded(lambda: Descriptor.from_string(o.text()).derive(i, b).script_pubkey().data)
                if st2 == "ok":
                    check_scope(c, D, d, T, spk2, *place(honest), kind="same-key-other-wrapper", expect=False)
                    if D.key.ranged and r.random() < 0.5:
                        hrec = [(D.key.record_at(i, b)[0], perturb_path(r, D.key, D.key.record_at(i, b)[1], "hardened-index"))]
                        check_scope(c, D, d, T, spk2, *place(hrec), kind="other-wrapper-hardened-record", expect=False)
    # a private descriptor CAN derive at a hardened index: a scope carrying that script and that (hardened) record
    # must still not be claimed
    if D.wrapper in ("pkh", "wpkh", "shwpkh", "tr") and D.tree is None and D.key.kind == "xprv" and D.key.ranged:
        st2, py = guarded(D.py_script, i | HARD, b)
        if st2 == "ok" and py is not None:
            fp_h, p_h = D.key.record_at(i | HARD, b)
            check_scope(c, D, d, T, py[0], *place([(fp_h, p_h)]), kind="hardened-honest-private", expect=False)
    # ---- wrong path / branch / hardened index (every record altered the same way)
    for how in ("origin-element", "extra", "missing", "fixed-step", "bad-branch", "hardened-index", "prefix"):
        recs = [(k.record_at(i, b)[0], perturb_path(r, k, k.record_at(i, b)[1], how)) for k in hd]
        recs = [(fp, [min(v, 2 ** 32 - 1) for v in p]) for fp, p in recs]
        still = any(any(m[0] is not None and m[0] < HARD for m in record_matches(k, fp, p)) for (fp, p) in recs
                    for k in D.keys())
        check_scope(c, D, d, T, spk, *place(recs), kind="path-" + how, expect=None if still else False)
    # ---- mixed records
    good = (fp0, p0)
    bad_fp = (bytes(r.getrandbits(8) for _ in range(4)), p0)
    stale = k0.record_at((i + 1) % HARD, b)          # matches the key, but for another index
    check_scope(c, D, d, T, spk, *place([bad_fp, good]), kind="mixed-foreign-then-correct", expect=yes)
    check_scope(c, D, d, T, spk, *place([good, bad_fp]), kind="mixed-correct-then-foreign", expect=yes)
    check_scope(c, D, d, T, spk, *place([stale, good]), kind="mixed-stale-then-correct", expect=yes)
    check_scope(c, D, d, T, spk, *place([good, stale]), kind="mixed-correct-then-stale", expect=yes)
    if tap:
        # one record in each map: bip32_derivations are scanned first
        check_scope(c, D, d, T, spk, [stale], [good], kind="mixed-maps-stale-first", expect=yes)
        check_scope(c, D, d, T, spk, [good], [stale], kind="mixed-maps-correct-first", expect=yes)
    hard = (fp0, perturb_path(r, k0, p0, "hardened-index"))
    check_scope(c, D, d, T, spk, *place([hard, good]), kind="mixed-hardened-then-correct", expect=None)
    # check_derivation of the descriptor
    for (fp, p) in (good, stale, bad_fp):
        stc, v = guarded(d.check_derivation, DerivationPath(fp, list(p)))
        impl = "none" if stc != "ok" else ("ok None" if v is None else "ok %d %d" % (v[0], v[1]))
        c.expect("desc.checkder %s %s %d %s" % (hx(T), hb(fp), len(p), " ".join(map(str, p))), impl,
                 {"kind": "check_derivation", "text": T}, proven=False)


def corpus(c, pool):
    """the witness of the repaired defect (fixes/owns-keeps-looking.diff): a ranged key without a branch set next to
    one with <0;1>; honest scopes on both branches must be claimed"""
    a, oa = pool.account()
    b, ob = pool.account()
    k1 = dgen.KE("xpub", hd=a, origin=oa, steps=[0, "*"])
    k2 = dgen.KE("xpub", hd=b, origin=ob, steps=[("set", [0, 1]), "*"])
    for ms in (("multi", "sortedmulti", 2, [k1, k2]), ("multi", "multi", 1, [k2, k1])):
        D = dgen.Desc("wsh", ms=ms)
        T = D.text()
        d = Descriptor.from_string(T)
        for br in (0, 1):
            spk = d.derive(7, br).script_pubkey().data
            recs = [k.record_at(7, br) for k in (k1, k2)]
            check_scope(c, D, d, T, spk, recs, [], kind="corpus-unbranched-key", expect=True)
            check_scope(c, D, d, T, spk, list(reversed(recs)), [], kind="corpus-unbranched-key", expect=True)
    c.flush()


def generated(c, pool, n):
    others = []
    for j in range(n):
        w = dgen.WRAPPERS[j % len(dgen.WRAPPERS)]
        D = dgen.gen_desc(pool, wrapper=w, private_ok=c.rng.random() < 0.3, want_hd=True if c.rng.random() < 0.9 else None)
        check_desc(c, pool, D, others)
        st, d = guarded(Descriptor.from_string, D.text())
        if st == "ok" and len(others) < 40:
            others.append(d)
        if j % 20 == 19:
            c.flush()
    c.flush()


def search(c):
    pool = dgen.Pool(c.rng)
    pool.distinct_sets = True
    generated(c, pool, 400)


def run(tier, seed):
    c = Check(PROP, MODS, tier, seed)
    c.rule = ("ranged descriptors over every wrapper (single-key, multisig, miniscript, taproot with and without trees; "
              "extended keys with and without origins, public and private) x index in {0,1,2^31-1,random} x branch x "
              "scopes (input with witness_utxo, output, and the input re-parsed from the serialised PSBT) carrying: honest "
              "records (full origin / short own-fingerprint form / one key only / shuffled), no script, no records, foreign "
              "fingerprints, scripts of another index / branch / descriptor / wrapper over the same key, paths altered in "
              "the origin part / a fixed step / too long / too short / branch outside the set / hardened index, and mixed "
              "records (foreign, stale, hardened before or after the correct one; both PSBT maps for taproot). Every case "
              "is distinct by (class, descriptor, script, records, scope)")
    c.assumptions = ["the recorded public keys and tap-leaf hashes of a scope are not read by owns(); they are dummy values",
                     "completeness (theorem owns_complete; here: expect=True) is demanded of scopes that carry the descriptor's "
                     "script and the honest record of a ranged key fixing the branch, whatever foreign or stale records precede "
                     "or follow it (the code after fixes/owns-keeps-looking.diff keeps looking; the pre-fix first-match rule "
                     "survives only as the witness old_first_match_rejected_honest_scope); the one excluded region is NoRaise: "
                     "a record matching a key at a HARDENED index that is scanned before the honest one makes owns() raise "
                     "ArgumentError (witness theorems owns_raises_on_hardened_record / parsed_owns_raises_on_hardened_record in "
                     "Props/C14X.lean; class mixed-hardened-then-correct is checked for soundness and model agreement only)"]
    c.build_and_audit()
    pool = dgen.Pool(c.rng)
    pool.distinct_sets = True      # <a;a> makes the branch of a record ambiguous: outside the honest-scope claims
    pool.max_multi = 5
    corpus(c, pool)
    generated(c, pool, 144 if tier == "quick" else 1400)
    return c.finish(search=search)


def replay(path):
    r = json.load(open(path))
    info = r.get("info", r)
    print("descriptor:", info.get("text", "")[:800])
    print("class     :", info.get("kind"), info.get("scope"))
    print("script    :", info.get("spk"))
    print("records   :", info.get("records"))
    print("impl owns :", info.get("impl"))
    if r.get("request"):
        print("model     :", run_driver([r["request"]])[0])
    else:
        d = Descriptor.from_string(info["text"])
        recs = [(bytes.fromhex(fp), p) for fp, p in info["records"]]
        class C:
            rng = __import__("random").Random(0)
        for name, sc in build_scopes(C, bytes.fromhex(info["spk"]), recs, []):
            line, _ = scope_line(info["text"], sc)
            print(name, "impl", guarded(d.owns, sc), "model", run_driver([line])[0])
    return 0
