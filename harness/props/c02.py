"""C02 — PSBT signing adds only valid, authorised signatures for the right digest.

Theorems: Props/C02.lean (sign/skip policy = the property's rule for every authorised/requested flag combination;
script-code dispatch = consensus rule per script type). Tie + property predicate: signable PSBTs over small HD wallets
are signed by embit (in memory and through PSBTView); every signature added is verified by the independent Lean
verifier against the Lean CONSENSUS digest (`sigcheck.*`), the set of (input, key) signed is compared with the set the
property prescribes (computed here from how the wallet was built), as are flag bytes, the returned count and the
requirement that nothing else changes."""
import io
import json
from collections import Counter

from core import Check, hx, run_driver
import gen
import gen_wallet as gw
import gen_psbt

from embit import ec
from embit.descriptor import Descriptor
from embit.psbt import PSBT
from embit.psbtview import PSBTView

PROP = "C02"
MODS = ["EmbitModel.Props.C02"]
H = gw.H
AUTH = [None, 0, 1, 2, 3, 0x81, 0x82, 0x83]


def norm(f, taproot):
    return 1 if (not taproot and f == 0) else f


def policy(authorised, inp_flag, taproot):
    """the property's rule -> flag to sign with, or None"""
    eff = norm(inp_flag, taproot) if inp_flag is not None else norm(authorised if authorised is not None else 0, taproot)
    if authorised is None:
        return eff
    a = norm(authorised, taproot)
    if a == eff or (a in (0, 1) and eff in (0, 1)):
        return eff
    return None


def make_signer(rng, g):
    """(name, signer object, predicate on key records (wallet, path, sec, xonly, leaf))"""
    kind = rng.choice(["root:A", "root:A", "root:B", "root:X", "wif", "desc", "desckey"])
    if kind.startswith("root:"):
        w = gw.wallet(kind[5:])
        return kind, w.root, (lambda rec: rec[0] == w.name)
    recs = [r for i in g["ins"] for r in i["keys"] if r[0] == "A"]
    if kind == "wif" or not recs:
        if not recs:
            w = gw.wallet("X")
            return "root:X", w.root, (lambda rec: False)
        r = rng.choice(recs)
        prv = gw.wallet("A").key(r[1]).key
        return "wif", prv, (lambda rec: rec[2] == r[2])
    r = rng.choice(recs)
    acct = r[1][:3]
    w = gw.wallet("A")
    axprv = w.key(acct)
    origin = "[%s/%s]" % (w.fp.hex(), "/".join("%dh" % (x - H) for x in acct))
    d = Descriptor.from_string("wpkh(%s%s/<0;1>/*)" % (origin, axprv.to_base58()))
    pred = (lambda rec: rec[0] == "A" and rec[1][:len(acct)] == acct)
    if kind == "desc":
        return "desc", d, pred
    return "desckey", d.keys[0], pred


def scope_pairs_of(scope, version):
    s = io.BytesIO()
    scope.write_to(s, version=version)
    return gen_psbt.split_scopes(b"psbt\xff" + s.getvalue())[0]


def sigcheck_line(g, txtoks, i, rec, flag, keybytes, sig):
    d = g["ins"][i]
    if d["algo"] == "legacy":
        return "sigcheck.legacy %s %d %s %d %s %s" % (txtoks, i, hx(d["scriptcode"]), flag, hx(keybytes), hx(sig))
    if d["algo"] == "segwit":
        return "sigcheck.segwit %s %d %s %d %d %s %s" % (txtoks, i, hx(d["scriptcode"]), d["value"], flag, hx(keybytes), hx(sig))
    spks = [x["spk"] for x in g["ins"]]
    vals = [x["value"] for x in g["ins"]]
    leaf = rec
    pre = " ".join([txtoks, str(i), str(len(spks))] + [hx(s) for s in spks] + [str(len(vals))] + [str(v) for v in vals])
    if leaf is None:
        return "sigcheck.taproot %s %d 0 None None 192 None %s %s" % (pre, flag, hx(keybytes), hx(sig))
    return "sigcheck.taproot %s %d 1 None %s %d None %s %s" % (pre, flag, hx(leaf[0]), leaf[1], hx(keybytes), hx(sig))


def check_case(c, g, signer_name, signer, pred, authorised, use_view):
    b = gw.psbt_bytes(g)
    txtoks = gw.tx_tokens_of(g)
    rec0 = {"op": "psbt.sign", "signer": signer_name, "authorised": authorised, "view": use_view, "bytes": hx(b)[:30000],
            "inputs": [(x["kind"], x["sighash_type"]) for x in g["ins"]]}
    p = PSBT.parse(b)
    before = [Counter(scope_pairs_of(i, p.version)) for i in p.inputs]
    out_before = [scope_pairs_of(o, p.version) for o in p.outputs]
    try:
        if use_view:
            s = io.BytesIO(b)
            v = PSBTView.view(s)
            sigs = io.BytesIO()
            count = v.sign_with(signer, sigs, sighash=authorised)
            sc = gen_psbt.split_scopes(b"psbt\xff" + b"\x00" + sigs.getvalue())[1:] if sigs.getvalue() else []
            added = [Counter(x) for x in sc] + [Counter() for _ in range(len(p.inputs) - len(sc))]
            # the stream carries every partial sig of the scope after signing; keep only the new ones
            added = [Counter({k: n for k, n in a.items() if k not in before[i]}) for i, a in enumerate(added)]
        else:
            count = p.sign_with(signer, sighash=authorised)
            after = [Counter(scope_pairs_of(i, p.version)) for i in p.inputs]
            for i, (x, y) in enumerate(zip(before, after)):
                lost = x - y
                if lost and not all(k[:1] == b"\x08" for k, _ in lost):
                    c.fail("signing removed or altered a field of input %d" % i, dict(rec0, lost=[(hx(k), hx(v)[:80]) for k, v in lost][:3]))
                    return
            if [scope_pairs_of(o, p.version) for o in p.outputs] != out_before:
                c.fail("signing changed an output scope", rec0)
                return
            added = [y - x for x, y in zip(before, after)]
    except Exception as e:
        # a raise is acceptable only when a digest that has to be computed does not exist:
        # BIP341 SIGHASH_SINGLE on an input without matching output
        for i, d in enumerate(g["ins"]):
            if d["algo"] == "taproot" and i >= len(g["outs"]):
                f = policy(authorised, d["sighash_type"], True)
                if f is not None and f & 3 == 3 and any(pred(r) for r in d["keys"]):
                    c.tally("undefined-digest")
                    return
        import traceback
        c.fail("sign_with raised %s" % type(e).__name__, dict(rec0, error=str(e)[:200], traceback=traceback.format_exc()[-900:]))
        return
    # expected by the property
    expected = {}
    for i, d in enumerate(g["ins"]):
        taproot = d["algo"] == "taproot"
        flag = policy(authorised, d["sighash_type"], taproot)
        if flag is None:
            continue
        for rec in d["keys"]:
            if not pred(rec):
                continue
            if taproot:
                if rec[4] is None:
                    expected[(i, b"\x08")] = (flag, rec, d["spk"][2:])
                else:
                    expected[(i, b"\x14" + rec[3] + rec[4][2])] = (flag, rec, rec[3])
            else:
                expected[(i, b"\x02" + rec[2])] = (flag, rec, rec[2])
    # the model's decision per involved input vs what embit did (correspondence of Model.signPolicy / sighashDispatch)
    for i, d in enumerate(g["ins"]):
        mine = [r for r in d["keys"] if pred(r)]
        if not mine:
            continue
        taproot = d["algo"] == "taproot"
        sigs_i = [v for (k, v), n in added[i].items()]
        if sigs_i:
            v = sigs_i[0]
            if taproot:
                body = v[2:] if len(v) > 65 or v[:1] == b"\x01" and len(v) in (66, 67) else v
                obs = "sign %d" % (0 if len(body) == 64 else body[-1])
            else:
                obs = "sign %d" % v[-1]
        else:
            obs = "skip"
        c.expect("sign.policy %s %s %d" % ("None" if authorised is None else authorised,
                                           "None" if d["sighash_type"] is None else d["sighash_type"], 1 if taproot else 0),
                 obs, dict(rec0, input=i, kind=d["kind"]), proven=True, op="sign.policy")
        pairs = dict(d["pairs"])
        exp_algo = d["algo"]
        if exp_algo != "taproot":
            c.expect("sign.dispatch %s %s %s %d" % (hx(d["spk"]), hx(pairs[b"\x05"]) if b"\x05" in pairs else "None",
                                                   hx(pairs[b"\x04"]) if b"\x04" in pairs else "None", 1 if b"\x01" in pairs else 0),
                     "%s %s" % (exp_algo, hx(d["scriptcode"])), dict(rec0, input=i, kind=d["kind"]), proven=True, op="sign.dispatch")
    got = {}
    for i, a in enumerate(added):
        for (k, v), n in a.items():
            if k[:1] not in (b"\x02", b"\x14", b"\x08"):
                c.fail("signing added a field that is not a signature (key %s)" % hx(k)[:20], dict(rec0, input=i))
                return
            got[(i, k)] = v
    c.count(("sign", signer_name, authorised, use_view, b), nontrivial=True)
    c.tally("signer:%s" % signer_name)
    c.tally("auth:%s" % authorised)
    c.tally("sigs:%d" % min(len(got), 4))
    if set(got) != set(expected):
        miss = [k for k in expected if k not in got]
        extra = [k for k in got if k not in expected]
        c.fail("set of (input, key) signed differs from the authorised set: missing %d, unexpected %d" % (len(miss), len(extra)),
               dict(rec0, missing=[(i, hx(k)[:70], g["ins"][i]["kind"]) for i, k in miss][:4],
                    unexpected=[(i, hx(k)[:70], g["ins"][i]["kind"]) for i, k in extra][:4]))
        return
    if count != len(got):
        c.fail("returned count %r differs from the number of signatures added %d" % (count, len(got)), rec0)
    for (i, k), v in got.items():
        flag, rec, keybytes = expected[(i, k)]
        d = g["ins"][i]
        for kind in d["kind"],:
            c.tally("kind:" + kind)
        if d["algo"] == "taproot":
            if k == b"\x08":
                items = v  # serialized witness: count, len, sig
                if items[:1] != b"\x01":
                    c.fail("taproot key-path witness has more than one element", dict(rec0, input=i))
                    continue
                sig = items[2:]
            else:
                sig = v
            if flag == 0:
                ok_len, body, fb = (len(sig) == 64), sig, 0
            else:
                ok_len, body, fb = (len(sig) == 65), sig[:64], sig[-1] if sig else -1
            if not ok_len or fb != flag:
                c.fail("taproot signature does not carry the sighash flag correctly", dict(rec0, input=i, sig=hx(sig), flag=flag))
                continue
            line = sigcheck_line(g, txtoks, i, rec[4], flag, keybytes, body)
        else:
            if not v or v[-1] != flag:
                c.fail("signature's last byte is not the sighash flag", dict(rec0, input=i, sig=hx(v), flag=flag))
                continue
            line = sigcheck_line(g, txtoks, i, None, flag, keybytes, v[:-1])
        c.expect(line, "valid", dict(rec0, input=i, key=hx(k)[:70], flag=flag, kind=d["kind"]), proven=True, op="sigcheck")


def explore(c, n):
    for k in range(n):
        g = gw.gen_signable(c.rng)
        for _ in range(3):
            name, signer, pred = make_signer(c.rng, g)
            authorised = c.rng.choice(AUTH)
            check_case(c, g, name, signer, pred, authorised, use_view=(c.rng.random() < 0.35))
        if k == 0:
            c.sample({"psbt": hx(gw.psbt_bytes(g))[:400], "inputs": [x["kind"] for x in g["ins"]]})
        if k % 10 == 9:
            c.flush()
    c.flush()


def run(tier, seed):
    c = Check(PROP, MODS, tier, seed)
    c.rule = ("seeded PSBTs (v0/v2, 1-3 inputs) over HD wallets A (cosigners B, C): p2pkh, p2wpkh, p2sh-p2wpkh, p2wsh / p2sh-p2wsh / "
              "p2sh multisig, p2wsh miniscript, p2tr key path, p2tr script path (1-2 leaves); per-input sighash_type absent or any "
              "of the 8 flags; signer in {HD root of A, of cosigner B, of a foreign wallet, WIF key, descriptor with origin, "
              "descriptor key}; authorised flag in {None, 0, 1, 2, 3, 0x81, 0x82, 0x83}; in memory or through PSBTView. Distinct by content.")
    c.assumptions = ["unforgeability is not claimed: 'valid' means the independent Lean verifier accepts the signature for the consensus digest",
                     "wallet keys and scripts are built with embit's key classes as test data; script codes and expected sets are built here"]
    c.build_and_audit()
    explore(c, 70 if tier == "quick" else 1200)
    return c.finish(search=lambda cc: explore(cc, 80))


def replay(path):
    r = json.load(open(path))
    print(json.dumps({k: (v if len(str(v)) < 1500 else str(v)[:1500]) for k, v in r.items()}, indent=1))
    return 0
