"""C02 — PSBT signing adds only valid, authorised signatures for the right digest.

Theorems: Props/C02.lean (sign/skip policy = the property's rule for every authorised/requested flag combination;
script-code dispatch = consensus rule per script type). Tie + property predicate: signable PSBTs over small HD wallets
are signed by embit (in memory and through PSBTView); every signature added is verified by the independent Lean
verifier against the Lean CONSENSUS digest (`sigcheck.*`), the set of (input, key) signed is compared with the set the
property prescribes (computed here from how the wallet was built), as are flag bytes, the returned count and the
requirement that nothing else changes.

C02X (Props/C02X.lean): the whole of `PSBT.sign_with` is modelled (Model/SignWith.lean) and proved to add only valid,
authorised signatures, to change nothing else, to count them and to sign every key it controls. The model is tied to
embit here: `sign.run` runs it over the concrete secp256k1 / SHA-256 / RIPEMD-160 / HMAC-SHA512 of the driver, so the
WHOLE resulting PSBT (signature bytes included) and the returned count are compared with embit's on every generated
case and on adversarial variants (existing signatures, re-signing, wrong-parity / duplicated / foreign derivation
entries, uncompressed keys, descriptors holding one key twice). `sign.struct` is the same comparison with signature
values blanked (count, set of slots, frame: fully determined by the theorems); `sign.trace` compares the model's trace
with the slots embit changed (count = number of distinct slots of the trace, changed slots are trace slots).

C02Y (Props/C02Y.lean): the `SigLaws` hypothesis of C02X is discharged for the environment the driver runs (`opsOf`:
C07 signers + C09/C10 key models over one abstract curve, bridged between the two curve records) relative to the curve
laws; `sign.verify` decides the theorem's conclusion (standards' verifiers, consensus digest) for every write of the
model's trace over the executable secp256k1.

C02V (Props/C02V.lean, audit2 B-1 / B-2): `sign.viewbytes` runs the BYTE-LEVEL model of `PSBTView.sign_with`
(Model/ViewSignBytes.lean: scopes read from the stream at offsets in the view's compress mode, streaming digests) on the
raw buffer with the view opened at a non-zero offset; it is proved equal to the in-memory model on every accepted PSBT, and
the two Lean models of `PSBT.sighash` (C01X's and C02X's) are proved equal on everything `sign_with` passes."""
import io
import json
import zlib
from collections import Counter, OrderedDict

from core import Check, hx, run_driver
import gen
import gen_wallet as gw
import gen_psbt

from embit import ec, bip32
from embit.descriptor import Descriptor
from embit.descriptor.arguments import Key, KeyOrigin
from embit.psbt import PSBT
from embit.psbtview import PSBTView

PROP = "C02"
MODS = ["EmbitModel.Props.C02", "EmbitModel.Props.C02X", "EmbitModel.Props.C02Y", "EmbitModel.Props.C02Z", "EmbitModel.Props.C02V"]
H = gw.H
AUTH = [None, 0, 1, 2, 3, 0x81, 0x82, 0x83]
# sign.viewbytes: Props/C02V.viewbytes_eq_memory proves the byte-level model equal to the in-memory model on every accepted PSBT
VIEWBYTES_PROVEN = True


def norm(f, taproot):
    return 1 if (not taproot and f == 0) else f


def policy(authorised, inp_flag, taproot):
    """the property's rule -> flag to sign with, or None"""
    eff = norm(inp_flag, taproot) if inp_flag is not None else norm(authorised if authorised is not None else 0, taproot)
    if authorised is None:
        return eff
    a = norm(authorised, taproot)
    if a == eff or (a in (0, 1) and eff in (0, 1)):
        return eff
    return None


def make_signer(rng, g):
    """(name, signer object, predicate on key records (wallet, path, sec, xonly, leaf))"""
    kind = rng.choice(["root:A", "root:A", "root:B", "root:X", "wif", "desc", "desckey"])
    if kind.startswith("root:"):
        w = gw.wallet(kind[5:])
        return kind, w.root, (lambda rec: rec[0] == w.name)
    recs = [r for i in g["ins"] for r in i["keys"] if r[0] == "A"]
    if kind == "wif" or not recs:
        if not recs:
            w = gw.wallet("X")
            return "root:X", w.root, (lambda rec: False)
        r = rng.choice(recs)
        prv = gw.wallet("A").key(r[1]).key
        return "wif", prv, (lambda rec: rec[2] == r[2])
    r = rng.choice(recs)
    acct = r[1][:3]
    w = gw.wallet("A")
    axprv = w.key(acct)
    origin = "[%s/%s]" % (w.fp.hex(), "/".join("%dh" % (x - H) for x in acct))
    d = Descriptor.from_string("wpkh(%s%s/<0;1>/*)" % (origin, axprv.to_base58()))
    pred = (lambda rec: rec[0] == "A" and rec[1][:len(acct)] == acct)
    if kind == "desc":
        return "desc", d, pred
    return "desckey", d.keys[0], pred


# ---------------------------------------------------------------- C02X: the model of sign_with

def on(x):
    return "None" if x is None else str(x)


def ob(x):
    return "None" if x is None else hx(x)


def skv(pairs):
    return ",".join(hx(k) + ":" + hx(v) for k, v in pairs) if pairs else "-"


def hd_tok(k):
    return "prv %s 1 %s %s %d %s %d" % (hx(k.key.secret), hx(k.chain_code), hx(k.version), k.depth, hx(k.fingerprint), k.child_number)


def single_tok(k):
    """one key as the driver reads it; None when the model does not cover it (public HD key used directly)"""
    if isinstance(k, ec.PrivateKey):
        return "wif %s %d" % (hx(k.secret), 1 if k.compressed else 0)
    if isinstance(k, bip32.HDKey):
        return ("hd " + hd_tok(k)) if k.is_private else None
    if not k.is_private:
        return "keypub"
    if k.is_extended:
        o = "None" if k.origin is None else "%s %d%s" % (hx(k.origin.fingerprint), len(k.origin.derivation),
                                                          "".join(" %d" % x for x in k.origin.derivation))
        return "keyhd %s %s" % (hd_tok(k.key), o)
    return "wif %s %d" % (hx(k.key.secret), 1 if k.key.compressed else 0)


def signer_tok(s):
    if hasattr(s, "keys"):
        ks = [single_tok(k) for k in s.keys]
        return None if None in ks else "desc %d %s" % (len(ks), " ".join(ks))
    return single_tok(s)


def dump_sorted(p):
    """harness/props/c04.py `dump`, with both signature maps sorted by key: Python adds new entries in set order"""
    t = [on(p.version), on(p.tx_version), on(p.locktime),
         skv([(x.serialize(), d.serialize()) for x, d in p.xpubs.items()]), skv(list(p.unknown.items()))]
    for i in p.inputs:
        i.partial_sigs = OrderedDict(sorted(i.partial_sigs.items(), key=lambda kv: kv[0].sec()))
        i.taproot_sigs = OrderedDict(sorted(i.taproot_sigs.items(), key=lambda kv: kv[0][0].xonly() + kv[0][1]))
        u = i._utxo
        t += ["I", ob(i.txid), on(i.vout), on(i.sequence),
              "None" if u is None else "%d/%s" % (u.value, hx(u.script_pubkey.data)), ob(i._txhash),
              skv(scope_pairs_of(i, p.version))]
    for o in p.outputs:
        t += ["O", on(o.value), "None" if o.script_pubkey is None else hx(o.script_pubkey.data),
              skv(scope_pairs_of(o, p.version))]
    return " ".join(t)


def strip_ntrace(out):
    if not out.startswith("ok "):
        return out
    t = out.split(" ")
    return " ".join(t[:2] + t[3:])


def blank_sigs(ans):
    """replace signature VALUES by their shape (DER: flag byte; Schnorr: length; witness: item length)"""
    if not ans.startswith("ok "):
        return ans
    t = ans.split(" ")
    out = []
    k = 0
    while k < len(t):
        if t[k] == "I":
            kvs = t[k + 6]
            if kvs != "-":
                ps = []
                for kvp in kvs.split(","):
                    key, val = kvp.split(":")
                    if key[:2] == "02":
                        val = "sig+" + val[-2:]
                    elif key[:2] == "14" or key == "08":
                        val = "len%d" % (len(val) // 2)
                    ps.append(key + ":" + val)
                kvs = ",".join(ps)
            out += t[k:k + 6] + [kvs]
            k += 7
        else:
            out.append(t[k])
            k += 1
    return " ".join(out)


def slots_of(before, after):
    """(input, slot) pairs whose content differs, as the driver prints trace slots"""
    res = []
    for i, (x, y) in enumerate(zip(before, after)):
        bx = dict(x)
        for k, v in y:
            if bx.get(k) != v:
                if k[:1] == b"\x02":
                    res.append("%d partial %s" % (i, hx(k[1:])))
                elif k[:1] == b"\x14":
                    res.append("%d tapscript %s" % (i, hx(k[1:])))
                elif k == b"\x08":
                    res.append("%d tapkey -" % i)
                else:
                    res.append("%d other %s" % (i, hx(k)))
    return sorted(res)


def canon_trace(changed):
    """`ok n {input slotkind key value}*` -> `ok n` when n is the number of distinct slots of the trace and every slot embit
    changed is a slot of the trace (a slot may be written with the value it already holds: not visible as a change)"""
    def canon(out):
        if not out.startswith("ok "):
            return out
        t = out.split(" ")
        sl = set(" ".join(t[k:k + 3]) for k in range(2, len(t), 4))
        if len(sl) != int(t[1]):
            return "count %s but %d distinct slots: %s" % (t[1], len(sl), out[:200])
        miss = [x for x in changed if x not in sl]
        if miss:
            return "changed slot not in the trace: %s" % miss[:3]
        return "ok " + t[1]
    return canon


def model_compare(c, b, signer, authorised, rec0, result):
    """result: None (embit raised) or (count, PSBT after, pairs before, pairs after)"""
    st = signer_tok(signer)
    if st is None:
        c.tally("model:signer-not-covered")
        return
    a = "None" if authorised is None else str(authorised)
    line = "sign.run %s %s %s" % (st, a, hx(b))
    changed = []
    if result is None:
        impl = "none"
        trace = "none"
    else:
        count, p, before, after = result
        impl = "ok %d %s" % (count, dump_sorted(p))
        changed = slots_of(before, after)
        trace = "ok %d" % count
    info = dict(rec0, op="sign.run")
    c.expect(line, blank_sigs(impl), info, proven=True, op="sign.struct", canon=lambda o: blank_sigs(strip_ntrace(o)))
    c.expect(line, impl, info, proven=False, op="sign.run", canon=strip_ntrace)
    c.expect("sign.trace %s %s %s" % (st, a, hx(b)), trace, dict(rec0, op="sign.trace"), proven=True, op="sign.trace",
             canon=canon_trace(changed))
    # C02Y: the conclusion of `added_sigs_valid_standards` decided for every write of the model's trace over the executable
    # secp256k1 (SEC 1 / BIP340 verification under the slot's key against PSBT.sighash of the PSBT handed in): proved to
    # hold relative to the curve laws; evaluated here it exercises that assumption for the driver's curve record
    c.expect("sign.verify %s %s %s" % (st, a, hx(b)), "none" if result is None else "ok 0", dict(rec0, op="sign.verify"),
             proven=False, op="sign.verify", canon=lambda o: " ".join(o.split(" ")[:2]))


def canon_stream(ans):
    """`ok n <stream hex>` -> `ok n <scopes, pairs sorted>`"""
    if not ans.startswith("ok "):
        return ans
    t = ans.split(" ")
    raw = bytes.fromhex(t[2]) if t[2] != "-" else b""
    sc = gen_psbt.split_scopes(b"psbt\xff\x00" + raw)[1:] if raw else []
    return "ok %s %s" % (t[1], " | ".join(",".join(sorted(hx(k) + ":" + hx(v) for k, v in x)) for x in sc))


def view_compare(c, b, signer, authorised, rec0, result):
    """result: None (embit raised) or (count, bytes written to the signature stream)"""
    st = signer_tok(signer)
    if st is None:
        c.tally("model:signer-not-covered")
        return
    a = "None" if authorised is None else str(authorised)
    impl = "none" if result is None else canon_stream("ok %d %s" % (result[0], hx(result[1])))
    c.expect("sign.view %s %s %s" % (st, a, hx(b)), impl, dict(rec0, op="sign.view"), proven=False, op="sign.view",
             canon=canon_stream)


def viewbytes_compare(c, b, signer, authorised, rec0):
    """B-1: the BYTE-LEVEL model of PSBTView.sign_with (Model/ViewSignBytes.lean, op sign.viewbytes): the view is opened on a
    stream that holds the PSBT at an offset (junk before and behind), in one of the three compress modes; every scope is
    read from the bytes and the digests are the view's streaming digests. Compared: whole signature stream + count.
    Offset and mode are derived from the bytes (not from the rng, so the sequence of generated cases is unchanged)."""
    st = signer_tok(signer)
    if st is None:
        return
    h = zlib.crc32(b)
    if c.tier == "thorough" and (h >> 8) & 1:
        return              # thorough tier: every second case (time budget); quick tier: every case
    off = (0, 3, 17)[h % 3]
    vc = (h // 3) % 3
    buf = bytes((h >> (k % 24)) & 0xff for k in range(off)) + b + bytes([(h >> 5) & 0xff] * ((h // 9) % 3))
    a = "None" if authorised is None else str(authorised)
    try:
        s = io.BytesIO(buf)
        s.seek(off)
        v = PSBTView.view(s, compress=vc)
        sigs = io.BytesIO()
        n = v.sign_with(signer, sigs, sighash=authorised)
        impl = canon_stream("ok %d %s" % (n, hx(sigs.getvalue())))
    except Exception:
        impl = "none"
    c.tally("viewbytes:off=%d,mode=%d" % (off, vc))
    c.expect("sign.viewbytes %s %s %d %d %s" % (st, a, off, vc, hx(buf)), impl,
             dict(rec0, op="sign.viewbytes", offset=off, mode=vc), proven=VIEWBYTES_PROVEN, op="sign.viewbytes", canon=canon_stream)


def scope_pairs_of(scope, version):
    s = io.BytesIO()
    scope.write_to(s, version=version)
    return gen_psbt.split_scopes(b"psbt\xff" + s.getvalue())[0]


def sigcheck_line(g, txtoks, i, rec, flag, keybytes, sig):
    d = g["ins"][i]
    if d["algo"] == "legacy":
        return "sigcheck.legacy %s %d %s %d %s %s" % (txtoks, i, hx(d["scriptcode"]), flag, hx(keybytes), hx(sig))
    if d["algo"] == "segwit":
        return "sigcheck.segwit %s %d %s %d %d %s %s" % (txtoks, i, hx(d["scriptcode"]), d["value"], flag, hx(keybytes), hx(sig))
    spks = [x["spk"] for x in g["ins"]]
    vals = [x["value"] for x in g["ins"]]
    leaf = rec
    pre = " ".join([txtoks, str(i), str(len(spks))] + [hx(s) for s in spks] + [str(len(vals))] + [str(v) for v in vals])
    if leaf is None:
        return "sigcheck.taproot %s %d 0 None None 192 None %s %s" % (pre, flag, hx(keybytes), hx(sig))
    return "sigcheck.taproot %s %d 1 None %s %d None %s %s" % (pre, flag, hx(leaf[0]), leaf[1], hx(keybytes), hx(sig))


def check_case(c, g, signer_name, signer, pred, authorised, use_view):
    b = gw.psbt_bytes(g)
    txtoks = gw.tx_tokens_of(g)
    rec0 = {"op": "psbt.sign", "signer": signer_name, "authorised": authorised, "view": use_view, "bytes": hx(b)[:30000],
            "inputs": [(x["kind"], x["sighash_type"]) for x in g["ins"]]}
    p = PSBT.parse(b)
    before_pairs = [scope_pairs_of(i, p.version) for i in p.inputs]
    before = [Counter(x) for x in before_pairs]
    out_before = [scope_pairs_of(o, p.version) for o in p.outputs]
    try:
        if use_view:
            s = io.BytesIO(b)
            v = PSBTView.view(s)
            sigs = io.BytesIO()
            count = v.sign_with(signer, sigs, sighash=authorised)
            view_compare(c, b, signer, authorised, rec0, (count, sigs.getvalue()))
            viewbytes_compare(c, b, signer, authorised, rec0)
            sc = gen_psbt.split_scopes(b"psbt\xff" + b"\x00" + sigs.getvalue())[1:] if sigs.getvalue() else []
            added = [Counter(x) for x in sc] + [Counter() for _ in range(len(p.inputs) - len(sc))]
            # the stream carries every partial sig of the scope after signing; keep only the new ones
            added = [Counter({k: n for k, n in a.items() if k not in before[i]}) for i, a in enumerate(added)]
        else:
            count = p.sign_with(signer, sighash=authorised)
            model_compare(c, b, signer, authorised, rec0,
                          (count, p, before_pairs, [scope_pairs_of(i, p.version) for i in p.inputs]))
            after = [Counter(scope_pairs_of(i, p.version)) for i in p.inputs]
            for i, (x, y) in enumerate(zip(before, after)):
                lost = x - y
                if lost and not all(k[:1] == b"\x08" for k, _ in lost):
                    c.fail("signing removed or altered a field of input %d" % i, dict(rec0, lost=[(hx(k), hx(v)[:80]) for k, v in lost][:3]))
                    return
            if [scope_pairs_of(o, p.version) for o in p.outputs] != out_before:
                c.fail("signing changed an output scope", rec0)
                return
            added = [y - x for x, y in zip(before, after)]
    except Exception as e:
        if not use_view:
            model_compare(c, b, signer, authorised, rec0, None)
        else:
            view_compare(c, b, signer, authorised, rec0, None)
            viewbytes_compare(c, b, signer, authorised, rec0)
        # a raise is acceptable only when a digest that has to be computed does not exist:
        # BIP341 SIGHASH_SINGLE on an input without matching output
        for i, d in enumerate(g["ins"]):
            if d["algo"] == "taproot" and i >= len(g["outs"]):
                f = policy(authorised, d["sighash_type"], True)
                if f is not None and f & 3 == 3 and any(pred(r) for r in d["keys"]):
                    c.tally("undefined-digest")
                    return
        import traceback
        c.fail("sign_with raised %s" % type(e).__name__, dict(rec0, error=str(e)[:200], traceback=traceback.format_exc()[-900:]))
        return
    # expected by the property
    expected = {}
    for i, d in enumerate(g["ins"]):
        taproot = d["algo"] == "taproot"
        flag = policy(authorised, d["sighash_type"], taproot)
        if flag is None:
            continue
        for rec in d["keys"]:
            if not pred(rec):
                continue
            if taproot:
                if rec[4] is None:
                    expected[(i, b"\x08")] = (flag, rec, d["spk"][2:])
                else:
                    expected[(i, b"\x14" + rec[3] + rec[4][2])] = (flag, rec, rec[3])
            else:
                expected[(i, b"\x02" + rec[2])] = (flag, rec, rec[2])
    # the model's decision per involved input vs what embit did (correspondence of Model.signPolicy / sighashDispatch)
    for i, d in enumerate(g["ins"]):
        mine = [r for r in d["keys"] if pred(r)]
        if not mine:
            continue
        taproot = d["algo"] == "taproot"
        sigs_i = [v for (k, v), n in added[i].items()]
        if sigs_i:
            v = sigs_i[0]
            if taproot:
                body = v[2:] if len(v) > 65 or v[:1] == b"\x01" and len(v) in (66, 67) else v
                obs = "sign %d" % (0 if len(body) == 64 else body[-1])
            else:
                obs = "sign %d" % v[-1]
        else:
            obs = "skip"
        c.expect("sign.policy %s %s %d" % ("None" if authorised is None else authorised,
                                           "None" if d["sighash_type"] is None else d["sighash_type"], 1 if taproot else 0),
                 obs, dict(rec0, input=i, kind=d["kind"]), proven=True, op="sign.policy")
        pairs = dict(d["pairs"])
        exp_algo = d["algo"]
        if exp_algo != "taproot":
            c.expect("sign.dispatch %s %s %s %d" % (hx(d["spk"]), hx(pairs[b"\x05"]) if b"\x05" in pairs else "None",
                                                   hx(pairs[b"\x04"]) if b"\x04" in pairs else "None", 1 if b"\x01" in pairs else 0),
                     "%s %s" % (exp_algo, hx(d["scriptcode"])), dict(rec0, input=i, kind=d["kind"]), proven=True, op="sign.dispatch")
    got = {}
    for i, a in enumerate(added):
        for (k, v), n in a.items():
            if k[:1] not in (b"\x02", b"\x14", b"\x08"):
                c.fail("signing added a field that is not a signature (key %s)" % hx(k)[:20], dict(rec0, input=i))
                return
            got[(i, k)] = v
    c.count(("sign", signer_name, authorised, use_view, b), nontrivial=True)
    c.tally("signer:%s" % signer_name)
    c.tally("auth:%s" % authorised)
    c.tally("sigs:%d" % min(len(got), 4))
    if set(got) != set(expected):
        miss = [k for k in expected if k not in got]
        extra = [k for k in got if k not in expected]
        c.fail("set of (input, key) signed differs from the authorised set: missing %d, unexpected %d" % (len(miss), len(extra)),
               dict(rec0, missing=[(i, hx(k)[:70], g["ins"][i]["kind"]) for i, k in miss][:4],
                    unexpected=[(i, hx(k)[:70], g["ins"][i]["kind"]) for i, k in extra][:4]))
        return
    if count != len(got):
        c.fail("returned count %r differs from the number of signatures added %d" % (count, len(got)), rec0)
    for (i, k), v in got.items():
        flag, rec, keybytes = expected[(i, k)]
        d = g["ins"][i]
        for kind in d["kind"],:
            c.tally("kind:" + kind)
        if d["algo"] == "taproot":
            if k == b"\x08":
                items = v  # serialized witness: count, len, sig
                if items[:1] != b"\x01":
                    c.fail("taproot key-path witness has more than one element", dict(rec0, input=i))
                    continue
                sig = items[2:]
            else:
                sig = v
            if flag == 0:
                ok_len, body, fb = (len(sig) == 64), sig, 0
            else:
                ok_len, body, fb = (len(sig) == 65), sig[:64], sig[-1] if sig else -1
            if not ok_len or fb != flag:
                c.fail("taproot signature does not carry the sighash flag correctly", dict(rec0, input=i, sig=hx(sig), flag=flag))
                continue
            line = sigcheck_line(g, txtoks, i, rec[4], flag, keybytes, body)
        else:
            if not v or v[-1] != flag:
                c.fail("signature's last byte is not the sighash flag", dict(rec0, input=i, sig=hx(v), flag=flag))
                continue
            line = sigcheck_line(g, txtoks, i, None, flag, keybytes, v[:-1])
        c.expect(line, "valid", dict(rec0, input=i, key=hx(k)[:70], flag=flag, kind=d["kind"]), proven=True, op="sigcheck")


# ---------------------------------------------------------------- C02X: adversarial variants

H_ = gw.H


def flag_of(algo, k, v):
    """the sighash flag a stored signature carries (None = malformed)"""
    if algo == "taproot":
        sig = v
        if k == b"\x08":
            if v[:1] != b"\x01" or len(v) < 2 or v[1] != len(v) - 2:
                return None
            sig = v[2:]
        return 0 if len(sig) == 64 else (sig[-1] if len(sig) == 65 and sig[-1] != 0 else None)
    return v[-1] if v else None


def mutate(rng, g):
    """in-place variant of a generated PSBT description; returns its name"""
    kind = rng.choice(["none", "presig", "presig", "parity", "duptap", "badpath", "fp", "noutxo", "pretap"])
    ins = g["ins"]
    d = rng.choice(ins)
    pairs = list(d["pairs"])
    if kind == "presig":
        if d["algo"] != "taproot" and d["keys"]:
            r = rng.choice(d["keys"])
            val = gen.rbytes(rng, rng.randrange(1, 73))
            pairs.append((b"\x02" + r[2], val))
        else:
            kind = "none"
    elif kind == "pretap":
        if d["algo"] == "taproot":
            if rng.random() < 0.5:
                pairs.append((b"\x08", b"\x02\x01\x07\x02\x08\x09"))
            else:
                leafs = [r for r in d["keys"] if r[4] is not None]
                if leafs:
                    r = rng.choice(leafs)
                    pairs.append((b"\x14" + r[3] + r[4][2], gen.rbytes(rng, 64)))
        else:
            kind = "none"
    elif kind == "parity":
        idx = [n for n, (k, _) in enumerate(pairs) if k[:1] == b"\x06"]
        if idx:
            n = rng.choice(idx)
            k, v = pairs[n]
            pairs[n] = (b"\x06" + bytes([k[1] ^ 1]) + k[2:], v)
        else:
            kind = "none"
    elif kind == "duptap":
        if d["algo"] != "taproot":
            idx = [n for n, (k, _) in enumerate(pairs) if k[:1] == b"\x06"]
            if idx:
                k, v = pairs[rng.choice(idx)]
                pairs.append((b"\x16" + k[2:34], b"\x00" + v))
            else:
                kind = "none"
        else:
            idx = [n for n, (k, _) in enumerate(pairs) if k[:1] == b"\x16"]
            k, v = pairs[rng.choice(idx)]
            nh = v[0]
            pairs.append((b"\x06" + bytes([rng.choice([2, 3])]) + k[1:], v[1 + 32 * nh:]))
    elif kind == "badpath":
        idx = [n for n, (k, v) in enumerate(pairs) if k[:1] == b"\x06" and len(v) >= 8]
        if idx:
            n = rng.choice(idx)
            k, v = pairs[n]
            pairs[n] = (k, v[:-4] + ((int.from_bytes(v[-4:], "little") + 1) % 2**31).to_bytes(4, "little"))
        else:
            kind = "none"
    elif kind == "fp":
        idx = [n for n, (k, v) in enumerate(pairs) if k[:1] == b"\x06"]
        if idx:
            n = rng.choice(idx)
            k, v = pairs[n]
            pairs[n] = (k, bytes([v[0] ^ 1]) + v[1:])
        else:
            kind = "none"
    elif kind == "noutxo":
        pairs = [(k, v) for k, v in pairs if k not in (b"\x00", b"\x01")]
    d["pairs"] = pairs
    return kind


def adv_signer(rng, g):
    """signers the wallet-derived expectation of `check_case` does not cover"""
    kind = rng.choice(["root:A", "root:B", "uncompressed", "desc2", "descmix", "origin-mismatch", "keywif", "wif", "desckey0"])
    w = gw.wallet("A")
    recs = [r for i in g["ins"] for r in i["keys"] if r[0] == "A" and r[1]]
    if kind.startswith("root:") or not recs:
        ww = gw.wallet(kind[5:] if kind.startswith("root:") else "A")
        return "root:" + ww.name, ww.root
    r = rng.choice(recs)
    acct = r[1][:3]
    axprv = w.key(acct)
    origin = "[%s/%s]" % (w.fp.hex(), "/".join("%dh" % (x - H_) for x in acct))
    prv = w.key(r[1]).key
    if kind == "uncompressed":
        return kind, ec.PrivateKey(prv.secret, compressed=False)
    if kind == "wif":
        return kind, prv
    if kind == "keywif":
        return kind, Key(prv, origin=KeyOrigin(w.fp, list(r[1])))
    if kind == "desc2":
        k = origin + axprv.to_base58()
        return kind, Descriptor.from_string("wsh(or_d(pk(%s/<0;1>/*),and_v(v:pk(%s/<2;3>/*),older(10))))" % (k, k))
    if kind == "descmix":
        xb = gw.wallet("B").key([48 + H_, H_, H_, 2 + H_]).to_public().to_base58()
        return kind, Descriptor.from_string("wsh(multi(1,%s/<0;1>/*,%s%s/<0;1>/*,%s))" % (xb, origin, axprv.to_base58(), prv.wif()))
    if kind == "origin-mismatch":
        other = [(acct[0] ^ 1)] + acct[1:]
        o2 = "[%s/%s]" % (w.fp.hex(), "/".join("%dh" % (x - H_) for x in other))
        return kind, Descriptor.from_string("wpkh(%s%s/<0;1>/*)" % (o2, axprv.to_base58())).keys[0]
    # descriptor key without origin: its own fingerprint is the account key's
    return "desckey0", Descriptor.from_string("wpkh(%s/<0;1>/*)" % axprv.to_base58()).keys[0]


def adversarial_case(c, rng):
    g = gw.gen_signable(rng)
    mkind = mutate(rng, g)
    b = gw.psbt_bytes(g)
    try:
        p = PSBT.parse(b)
    except Exception:
        c.tally("adv:unparsable")
        return
    name, signer = adv_signer(rng, g)
    authorised = rng.choice(AUTH)
    rounds = 2 if rng.random() < 0.35 else 1       # second round: sign the result again (same or another signer)
    for rnd in range(rounds):
        if rnd == 1:
            b = p.serialize()
            p = PSBT.parse(b)
            if rng.random() < 0.5:
                name, signer = adv_signer(rng, g)
        rec0 = {"op": "psbt.sign.adv", "signer": name, "authorised": authorised, "mutation": mkind, "round": rnd,
                "bytes": hx(b)[:30000], "inputs": [(x["kind"], x["sighash_type"]) for x in g["ins"]]}
        before = [scope_pairs_of(i, p.version) for i in p.inputs]
        out_before = [scope_pairs_of(o, p.version) for o in p.outputs]
        glob_before = (p.version, p.tx_version, p.locktime, dict(p.unknown), len(p.inputs))
        c.count(("adv", name, authorised, mkind, rnd, b), nontrivial=True)
        c.tally("adv-mutation:%s" % mkind)
        c.tally("adv-signer:%s" % name)
        # the stream variant on the same bytes
        vres = None
        try:
            v = PSBTView.view(io.BytesIO(b))
            sigs = io.BytesIO()
            vres = (v.sign_with(signer, sigs, sighash=authorised), sigs.getvalue())
        except Exception:
            pass
        view_compare(c, b, signer, authorised, rec0, vres)
        viewbytes_compare(c, b, signer, authorised, rec0)
        try:
            count = p.sign_with(signer, sighash=authorised)
        except Exception as e:
            c.tally("adv:raised")
            model_compare(c, b, signer, authorised, rec0, None)
            if vres is not None:
                c.fail("PSBTView.sign_with succeeds where PSBT.sign_with raises", rec0)
            return
        after = [scope_pairs_of(i, p.version) for i in p.inputs]
        model_compare(c, b, signer, authorised, rec0, (count, p, before, after))
        # stream variant vs in-memory variant: same count; the stream holds signature pairs of the in-memory result
        # only, and every pair the in-memory variant added or changed
        if vres is None:
            c.fail("PSBTView.sign_with raises where PSBT.sign_with succeeds", rec0)
            return
        vs = gen_psbt.split_scopes(b"psbt\xff\x00" + vres[1])[1:] if vres[1] else []
        if vres[0] != count or len(vs) != len(after):
            c.fail("PSBTView.sign_with returns %r / writes %d scopes, PSBT.sign_with returns %r for %d inputs"
                   % (vres[0], len(vs), count, len(after)), rec0)
            return
        for i, (x, y, z) in enumerate(zip(before, after, vs)):
            bx, by = dict(x), dict(y)
            if len(set(k for k, _ in z)) != len(z):
                c.fail("PSBTView.sign_with wrote a key twice for input %d" % i, rec0)
                return
            for k, val in z:
                if by.get(k) != val:
                    c.fail("PSBTView.sign_with wrote a pair the in-memory variant does not produce (input %d key %s)"
                           % (i, hx(k)[:40]), rec0)
                    return
            for k, val in y:
                if bx.get(k) != val and (k, val) not in z:
                    c.fail("PSBTView.sign_with did not write a signature the in-memory variant adds (input %d key %s)"
                           % (i, hx(k)[:40]), rec0)
                    return
        # the property predicate on embit alone
        if [scope_pairs_of(o, p.version) for o in p.outputs] != out_before or \
                (p.version, p.tx_version, p.locktime, dict(p.unknown), len(p.inputs)) != glob_before:
            c.fail("signing changed globals or outputs", rec0)
            return
        changed = 0
        txtoks = gw.tx_tokens_of(g)
        for i, (x, y) in enumerate(zip(before, after)):
            d = g["ins"][i]
            bx, by = dict(x), dict(y)
            for k, v in x:
                if k[:1] not in (b"\x02", b"\x14", b"\x08") and by.get(k) != v:
                    c.fail("signing altered a field that is not a signature (key %s)" % hx(k)[:20], dict(rec0, input=i))
                    return
                if k not in by:
                    c.fail("signing removed an entry (key %s)" % hx(k)[:20], dict(rec0, input=i))
                    return
            for k, v in y:
                if bx.get(k) == v:
                    continue
                changed += 1
                if k[:1] not in (b"\x02", b"\x14", b"\x08"):
                    c.fail("signing added a field that is not a signature (key %s)" % hx(k)[:20], dict(rec0, input=i))
                    return
                taproot = d["algo"] == "taproot"
                flag = flag_of(d["algo"], k, v)
                if flag is None or flag != policy(authorised, d["sighash_type"], taproot):
                    c.fail("new signature does not carry the authorised flag", dict(rec0, input=i, key=hx(k)[:70], value=hx(v)[:150]))
                    continue
                if taproot:
                    if k == b"\x08":
                        line = sigcheck_line(g, txtoks, i, None, flag, d["spk"][2:], v[2:66])
                    else:
                        leaf = d["leaf_scripts"].get(k[33:])
                        if leaf is None:
                            c.fail("taproot script signature filed under an unknown leaf", dict(rec0, input=i, key=hx(k)))
                            continue
                        line = sigcheck_line(g, txtoks, i, (leaf[0], leaf[1]), flag, k[1:33], v[:64])
                else:
                    line = sigcheck_line(g, txtoks, i, None, flag, k[1:], v[:-1])
                c.expect(line, "valid", dict(rec0, input=i, key=hx(k)[:70], flag=flag, kind=d["kind"]), proven=True, op="sigcheck")
        c.tally("adv-sigs:%d" % min(changed, 4))
        # the counter counts the slots a signature is filed under (once per call), also when the slot held the identical
        # signature before: it equals the number of changed slots when the PSBT carried no signature, else it is >=
        fresh = not any(k[:1] in (b"\x02", b"\x14", b"\x08") for x in before for k, _ in x)
        if (fresh and count != changed) or count < changed:
            c.fail("returned count %r, number of signatures added or changed %d (PSBT %s signatures before)"
                   % (count, changed, "without" if fresh else "with"), rec0)


def explore_adversarial(c, n):
    for k in range(n):
        adversarial_case(c, c.rng)
        if k % 20 == 19:
            c.flush()
    c.flush()


def explore_directed(c):
    """every script kind x every per-input flag on a PSBT with 2-3 inputs of that kind, signed by the wallet's root with
    'whatever the PSBT requests', in memory AND through PSBTView: the digests of NONE / SINGLE depend on the OTHER inputs
    (sequences, outputs), which one-input PSBTs and ALL never show"""
    flags = [None, 1, 2, 3, 0x81, 0x82, 0x83]
    for kind in gw.KINDS:
        for f in (flags if kind in ("p2pkh", "p2sh-multi", "p2wpkh", "p2tr") else c.rng.sample(flags, 2)):
            g = gw.gen_signable(c.rng, kinds=[kind], flag=f, nin=c.rng.choice([2, 3]))
            w = gw.wallet("A")
            for use_view in (False, True):
                check_case(c, g, "root:A", w.root, (lambda rec: rec[0] == "A"), None, use_view=use_view)
        c.flush()
    c.tally("directed:kind-x-flag")


def explore(c, n):
    for k in range(n):
        g = gw.gen_signable(c.rng)
        for _ in range(3):
            name, signer, pred = make_signer(c.rng, g)
            authorised = c.rng.choice(AUTH)
            check_case(c, g, name, signer, pred, authorised, use_view=(c.rng.random() < 0.35))
        if k == 0:
            c.sample({"psbt": hx(gw.psbt_bytes(g))[:400], "inputs": [x["kind"] for x in g["ins"]]})
        if k % 10 == 9:
            c.flush()
    c.flush()


def run(tier, seed):
    c = Check(PROP, MODS, tier, seed)
    c.rule = ("seeded PSBTs (v0/v2, 1-3 inputs) over HD wallets A (cosigners B, C): p2pkh, p2wpkh, p2sh-p2wpkh, p2wsh / p2sh-p2wsh / "
              "p2sh multisig, p2wsh miniscript, p2tr key path, p2tr script path (1-2 leaves); per-input sighash_type absent or any "
              "of the 8 flags; signer in {HD root of A, of cosigner B, of a foreign wallet, WIF key, descriptor with origin, "
              "descriptor key}; authorised flag in {None, 0, 1, 2, 3, 0x81, 0x82, 0x83}; in memory or through PSBTView. Distinct by content. "
              "Every PSBTView case is also run through the BYTE-LEVEL model of PSBTView.sign_with (sign.viewbytes: view opened at stream "
              "offset 0 / 3 / 17 with junk before and behind the PSBT, compress mode 0 / 1 / 2, both derived from the bytes; whole signature "
              "stream + count compared). "
              "Adversarial variants (in memory AND through PSBTView, compared with each other and with the Lean models of both): existing "
              "partial / taproot signatures and final witnesses, signing a result again, derivation entries with the other key parity, "
              "duplicated as taproot + ordinary entry, wrong last index, foreign fingerprint, missing utxo; signers: uncompressed key, "
              "descriptor holding one xprv under two branches, descriptor mixing xpub / xprv / WIF, descriptor key whose origin does not "
              "match, descriptor key without origin, key wrapped with origin.")
    c.assumptions = ["unforgeability is not claimed: 'valid' means the independent Lean verifier accepts the signature for the consensus digest",
                     "wallet keys and scripts are built with embit's key classes as test data; script codes and expected sets are built here",
                     "sign.viewbytes: proven=True because Props/C02V.viewbytes_eq_memory_* proves the byte-level model equal to the in-memory model "
                     "on every accepted PSBT (outside the C05X regions); a difference there would mean the stream signer and PSBT.sign_with disagree",
                     "sign.run / sign.view instantiate the proved model with the driver's executable secp256k1, RFC 6979 + grinding, BIP340, "
                     "BIP32 and taproot-tweak models of C07/C09/C10 (each tied to embit by its own property's check)",
                     "signers are private key objects of the modelled kinds (ec.PrivateKey, private bip32.HDKey, descriptor Key, Descriptor)",
                     "C02Y / C02Z: the driver's environment is definitionally `opsOf Crypto.secpLawful realHashes` (theorem driver_ops_eq), the "
                     "PSBT is parsed with the key model's parsers over the same record (signKeyOps); validity of every added signature (SEC 1 / "
                     "BIP340 verification against the consensus digest) is proved of it with NO curve hypothesis (Props/C02Z: EcLaws + InfUnique "
                     "of the record the driver evaluates are theorems, Props/C08W); sign.verify (the theorem's conclusion decided per write) and "
                     "the verifier ops sigcheck.* (Spec.Ecdsa.verify / Spec.Bip340.verify over the same record) still evaluate it on every case"]
    c.build_and_audit()
    explore_directed(c)
    explore(c, 70 if tier == "quick" else 1200)
    explore_adversarial(c, 150 if tier == "quick" else 2000)
    return c.finish(search=lambda cc: (explore(cc, 80), explore_adversarial(cc, 150)))


def replay(path):
    r = json.load(open(path))
    print(json.dumps({k: (v if len(str(v)) < 1500 else str(v)[:1500]) for k, v in r.items()}, indent=1))
    return 0
