"""C19 — results depend only on arguments: no hidden shared state, no argument mutation.

Theorems: lean/EmbitModel/Props/C19.lean — for ALL histories of the object-store model (Model/Heap.lean): independence
of independently created objects, arguments unchanged, every answer a function of receiver and arguments, under
hypotheses on the constructor / method descriptors; `facts_safe_partial` discharges those hypotheses for the
descriptors EXTRACTED from the loaded embit modules (harness/aliasfacts.py -> Generated/AliasFacts.lean).

Tie to the repository, on every run:
  * translator: the alias facts are re-extracted (loaded modules + ast + run-time probes) and the theorems over them are
    rebuilt; an unsafe or unclassifiable site breaks `facts_safe_partial` (a build failure = broken obligation); every
    unsafe site the probes reproduce on the real code is reported with that concrete history;
  * history correspondence: seeded random histories over a pool of real objects are executed in a process forked from
    a pristine interpreter (harness/c19zygote.py); after every call (i) the result and the object it built or modified
    are compared with THE SAME CALL executed in its own pristine process on freshly built equal arguments, (ii) every
    other pool object and (iii) every argument must be unchanged, (iv) no default-argument object or module table may
    have changed. Any difference is a failure of the property itself; it is shrunk to a minimal history;
  * shared state at module / class level: harness/sharedstate.py (run by the translator in a brand-new interpreter) ->
    `Gen.Alias.sharedSites`, obligations in Props/C19Y.lean; an unsafe site breaks `shared_facts_safe` and becomes a target
    of the generic operations g_new / g_mutate / g_call / g_mcall / g_touch: directed histories per site run first, the
    random generator uses them too, so that the failing-input search ends with a concrete history; the fork server compares
    every module- and class-level object (and the identity of every binding) with its import-time picture after each history;
  * model correspondence: the part of each history that has a counterpart in the heap model (constructions with
    defaults / literals, container mutations, digests with varying arguments, mnemonic_from_bytes) is run through the
    native Lean model with the EXTRACTED descriptors; the aliasing / staleness / argument-change pattern per operation
    must equal what the real code did (so the model predicts the sharing when a descriptor is unsafe)."""
import json
import os
import re
import subprocess
import sys

from core import Check, VERIF, REPO, LEAN, run_driver, module_path
import facts
import c19ops

PROP = "C19"
MODS = ["EmbitModel.Props.C19", "EmbitModel.Props.C19Facts", "EmbitModel.Props.C19X", "EmbitModel.Props.C19Y",
        "EmbitModel.Props.C19Complete", "EmbitModel.Props.C19Z"]
ZYGOTE = os.path.join(os.path.dirname(os.path.dirname(os.path.abspath(__file__))), "c19zygote.py")


# ------------------------------------------------------------------------------------------------ fork server

class Zygote:
    def __init__(self):
        env = dict(os.environ)
        env["EMBIT_REPO"] = REPO
        env["PYTHONPATH"] = os.path.join(REPO, "src")
        self.p = subprocess.Popen([sys.executable, "-W", "ignore", ZYGOTE], stdin=subprocess.PIPE, stdout=subprocess.PIPE,
                                  env=env, text=True, bufsize=1)
        self.calls = 0

    def eval(self, ops, fresh=None):
        if fresh is None:
            fresh = list(range(len(ops)))
        self.p.stdin.write(json.dumps({"ops": ops, "fresh": fresh}) + "\n")
        self.p.stdin.flush()
        line = self.p.stdout.readline()
        if not line:
            raise RuntimeError("fork server died")
        self.calls += 1
        return json.loads(line)

    def close(self):
        try:
            self.p.stdin.close()
            self.p.wait(timeout=10)
        except Exception:
            self.p.kill()


def fresh_interpreter(ops, k):
    """operation k in a brand-new interpreter (no fork): cross-check that the fork server's children are pristine"""
    code = ("import sys, json; sys.path.insert(0, %r); sys.path.insert(0, %r); import c19ops; "
            "ops = json.loads(sys.stdin.read()); print(json.dumps(c19ops.run_fresh(ops, %d)))"
            % (os.path.dirname(ZYGOTE), os.path.join(REPO, "src"), k))
    env = dict(os.environ)
    env["PYTHONPATH"] = os.path.join(REPO, "src")
    p = subprocess.run([sys.executable, "-W", "ignore", "-c", code], input=json.dumps(ops), capture_output=True, text=True,
                       env=env, timeout=120)
    return json.loads(p.stdout.strip().split("\n")[-1])


# ------------------------------------------------------------------------------------------------ failures of a history

def failures(ops, ans):
    """-> list of failure records, in order of the operation index"""
    out = []
    if "error" in ans:
        return [{"check": "harness-error", "k": -1, "detail": ans["error"]}]
    live = ans["live"]
    for k, (o, l) in enumerate(zip(ops, live)):
        if l["status"] == "bad":
            continue
        ch_arg = [c for c in l["changed"] if c["role"] == "argument"]
        ch_oth = [c for c in l["changed"] if c["role"] == "other"]
        if ch_arg:
            out.append({"check": "arg-changed", "k": k, "slots": [c["slot"] for c in ch_arg],
                        "only_taproot_flag": all(c["only_taproot_flag"] for c in ch_arg + ch_oth), "changes": ch_arg[:3]})
        if ch_oth:
            out.append({"check": "other-changed", "k": k, "slots": [c["slot"] for c in ch_oth],
                        "only_taproot_flag": all(c["only_taproot_flag"] for c in ch_arg + ch_oth), "changes": ch_oth[:3]})
        f = ans["fresh"].get(str(k))
        if f is not None:
            if (l["status"], l["result"], l["target"]) != (f["status"], f["result"], f["target"]):
                out.append({"check": "fresh-differs", "k": k,
                            "live": {"status": l["status"], "result": l["result"], "target": l["target"]}, "fresh": f})
    if ans.get("defaults"):
        out.append({"check": "defaults-changed", "k": len(ops) - 1, "objects": ans["defaults"]})
    out.sort(key=lambda r: r["k"])
    return out


def same_failure(a, b_op, b):
    return b["check"] == a["check"]


def shrink(zyg, ops, fail, budget=80):
    """drop operations while the same kind of failure persists at the (same) last operation"""
    k = fail["k"]
    cur = ops[:k + 1]
    target = ops[k]
    used = 0

    def still(cand):
        nonlocal used
        used += 1
        ans = zyg.eval(cand, fresh=[len(cand) - 1])
        for f in failures(cand, ans):
            if f["check"] == fail["check"] and (f["k"] == len(cand) - 1 or fail["check"] == "defaults-changed"):
                return f
        return None
    # the offending call is the last one — except for a changed default object, which any call may have caused
    i = len(cur) - (1 if fail["check"] == "defaults-changed" else 2)
    best = fail
    while i >= 0 and used < budget:
        cand = cur[:i] + cur[i + 1:]
        f = still(cand) if cand else None
        if f is not None:
            cur = cand
            best = f
        i -= 1
    return cur, best


# ------------------------------------------------------------------------------------------------ history generator

class Gen:
    GENERIC = []       # targets of the unsafe shared-state sites of this run (empty on a tree without such sites)

    def __init__(self, rng):
        self.r = rng
        self.ops = []
        self.pool = {}     # slot -> info dict {type, ...}
        self.n = 0
        self.retired = set()

    def new(self, typ, **info):
        self.n += 1
        s = "%s%d" % (typ, self.n)
        info["type"] = typ
        self.pool[s] = info
        return s

    def slots(self, *types, pred=None):
        return [s for s, i in self.pool.items() if i["type"] in types and s not in self.retired and (pred is None or pred(i))]

    def hexs(self, n):
        return bytes(self.r.randrange(256) for _ in range(n)).hex()

    def add(self, o):
        self.ops.append(o)

    # --- constructions
    def c_tx_default(self):
        self.add({"op": "tx_default", "dst": self.new("tx", nin=0, nout=0, default=True)})

    def c_tx_new(self):
        nin, nout = self.r.randrange(0, 4), self.r.randrange(0, 4)
        self.add({"op": "tx_new", "dst": self.new("tx", nin=nin, nout=nout), "version": self.r.choice([1, 2]),
                  "vin": [self.r.randrange(50) for _ in range(nin)], "vout": [self.r.randrange(50) for _ in range(nout)],
                  "locktime": self.r.choice([0, 0, 500000])})

    def c_witness_default(self):
        self.add({"op": "witness_default", "dst": self.new("wit")})

    def c_witness_new(self):
        self.add({"op": "witness_new", "dst": self.new("wit"), "items": [self.hexs(self.r.randrange(0, 5)) for _ in range(self.r.randrange(0, 3))]})

    def c_scope_default(self):
        kind = self.r.choice(["base", "in", "in", "out", "out", "lin", "lout"])
        self.add({"op": "scope_default", "dst": self.new("scope", kind=kind), "kind": kind})

    def c_psbt_default(self):
        self.add({"op": "psbt_default", "dst": self.new("psbt", nin=0, nout=0, signable=False)})

    def c_ad_default(self):
        self.add({"op": "ad_default", "dst": self.new("ad")})

    def c_bytearray(self):
        n = self.r.choice([16, 16, 20, 24, 32, 32, 5])
        self.add({"op": "bytearray_new", "dst": self.new("ba"), "hex": self.hexs(n)})

    def c_hd(self):
        seed = self.r.randrange(4)
        self.add({"op": "hd_new", "dst": self.new("hd", seed=seed, private=True), "seed": seed})

    def c_key(self):
        kind = self.r.choice(["pub", "pub", "xpub", "xprv"])
        self.add({"op": "key_new", "dst": self.new("key", flag=False, root=True), "seed": self.r.randrange(4), "kind": kind})

    def c_desc(self):
        self.add({"op": "desc_parse", "dst": self.new("desc"), "which": self.r.randrange(len(c19ops.DESCRIPTORS)),
                  "seed": self.r.randrange(4)})

    def c_psbt_build(self):
        kinds = [self.r.choice(["wpkh", "tr", "pkh", "wpkh", "tr"]) for _ in range(self.r.randrange(1, 4))]
        seed = self.r.randrange(4)
        self.add({"op": "psbt_build", "dst": self.new("psbt", nin=len(kinds), nout=2, signable=True, seed=seed, kinds=kinds),
                  "seed": seed, "kinds": kinds})

    # --- from the pool
    def f_psbt_from_tx(self):
        c = self.slots("tx")
        if not c:
            return self.c_tx_default()
        s = self.r.choice(c)
        i = self.pool[s]
        self.add({"op": "psbt_from_tx", "src": s, "dst": self.new("psbt", nin=i["nin"], nout=i["nout"], signable=False, fromtx=True)})

    def f_reparse(self):
        c = self.slots("tx", "psbt")
        if not c:
            return
        s = self.r.choice(c)
        i = dict(self.pool[s])
        t = i.pop("type")
        i.pop("default", None)
        self.add({"op": "reparse", "src": s, "dst": self.new(t, **i)})

    def f_psbt_tx(self):
        c = self.slots("psbt")
        if not c:
            return
        s = self.r.choice(c)
        self.add({"op": "psbt_tx", "src": s, "dst": self.new("tx", nin=self.pool[s]["nin"], nout=self.pool[s]["nout"])})

    def f_view(self):
        c = self.slots("psbt", pred=lambda i: i["nin"] > 0)
        if not c:
            return
        s = self.r.choice(c)
        self.add({"op": "view_of", "src": s, "dst": self.new("view", nin=self.pool[s]["nin"], nout=self.pool[s]["nout"],
                                                                 signable=self.pool[s].get("signable", False))})

    def f_desc_from_key(self):
        c = self.slots("key", pred=lambda i: i.get("root"))
        if not c:
            return self.c_key()
        s = self.r.choice(c)
        # the same Key object goes into descriptors of either kind and stays in use (before the repair of D31 the
        # constructor rewrote `taproot` on it, and the key and everything built from it were retired here)
        kind = self.r.choice(["tr", "wpkh", "pkh", "wpkh"])
        self.add({"op": "desc_from_key", "key": s, "kind": kind, "dst": self.new("desc", key=s)})

    def f_taptree_from_key(self):
        c = self.slots("key", pred=lambda i: i.get("root"))
        if not c:
            return
        s = self.r.choice(c)
        self.add({"op": "taptree_from_key", "key": s, "dst": self.new("tree", key=s)})

    def f_hd_derive(self):
        c = self.slots("hd")
        if not c:
            return self.c_hd()
        s = self.r.choice(c)
        priv = self.pool[s]["private"]
        path = [self.r.choice([0, 1, 2, 44]) + (0x80000000 if (priv and self.r.random() < 0.4) else 0)
                for _ in range(self.r.randrange(0, 4))]
        self.add({"op": "hd_derive", "src": s, "dst": self.new("hd", private=priv), "path": path})

    def f_hd_to_public(self):
        c = self.slots("hd")
        if not c:
            return
        s = self.r.choice(c)
        self.add({"op": "hd_to_public", "src": s, "dst": self.new("hd", private=False)})

    def f_hd_tweak(self):
        c = self.slots("hd")
        if not c:
            return
        s = self.r.choice(c)
        self.add({"op": "hd_taproot_tweak", "src": s, "dst": self.new("hd", private=self.pool[s]["private"]),
                  "h": self.r.choice(["", self.hexs(32)])})

    def f_desc_derive(self):
        c = self.slots("desc", "key")
        if not c:
            return self.c_desc()
        s = self.r.choice(c)
        info = {k: v for k, v in self.pool[s].items() if k in ("key", "flag")}
        which = self.r.choice(["desc_derive", "desc_derive", "desc_branch", "desc_to_public"])
        o = {"op": which, "src": s, "dst": self.new(self.pool[s]["type"], **info)}
        if which == "desc_derive":
            o["idx"] = self.r.randrange(0, 5)
            o["branch"] = self.r.choice([None, 0, 1])
        elif which == "desc_branch":
            o["branch"] = self.r.choice([0, 1])
        if self.pool[s]["type"] == "key":
            # derived keys may be the source itself (nothing to derive): they belong to the same family
            self.pool[o["dst"]]["key"] = self.pool[s].get("key", s)
            self.pool[o["dst"]]["root"] = False
        self.add(o)

    def f_ad_branch(self):
        c = self.slots("ad")
        if not c:
            return
        self.add({"op": "ad_branch", "src": self.r.choice(c), "dst": self.new("ad"), "branch": self.r.choice([0, 1])})

    # --- mutations
    def m_tx(self):
        c = self.slots("tx")
        if not c:
            return self.c_tx_default()
        s = self.r.choice(c)
        w = self.r.choice(["tx_append_vin", "tx_append_vin", "tx_append_vout", "tx_set_locktime"])
        o = {"op": w, "obj": s}
        if w == "tx_set_locktime":
            o["locktime"] = self.r.randrange(1, 1000)
        else:
            o["seed"] = self.r.randrange(50)
            self.pool[s]["nin" if w == "tx_append_vin" else "nout"] += 1
        self.add(o)

    def m_unknown(self):
        c = self.slots("scope", "psbt")
        if not c:
            return self.c_scope_default()
        s = self.r.choice(c)
        o = {"op": "unknown_set", "obj": s, "key": "fc" + self.hexs(1) + self.r.choice(["", "01"]), "value": self.hexs(self.r.randrange(0, 4))}
        i = self.pool[s]
        if i["type"] == "psbt" and self.r.random() < 0.6 and (i["nin"] or i["nout"]):
            if i["nin"] and (not i["nout"] or self.r.random() < 0.5):
                o["scope"] = ["in", self.r.randrange(i["nin"])]
            else:
                o["scope"] = ["out", self.r.randrange(i["nout"])]
        self.add(o)

    def m_witness(self):
        c = self.slots("wit")
        if not c:
            return self.c_witness_default()
        self.add({"op": "witness_append", "obj": self.r.choice(c), "item": self.hexs(self.r.randrange(1, 5))})

    def m_ad(self):
        c = self.slots("ad")
        if not c:
            return self.c_ad_default()
        self.add({"op": "ad_append", "obj": self.r.choice(c), "v": self.r.randrange(2, 9)})

    def m_bytearray(self):
        c = self.slots("ba")
        if not c:
            return
        self.add({"op": "bytearray_append", "obj": self.r.choice(c), "hex": self.hexs(4)})

    def m_sign(self):
        c = self.slots("psbt", pred=lambda i: i.get("signable"))
        if not c:
            return self.c_psbt_build()
        s = self.r.choice(c)
        keys = self.slots("hd", pred=lambda i: i.get("seed") is not None) + self.slots("desc")
        if not keys:
            return self.c_hd()
        self.add({"op": "psbt_sign", "obj": s, "key": self.r.choice(keys)})

    # --- queries
    def q_serialize(self):
        c = self.slots("tx", "psbt", "scope", "wit", "hd", "desc", "key", "ad", "ba", "view", "tree", "nat", "gen", "res")
        if c:
            self.add({"op": "serialize", "obj": self.r.choice(c)})

    def q_sighash(self):
        c = self.slots("tx", "view", "psbt", pred=lambda i: i["nin"] > 0)
        if not c:
            return self.c_tx_new()
        s = self.r.choice(c)
        # often the object of the previous digest again, with other arguments
        last = [o["obj"] for o in self.ops if o["op"].startswith("sighash_") and o["obj"] in c]
        if last and self.r.random() < 0.5:
            s = last[-1]
        n = self.pool[s]["nin"]
        kind = self.r.choice(["sighash_taproot"] * 4 + ["sighash_segwit"] * 2 + ["sighash_legacy"])
        idx = self.r.randrange(n) if self.r.random() < 0.9 else n
        if kind == "sighash_taproot":
            flag = self.r.choice([0, 0, 1, 2, 3, 0x81, 0x83])
            o = {"op": kind, "obj": s, "idx": idx, "flag": flag,
                 "spks": [self.r.randrange(6) for _ in range(n)],
                 "values": [self.r.choice([1000, 2000, 3000, 50000]) + self.r.randrange(3) for _ in range(n)]}
            if last and last[-1] == s and self.r.random() < 0.6:
                # the caller edits its own argument lists in place and passes the same objects again
                o["reuse"] = self.r.choice([True, True, "script", "bytes", "bytes"])
            if self.r.random() < 0.5:
                o["ba"] = True      # scripts backed by caller-owned bytearrays ("reuse": "bytes" edits them in place)
        elif kind == "sighash_segwit":
            o = {"op": kind, "obj": s, "idx": idx, "flag": self.r.choice([1, 2, 3, 0x81]), "spk": self.r.randrange(6),
                 "value": self.r.choice([1000, 2000, 70000])}
        else:
            o = {"op": kind, "obj": s, "idx": idx, "flag": self.r.choice([1, 2, 3, 0x81]), "spk": self.r.randrange(6)}
        self.add(o)

    def q_psbt_sighash(self):
        c = self.slots("psbt", "view", pred=lambda i: i.get("signable"))
        if not c:
            return
        s = self.r.choice(c)
        self.add({"op": "psbt_sighash", "obj": s, "idx": self.r.randrange(self.pool[s]["nin"]), "flag": self.r.choice([0, 1, 1, 3])})

    def q_fee(self):
        c = self.slots("psbt", pred=lambda i: i.get("signable"))
        if c:
            self.add({"op": "psbt_fee", "obj": self.r.choice(c)})

    def q_mnemonic(self):
        c = self.slots("ba")
        if not c or self.r.random() < 0.25:
            return self.add({"op": "mnemonic_from_literal", "hex": self.hexs(self.r.choice([16, 32]))})
        self.add({"op": "mnemonic_from_bytes", "obj": self.r.choice(c)})

    def q_hd(self):
        c = self.slots("hd")
        if not c:
            return
        s = self.r.choice(c)
        if self.pool[s]["private"] and self.r.random() < 0.5:
            self.add({"op": "hd_sign", "obj": s, "msg": self.hexs(32)})
        else:
            self.add({"op": "hd_info", "obj": s})

    def q_desc(self):
        c = self.slots("desc")
        if not c:
            return
        s = self.r.choice(c)
        p = self.slots("psbt", pred=lambda i: i.get("signable"))
        if p and self.r.random() < 0.3:
            self.add({"op": "desc_owns", "obj": s, "psbt": self.r.choice(p)})
        else:
            self.add({"op": "desc_info", "obj": s, "idx": self.r.randrange(5)})

    def q_txid(self):
        c = self.slots("tx")
        if c:
            self.add({"op": "tx_txid", "obj": self.r.choice(c)})

    def q_native(self):
        o = {"op": "native", "fn": self.r.choice(["recoverable", "recoverable", "ecdsa", "pubkey", "schnorr", "xonly", "tweak"]),
             "key": self.r.randrange(1, 6), "msg": self.r.randrange(1, 6)}
        if self.r.random() < 0.5:
            # the caller keeps what the binding handed back: a later native call must not change it
            o["dst"] = self.new("nat")
        self.add(o)

    # --- generic operations on what the unsafe shared-state sites point at (none on a tree without such sites)
    def g_generic(self):
        t = self.r.choice(self.GENERIC)
        k = t["kind"].split()[0]
        if k == ".sharedIntoAttr" and t.get("cls"):
            have = self.slots("gen", pred=lambda i: i.get("cls") == t["cls"])
            if have and self.r.random() < 0.5:
                self.add({"op": "g_mutate", "obj": self.r.choice(have), "attr": t["attr"]})
            else:
                self.add({"op": "g_new", "cls": t["cls"], "dst": self.new("gen", cls=t["cls"])})
        elif k == ".memoOther" and t.get("variants"):
            have = self.slots("gen", pred=lambda i: i.get("cls") == t["cls"])
            if have:
                self.add({"op": "g_mcall", "obj": self.r.choice(have), "fn": t["fn"], "variant": self.r.choice(t["variants"])})
            else:
                self.add({"op": "g_new", "cls": t["cls"], "dst": self.new("gen", cls=t["cls"])})
        elif t.get("fn") and t.get("variant") is not None:
            res = self.slots("res", pred=lambda i: i.get("fn") == t["fn"])
            calls = [(t["fn"], t["variant"])] + [tuple(x) for x in (t.get("readers") or [])]
            if res and self.r.random() < 0.35:
                self.add({"op": "g_touch", "obj": self.r.choice(res)})
            else:
                fn, v = self.r.choice(calls)
                self.add({"op": "g_call", "fn": fn, "variant": v, "dst": self.new("res", fn=fn)})

    TABLE = [
        ("c_tx_default", 4), ("c_tx_new", 3), ("c_witness_default", 2), ("c_witness_new", 1), ("c_scope_default", 4),
        ("c_psbt_default", 1), ("c_ad_default", 2), ("c_bytearray", 2), ("c_hd", 2), ("c_key", 2), ("c_desc", 2),
        ("c_psbt_build", 2),
        ("f_psbt_from_tx", 4), ("f_reparse", 1), ("f_psbt_tx", 1), ("f_view", 2), ("f_desc_from_key", 2),
        ("f_taptree_from_key", 1), ("f_hd_derive", 2), ("f_hd_to_public", 1), ("f_hd_tweak", 1), ("f_desc_derive", 3),
        ("f_ad_branch", 1),
        ("m_tx", 4), ("m_unknown", 5), ("m_witness", 2), ("m_ad", 2), ("m_bytearray", 1), ("m_sign", 2),
        ("q_serialize", 3), ("q_sighash", 6), ("q_psbt_sighash", 2), ("q_fee", 1), ("q_mnemonic", 3), ("q_hd", 1),
        ("q_desc", 2), ("q_txid", 1), ("q_native", 3),
    ]

    def history(self, n):
        names = [a for a, _ in self.TABLE]
        table = self.TABLE + ([("g_generic", 25)] if self.GENERIC else [])
        names = [a for a, _ in table]
        while len(self.ops) < n:
            # a pool first, then mostly derivations, mutations and queries
            full = len(self.pool) >= 6
            weights = [(b * 0.25 if (full and a.startswith("c_")) else b) for a, b in table]
            getattr(self, self.r.choices(names, weights)[0])()
        return self.ops


def directed():
    """the recorded witnesses (DESIGN §6 D27-D32 and what the translator found) as histories; run first"""
    return [
        ("D27 Transaction() twice", [
            {"op": "tx_default", "dst": "a"}, {"op": "tx_append_vin", "obj": "a", "seed": 1},
            {"op": "tx_default", "dst": "b"}, {"op": "serialize", "obj": "b"}]),
        ("D27 Transaction() mutate shows in the other", [
            {"op": "tx_default", "dst": "a"}, {"op": "tx_default", "dst": "b"}, {"op": "tx_append_vout", "obj": "a", "seed": 2}]),
        ("D28 scope unknown then InputScope()", [
            {"op": "scope_default", "dst": "s", "kind": "in"}, {"op": "unknown_set", "obj": "s", "key": "fc01", "value": "aa"},
            {"op": "scope_default", "dst": "t", "kind": "in"}]),
        ("D28 scope unknown then PSBT(tx)", [
            {"op": "tx_new", "dst": "t", "version": 2, "vin": [1], "vout": [2], "locktime": 0},
            {"op": "scope_default", "dst": "s", "kind": "out"}, {"op": "unknown_set", "obj": "s", "key": "fc01", "value": "aa"},
            {"op": "psbt_from_tx", "src": "t", "dst": "p"}]),
        ("D28 PSBT(tx) twice from the same transaction", [
            {"op": "tx_new", "dst": "t", "version": 2, "vin": [1, 2], "vout": [2], "locktime": 0},
            {"op": "psbt_from_tx", "src": "t", "dst": "p"},
            {"op": "unknown_set", "obj": "p", "key": "fc02", "value": "bb"},
            {"op": "unknown_set", "obj": "p", "key": "fc03", "value": "cc", "scope": ["in", 1]},
            {"op": "psbt_from_tx", "src": "t", "dst": "q"}, {"op": "serialize", "obj": "q"}]),
        ("D28 liquid scopes", [
            {"op": "scope_default", "dst": "s", "kind": "lin"}, {"op": "unknown_set", "obj": "s", "key": "fc09", "value": "aa"},
            {"op": "scope_default", "dst": "t", "kind": "lout"}, {"op": "scope_default", "dst": "u", "kind": "lin"}]),
        ("D29 sighash_taproot twice with other values (Transaction)", [
            {"op": "tx_new", "dst": "t", "version": 2, "vin": [1, 2], "vout": [3], "locktime": 0},
            {"op": "sighash_taproot", "obj": "t", "idx": 0, "flag": 0, "spks": [1, 1], "values": [1000, 2000]},
            {"op": "sighash_taproot", "obj": "t", "idx": 0, "flag": 0, "spks": [1, 1], "values": [3000, 4000]},
            {"op": "sighash_taproot", "obj": "t", "idx": 1, "flag": 1, "spks": [1, 5], "values": [3000, 4000]}]),
        ("sighash_taproot twice with the caller's own lists edited in place (Transaction)", [
            {"op": "tx_new", "dst": "t", "version": 2, "vin": [1, 2], "vout": [3], "locktime": 0},
            {"op": "sighash_taproot", "obj": "t", "idx": 0, "flag": 0, "spks": [1, 1], "values": [1000, 2000]},
            {"op": "sighash_taproot", "obj": "t", "idx": 0, "flag": 0, "spks": [1, 1], "values": [1000, 45000], "reuse": True},
            {"op": "sighash_taproot", "obj": "t", "idx": 0, "flag": 0, "spks": [1, 5], "values": [1000, 45000], "reuse": True},
            {"op": "sighash_taproot", "obj": "t", "idx": 0, "flag": 0, "spks": [2, 5], "values": [1000, 45000], "reuse": "script"}]),
        ("sighash_taproot twice, the caller's scripts are bytearray-backed and their BYTES are edited in place (Transaction; audit2 B-7)", [
            {"op": "tx_new", "dst": "t", "version": 2, "vin": [1, 2], "vout": [3], "locktime": 0},
            {"op": "sighash_taproot", "obj": "t", "idx": 0, "flag": 0, "spks": [1, 1], "values": [1000, 2000], "ba": True},
            {"op": "sighash_taproot", "obj": "t", "idx": 0, "flag": 0, "spks": [1, 5], "values": [1000, 2000], "ba": True, "reuse": "bytes"},
            {"op": "sighash_taproot", "obj": "t", "idx": 1, "flag": 1, "spks": [9, 5], "values": [1000, 2000], "ba": True, "reuse": "bytes"},
            {"op": "sighash_taproot", "obj": "t", "idx": 1, "flag": 1, "spks": [9, 2], "values": [1000, 2000], "ba": True, "reuse": "bytes"}]),
        ("the same on a PSBTView (audit2 B-7)", [
            {"op": "psbt_build", "dst": "p", "seed": 1, "kinds": ["tr", "wpkh"]}, {"op": "view_of", "src": "p", "dst": "v"},
            {"op": "sighash_taproot", "obj": "v", "idx": 0, "flag": 0, "spks": [1, 1], "values": [1000, 2000], "ba": True},
            {"op": "sighash_taproot", "obj": "v", "idx": 0, "flag": 0, "spks": [1, 5], "values": [1000, 2000], "ba": True, "reuse": "bytes"},
            {"op": "sighash_taproot", "obj": "v", "idx": 1, "flag": 1, "spks": [9, 5], "values": [1000, 2000], "ba": True, "reuse": "bytes"}]),
        ("binding calls with out-buffers, then unrelated serialisations", [
            {"op": "native", "fn": "recoverable", "key": 1, "msg": 1}, {"op": "native", "fn": "recoverable", "key": 3, "msg": 3},
            {"op": "native", "fn": "recoverable", "key": 1, "msg": 1},
            {"op": "tx_default", "dst": "a"}, {"op": "serialize", "obj": "a"},
            {"op": "witness_default", "dst": "w"}, {"op": "serialize", "obj": "w"},
            {"op": "native", "fn": "xonly", "key": 2, "msg": 1}, {"op": "native", "fn": "pubkey", "key": 2, "msg": 1},
            {"op": "serialize", "obj": "a"}]),
        ("the caller keeps what the binding handed back; later binding calls must not change it", [
            {"op": "native", "fn": "recoverable", "key": 1, "msg": 1, "dst": "n1"},
            {"op": "native", "fn": "recoverable", "key": 3, "msg": 3, "dst": "n2"},
            {"op": "native", "fn": "pubkey", "key": 1, "msg": 1, "dst": "n3"}, {"op": "native", "fn": "pubkey", "key": 2, "msg": 1, "dst": "n4"},
            {"op": "native", "fn": "ecdsa", "key": 1, "msg": 1, "dst": "n5"}, {"op": "native", "fn": "ecdsa", "key": 2, "msg": 2, "dst": "n6"},
            {"op": "native", "fn": "xonly", "key": 1, "msg": 1, "dst": "n7"}, {"op": "native", "fn": "xonly", "key": 2, "msg": 1, "dst": "n8"},
            {"op": "native", "fn": "schnorr", "key": 1, "msg": 1, "dst": "n9"}, {"op": "native", "fn": "schnorr", "key": 2, "msg": 2, "dst": "n10"},
            {"op": "serialize", "obj": "n1"}, {"op": "serialize", "obj": "n3"}, {"op": "serialize", "obj": "n7"}]),
        ("D29 sighash_taproot twice with other values (PSBTView)", [
            {"op": "psbt_build", "dst": "p", "seed": 1, "kinds": ["tr", "wpkh"]}, {"op": "view_of", "src": "p", "dst": "v"},
            {"op": "sighash_taproot", "obj": "v", "idx": 0, "flag": 0, "spks": [1, 1], "values": [1000, 2000]},
            {"op": "sighash_taproot", "obj": "v", "idx": 0, "flag": 0, "spks": [1, 1], "values": [3000, 4000]},
            {"op": "sighash_taproot", "obj": "v", "idx": 0, "flag": 0, "spks": [5, 1], "values": [3000, 4000]}]),
        ("D30 mnemonic_from_bytes(bytearray)", [
            {"op": "bytearray_new", "dst": "e", "hex": "01" * 16}, {"op": "mnemonic_from_bytes", "obj": "e"},
            {"op": "mnemonic_from_bytes", "obj": "e"}]),
        ("D27 AllowedDerivation()", [
            {"op": "ad_default", "dst": "a"}, {"op": "ad_append", "obj": "a", "v": 2}, {"op": "ad_default", "dst": "b"},
            {"op": "serialize", "obj": "b"}]),
        ("Witness() twice", [
            {"op": "witness_default", "dst": "a"}, {"op": "witness_append", "obj": "a", "item": "aa"},
            {"op": "witness_default", "dst": "b"}, {"op": "serialize", "obj": "b"}]),
        ("sign, derive, neuter leave their sources unchanged", [
            {"op": "psbt_build", "dst": "p", "seed": 2, "kinds": ["wpkh", "tr", "pkh"]}, {"op": "hd_new", "dst": "k", "seed": 2},
            {"op": "hd_derive", "src": "k", "dst": "c", "path": [0x80000054, 0x80000000, 0x80000000]},
            {"op": "hd_to_public", "src": "c", "dst": "x"}, {"op": "psbt_sighash", "obj": "p", "idx": 1, "flag": 0},
            {"op": "psbt_sign", "obj": "p", "key": "k"}, {"op": "reparse", "src": "p", "dst": "q"},
            {"op": "psbt_sign", "obj": "q", "key": "k"}, {"op": "psbt_sighash", "obj": "p", "idx": 0, "flag": 1},
            {"op": "desc_parse", "dst": "d", "which": 0, "seed": 2}, {"op": "desc_owns", "obj": "d", "psbt": "p"},
            {"op": "desc_derive", "src": "d", "dst": "d3", "idx": 3, "branch": 1}, {"op": "desc_to_public", "src": "d", "dst": "dp"},
            {"op": "desc_info", "obj": "d", "idx": 3}]),
        # D31 (repaired by fixes/d31.diff): the constructors assigned `taproot` on the caller's Key objects. These
        # histories failed on the defective code (argument changed / d1 changed by building d2 / d1.script_pubkey() raised)
        ("D31 Descriptor(key=k) twice with different taproot flags", [
            {"op": "key_new", "dst": "k", "seed": 1, "kind": "pub"}, {"op": "desc_from_key", "key": "k", "kind": "tr", "dst": "d1"},
            {"op": "desc_info", "obj": "d1", "idx": 0},
            {"op": "desc_from_key", "key": "k", "kind": "wpkh", "dst": "d2"}, {"op": "desc_info", "obj": "d1", "idx": 0},
            {"op": "desc_info", "obj": "d2", "idx": 0}, {"op": "desc_from_key", "key": "k", "kind": "pkh", "dst": "d3"},
            {"op": "desc_from_key", "key": "k", "kind": "tr", "dst": "d4"}, {"op": "desc_info", "obj": "d3", "idx": 0},
            {"op": "desc_info", "obj": "d4", "idx": 0}, {"op": "desc_info", "obj": "d1", "idx": 0}]),
        ("D31 TapTree(leaf) leaves k as it is", [
            {"op": "key_new", "dst": "k", "seed": 1, "kind": "pub"}, {"op": "taptree_from_key", "key": "k", "dst": "t"},
            {"op": "desc_from_key", "key": "k", "kind": "wpkh", "dst": "d"}, {"op": "desc_info", "obj": "d", "idx": 0},
            {"op": "taptree_from_key", "key": "k", "dst": "t2"}, {"op": "desc_info", "obj": "d", "idx": 0}]),
    ]


# ------------------------------------------------------------------------------------------------ facts

def lean_list(name):
    """the string list `name` of Props/C19.lean (so that Python and Lean cannot disagree about the exclusions)"""
    src = open(module_path(MODS[1])).read()
    m = re.search(r"def %s : List String := \[" % name, src)
    if not m:
        return []
    out, i = [], m.end()
    while i < len(src):
        ch = src[i]
        if ch == '"':
            j = src.index('"', i + 1)
            out.append(src[i + 1:j])
            i = j + 1
        elif ch == "]":
            break
        else:
            i += 1
    return out


def _records(defname):
    p = os.path.join(facts.GEN_DIR, "AliasFacts.lean")
    src = open(p).read()
    m = re.search(r"def %s : [^\n]* := \[(.*?)\n\]" % defname, src, re.S)
    if not m:
        return []
    return re.findall(r'\{ name := "([^"]*)", kind := ([^,]*), probe := \.(\w+),\s*evidence := "([^"]*)" \}', m.group(1))


def parse_sites():
    """(name, kind text, probe, evidence) of `sites` in Generated/AliasFacts.lean"""
    return _records("sites")


def parse_shared_sites():
    """(name, kind text, probe, evidence) of `sharedSites` (module- and class-level state, harness/sharedstate.py)"""
    return _records("sharedSites")


def site_kind_token(sites, names, dflt="ng"):
    for n in names:
        for (name, kind, probe, ev) in sites:
            if name == n and kind.startswith(".ctorParam"):
                return {"storesDefault": "sd", "copies": "cp", "noneGuard": "ng"}[kind.split(".")[-1].strip()]
    return dflt


def memo_token(sites, name):
    for (n, kind, probe, ev) in sites:
        if n == name:
            if kind.startswith(".memoKeyed"):
                return "a"
            if kind.startswith(".memo true"):
                return "n"
            return "u"
    return "u"   # no memo field at all: computed every time


def check_sites(c, witnesses):
    """every generated site that Lean evaluates as unsafe and that is not a contract mutator is an undischarged
    obligation; when a probe reproduced it on the real code it is a failing input of the property"""
    contract = set(lean_list("contractMutators"))
    sites = parse_sites()
    by_name = {s[0]: s for s in sites}
    c.extra["alias_sites"] = len(sites)
    c.extra["alias_sites_by_kind"] = {}
    for s in sites:
        k = s[1].split()[0]
        c.extra["alias_sites_by_kind"][k] = c.extra["alias_sites_by_kind"].get(k, 0) + 1
    try:
        ans = run_driver(["alias.unsafe", "alias.sites"])
    except Exception as e:
        c.broken.append(("driver", "alias.unsafe: %s" % e))
        return
    if ans[1] != "ok %d" % len(sites):
        c.broken.append(("facts", "the driver was built from other facts (%s) than Generated/AliasFacts.lean (%d sites)" % (ans[1], len(sites))))
    toks = ans[0].split()[1:]
    unsafe = [] if toks == ["-"] else [bytes.fromhex(t).decode() for t in toks]
    c.extra["contract_mutators_present"] = sorted(n for n in unsafe if n in contract)
    for n in unsafe:
        if n in contract:
            continue
        name, kind, probe, ev = by_name.get(n, (n, "?", "?", ""))
        rec = {"op": "site", "site": n, "kind": kind, "probe": probe, "evidence": ev,
               "witness": ev.split("; ", 1)[-1] if probe == "confirmedUnsafe" else None}
        c.count(("site", n), nontrivial=True)
        if probe == "confirmedUnsafe" or c.classify(rec):
            c.fail("unsafe site %s (%s): %s" % (n, kind, ev[:300]), rec)
        else:
            c.broken.append(("facts", "site %s is %s / %s and no probe reproduces it: %s" % (n, kind, probe, ev[:300])))
    for n in contract:
        if n not in by_name:
            c.tally("contract-mutator-absent:" + n)


def check_shared_sites(c):
    """the shared-state sites (module- / class-level objects, flows, writes, `global`, memo shapes, cache decorators,
    native aliases): Lean evaluates which are unsafe; a site whose probe reproduced the hazard on the real code is a
    failing input (its witness is the probe's concrete history), any other unsafe site is an undischarged obligation"""
    sites = parse_shared_sites()
    by_name = {s[0]: s for s in sites}
    c.extra["shared_sites"] = len(sites)
    c.extra["shared_sites_by_kind"] = {}
    for s in sites:
        k = s[1].split()[0]
        c.extra["shared_sites_by_kind"][k] = c.extra["shared_sites_by_kind"].get(k, 0) + 1
    try:
        ans = run_driver(["shared.unsafe", "shared.sites"])
    except Exception as e:
        c.broken.append(("driver", "shared.unsafe: %s" % e))
        return []
    if ans[1] != "ok %d" % len(sites):
        c.broken.append(("facts", "the driver was built from other facts (%s) than Generated/AliasFacts.lean (%d shared sites)" % (ans[1], len(sites))))
    toks = ans[0].split()[1:]
    unsafe = [] if toks == ["-"] else [bytes.fromhex(t).decode() for t in toks]
    for n in unsafe:
        name, kind, probe, ev = by_name.get(n, (n, "?", "?", ""))
        c.count(("shared-site", n), nontrivial=True)
        # not yet a violation: the concrete HISTORY is what the directed / random histories below have to produce; a site
        # no history reproduces ends as `no-failing-input-found` with the probe's witness in the broken list
        c.broken.append(("facts", "shared-state site %s is %s / %s: %s" % (n, kind, probe, ev[:400])))
    return unsafe


def generic_targets(unsafe_names):
    """targets (class + attribute, function + argument variant) of the UNSAFE shared-state sites, from the translator's
    JSON of this run: what the generic operations `g_*` of the history language work on"""
    try:
        import aliasfacts
        d = aliasfacts.LAST_SHARED or {"sites": []}
    except Exception:
        return []
    out = []
    for s in d["sites"]:
        if s["name"] in unsafe_names and s.get("target"):
            t = dict(s["target"])
            t["site"] = s["name"]
            t["kind"] = s["kind"]
            out.append(t)
    return out


def directed_generic(targets):
    """the concrete histories the unsafe shared-state sites predict"""
    out = []
    for t in targets:
        k = t["kind"].split()[0]
        if k == ".sharedIntoAttr" and t.get("cls"):
            out.append(("%s: mutate through one instance, build another" % t["site"], [
                {"op": "g_new", "cls": t["cls"], "dst": "a"}, {"op": "g_mutate", "obj": "a", "attr": t["attr"]},
                {"op": "g_new", "cls": t["cls"], "dst": "b"}, {"op": "serialize", "obj": "b"}]))
            out.append(("%s: two instances, mutate one" % t["site"], [
                {"op": "g_new", "cls": t["cls"], "dst": "a"}, {"op": "g_new", "cls": t["cls"], "dst": "b"},
                {"op": "g_mutate", "obj": "a", "attr": t["attr"]}]))
        elif k in (".sharedIntoAttr", ".cacheDecorator", ".moduleMemo") and t.get("fn") and t.get("variant") is not None:
            call = {"op": "g_call", "fn": t["fn"], "variant": t["variant"]}
            out.append(("%s: the first caller edits what it got, the second caller calls again" % t["site"], [
                dict(call, dst="x"), {"op": "g_touch", "obj": "x"}, dict(call, dst="y")]))
            out.append(("%s: two callers, one edits" % t["site"], [
                dict(call, dst="x"), dict(call, dst="y"), {"op": "g_touch", "obj": "x"}]))
        elif k in (".sharedWrite", ".globalRebind") and t.get("fn") and t.get("variant") is not None:
            w = {"op": "g_call", "fn": t["fn"], "variant": t["variant"]}
            for (rp, rv) in t.get("readers") or []:
                r = {"op": "g_call", "fn": rp, "variant": rv}
                out.append(("%s: read, write, read" % t["site"], [dict(r), dict(w), dict(r)]))
            out.append(("%s: called twice" % t["site"], [dict(w), dict(w)]))
        elif k == ".memoOther" and t.get("fn") and t.get("variants"):
            vs = t["variants"]
            out.append(("%s: the same receiver asked twice with other arguments" % t["site"], [
                {"op": "g_new", "cls": t["cls"], "dst": "r"},
                {"op": "g_mcall", "obj": "r", "fn": t["fn"], "variant": vs[0]},
                {"op": "g_mcall", "obj": "r", "fn": t["fn"], "variant": vs[-1]}]))
    return out


# ------------------------------------------------------------------------------------------------ model correspondence

class Abstraction:
    """the part of a history the heap model speaks about, as a `heap.trace` request, and the same pattern observed
    on the real code"""
    # ids of the default objects: Transaction vin 0 / vout 1, Witness items 2, scope unknown dicts 3-7, PSBT unknown 8,
    # AllowedDerivation indexes 9 (every `def` has its own default object; subclasses forwarding their own `{}` too)
    DFLT = {"base": 3, "in": 4, "out": 5, "lin": 6, "lout": 7}

    def __init__(self, sites):
        self.sites = sites
        K = lambda *names: site_kind_token(sites, names)
        self.k_vin = K("transaction.Transaction.__init__(vin)")
        self.k_vout = K("transaction.Transaction.__init__(vout)")
        self.k_items = site_kind_token(sites, ["script.Witness.__init__(items)"], "cp")
        self.k_scope = {"base": K("psbt.PSBTScope.__init__(unknown)"), "in": K("psbt.InputScope.__init__(unknown)"),
                        "out": K("psbt.OutputScope.__init__(unknown)"),
                        "lin": K("liquid.pset.LInputScope.__init__(unknown)", "psbt.InputScope.__init__(unknown)"),
                        "lout": K("liquid.pset.LOutputScope.__init__(unknown)", "psbt.OutputScope.__init__(unknown)")}
        self.k_psbt = K("psbt.PSBT.__init__(unknown)")
        self.k_ad = K("descriptor.arguments.AllowedDerivation.__init__(indexes)")
        mu = any(n in ("bip39.mnemonic_from_bytes(entropy)", "probe:bip39.mnemonic_from_bytes(bytearray)") and
                 (p == "confirmedUnsafe") for (n, k, p, e) in sites)
        # methods: 0 = Transaction digest memo, 1 = PSBTView digest memo, 2 = mnemonic_from_bytes
        self.methods = [(memo_token(sites, "transaction.Transaction.hash_amounts[_hash_amounts]"), 0),
                        (memo_token(sites, "psbtview.PSBTView.hash_amounts[_hash_amounts]"), 0), ("u", 1 if mu else 0)]

    def build(self, ops, live, fresh):
        classes = [([], 1)]            # class 0: the module (receiver of module-level functions), object 0
        mops = ["C 0 0"]
        expect = ["o-/a-/s0"]
        obj = {}                        # slot -> model object index
        shape = {}                      # slot -> (nin, nout) for PSBTs
        arg = {}                        # argument identity -> pool index
        argslot = {}                    # bytearray slot -> pool index
        nobj, narg = 1, 0
        txsize = {}
        noquery = set()
        isview = set()

        def cls(kinds):
            # kinds: [(kind token, id of the Python default object)]
            if kinds in [c[0] for c in classes]:
                return [c[0] for c in classes].index(kinds)
            classes.append((kinds, 1))
            return len(classes) - 1

        def pattern(k, target=None, args_changed=(), stale=False):
            l = live[k]
            ch = sorted({obj[c["slot"]] for c in l["changed"] if c["slot"] in obj} | ({obj[target]} if target in obj else set()))
            ac = sorted({argslot[c["slot"]] for c in l["changed"] if c["slot"] in argslot})
            return "o%s/a%s/s%d" % (".".join(map(str, ch)) or "-", ".".join(map(str, ac)) or "-", 1 if stale else 0)

        for k, o in enumerate(ops):
            l = live[k]
            n = o["op"]
            if l["status"] != "ok":
                if n == "sighash_taproot":
                    noquery.add(o["obj"])   # a digest call that raised may or may not have filled the memo slots
                # a call that raised (or could not be made) has no counterpart; the model side must not advance
                if n in ("tx_default", "witness_default", "scope_default", "psbt_default", "ad_default", "psbt_from_tx", "tx_new",
                         "witness_new"):
                    return None      # a constructor raised: the pool of the model would be out of step
                continue
            if n in ("psbt_sighash", "tx_set_locktime", "psbt_sign") and o.get("obj") is not None:
                # digests made on the object's own data / an invalidation without a container change: the memo slots of
                # the real object and of the model are no longer comparable
                noquery.add(o["obj"])
                continue
            lit = lambda xs: "L %d %s" % (len(xs), " ".join(str(1 + x) for x in xs)) if xs else "L 0"
            if n == "tx_default":
                obj[o["dst"]] = nobj; nobj += 1
                txsize[o["dst"]] = [0, 0]
                mops.append("C %d 2 D D" % cls([(self.k_vin, 0), (self.k_vout, 1)])); expect.append(pattern(k))
            elif n == "tx_new":
                obj[o["dst"]] = nobj; nobj += 1
                txsize[o["dst"]] = [len(o["vin"]), len(o["vout"])]
                mops.append("C %d 2 %s %s" % (cls([(self.k_vin, 0), (self.k_vout, 1)]), lit(o["vin"]), lit(o["vout"]))); expect.append(pattern(k))
            elif n == "witness_default":
                obj[o["dst"]] = nobj; nobj += 1
                mops.append("C %d 1 D" % cls([(self.k_items, 2)])); expect.append(pattern(k))
            elif n == "witness_new":
                obj[o["dst"]] = nobj; nobj += 1
                mops.append("C %d 1 %s" % (cls([(self.k_items, 2)]), lit(list(range(len(o["items"])))))); expect.append(pattern(k))
            elif n == "scope_default":
                obj[o["dst"]] = nobj; nobj += 1
                mops.append("C %d 1 D" % cls([(self.k_scope[o["kind"]], self.DFLT[o["kind"]])])); expect.append(pattern(k))
            elif n == "psbt_default":
                obj[o["dst"]] = nobj; nobj += 1
                shape[o["dst"]] = (0, 0)
                mops.append("C %d 1 D" % cls([(self.k_psbt, 8)])); expect.append(pattern(k))
            elif n == "ad_default":
                obj[o["dst"]] = nobj; nobj += 1
                mops.append("C %d 1 D" % cls([(self.k_ad, 9)])); expect.append(pattern(k))
            elif n == "psbt_from_tx" and o["src"] in txsize:
                nin, nout = txsize[o["src"]]
                obj[o["dst"]] = nobj; nobj += 1
                shape[o["dst"]] = (nin, nout)
                kinds = [(self.k_psbt, 8)] + [(self.k_scope["in"], self.DFLT["in"])] * nin + [(self.k_scope["out"], self.DFLT["out"])] * nout
                mops.append("C %d %d %s" % (cls(kinds), len(kinds), " ".join(["D"] * len(kinds)))); expect.append(pattern(k))
            elif n == "view_of":
                obj[o["dst"]] = nobj; nobj += 1
                isview.add(o["dst"])
                mops.append("C 0 0"); expect.append(pattern(k))
            elif n in ("tx_append_vin", "tx_append_vout") and o["obj"] in obj:
                f = 0 if n == "tx_append_vin" else 1
                txsize[o["obj"]][f] += 1
                mops.append("M %d %d %d" % (obj[o["obj"]], f, 1 + o["seed"])); expect.append(pattern(k, target=o["obj"]))
            elif n == "witness_append" and o["obj"] in obj:
                mops.append("M %d 0 %d" % (obj[o["obj"]], 7)); expect.append(pattern(k, target=o["obj"]))
            elif n == "ad_append" and o["obj"] in obj:
                mops.append("M %d 0 %d" % (obj[o["obj"]], o["v"])); expect.append(pattern(k, target=o["obj"]))
            elif n == "unknown_set" and o["obj"] in obj:
                f = 0
                if o.get("scope") and o["obj"] in shape:
                    nin, nout = shape[o["obj"]]
                    lst = nin if o["scope"][0] == "in" else nout
                    if lst == 0:
                        continue
                    f = 1 + (o["scope"][1] % lst) + (nin if o["scope"][0] == "out" else 0)
                elif o.get("scope"):
                    continue
                # a key that is already present is overwritten: contents still change unless the value is the same
                mops.append("M %d %d %d" % (obj[o["obj"]], f, 1 + int(o["key"][2:4], 16)))
                expect.append(pattern(k, target=o["obj"]))
            elif n == "sighash_taproot" and (o["obj"] in txsize or o["obj"] in isview) and o["obj"] not in noquery \
                    and (o["flag"] & 0x80) == 0 \
                    and 0 <= o["idx"] < len(o["values"]):
                ident = json.dumps([o["spks"], o["values"]])
                if ident not in arg:
                    arg[ident] = narg; narg += 1
                    mops.append("A 1 %d" % (1 + arg[ident])); expect.append("o-/a-/s0")
                if l.get("stale") is None:
                    noquery.add(o["obj"])
                    continue
                stale = l["stale"]
                mops.append("Q %d %d %d" % (obj[o["obj"]], 1 if o["obj"] in isview else 0, arg[ident]))
                expect.append(pattern(k, stale=stale))
            elif n == "bytearray_new":
                argslot[o["dst"]] = narg; narg += 1
                mops.append("A 1 %d" % (1 + argslot[o["dst"]])); expect.append("o-/a-/s0")
            elif n == "mnemonic_from_bytes" and o["obj"] in argslot:
                mops.append("Q 0 2 %d" % argslot[o["obj"]]); expect.append(pattern(k))
        ctext = " ".join("%d %s %d" % (len(ks), " ".join("%s %d" % kd for kd in ks), cs) if ks else "0 %d" % cs for ks, cs in classes)
        mtext = " ".join("%s %d" % m for m in self.methods)
        line = "heap.trace %d %s %d %s %d %s" % (len(classes), ctext, len(self.methods), mtext, len(mops), " ".join(mops))
        return line, "ok " + " ".join(expect), len(mops)


def parse_memo_keys():
    """rows of `Gen.Alias.memoKeys` (site name -> the stored key copies the argument's contents?)"""
    src = open(os.path.join(facts.GEN_DIR, "AliasFacts.lean")).read()
    m = re.search(r"def memoKeys : List \(String × Bool\) := \[(.*?)\n\]", src, re.S)
    return dict((n, b == "true") for (n, b) in re.findall(r'\("([^"]*)", (true|false)\)', m.group(1))) if m else {}


class AliasAbstraction:
    """the part of a history the model of Model/HeapAlias.lean speaks about (keyed memos while the CALLER edits its own
    argument lists in place, op `sighash_taproot` with "reuse"), as a `memo.trace` request, and the staleness observed
    on the real code. Methods 0/1: Transaction.hash_amounts / hash_script_pubkeys, 2/3: the same of PSBTView; their key
    kinds are the extracted ones."""
    NAMES = ["transaction.Transaction.hash_amounts[_hash_amounts]",
             "transaction.Transaction.hash_script_pubkeys[_hash_script_pubkeys]",
             "psbtview.PSBTView.hash_amounts[_hash_amounts]",
             "psbtview.PSBTView.hash_script_pubkeys[_hash_script_pubkeys]"]

    def __init__(self, memo_keys):
        # a memo that is not keyed at all is not this model's business: such histories are not abstracted
        self.ok = all(n in memo_keys for n in self.NAMES)
        self.kinds = ["c" if memo_keys.get(n) else "a" for n in self.NAMES]

    def build(self, ops, live):
        if not self.ok:
            return None
        mops, expect = [], []
        obj, held, isview, noquery = {}, {}, set(), set()
        contents = {}
        narg = 0

        def cell(x):
            return contents.setdefault(json.dumps(x), 1 + len(contents))
        for k, o in enumerate(ops):
            l, n = live[k], o["op"]
            if l["status"] != "ok":
                if n == "sighash_taproot":
                    noquery.add(o["obj"])    # the call may or may not have replaced / edited the held lists
                if n in ("tx_default", "tx_new", "view_of"):
                    return None
                continue
            if n in ("psbt_sighash", "tx_set_locktime", "psbt_sign") and o.get("obj") is not None:
                noquery.add(o["obj"])
                continue
            if n in ("tx_default", "tx_new", "view_of"):
                obj[o["dst"]] = len(obj)
                held.pop(o["dst"], None)
                noquery.discard(o["dst"])
                (isview.add if n == "view_of" else isview.discard)(o["dst"])
                mops.append("O"); expect.append("-")
            elif n in ("tx_append_vin", "tx_append_vout") and o["obj"] in obj:
                mops.append("M %d" % obj[o["obj"]]); expect.append("-")
            elif n == "sighash_taproot" and o["obj"] in obj and o["obj"] not in noquery:
                s = o["obj"]
                cv, cs = cell(["v", o["values"]]), cell(["s", o["spks"]])
                if o.get("reuse") and s in held:
                    ks, kv = held[s]
                    mops += ["E %d %d" % (ks, cs), "E %d %d" % (kv, cv)]; expect += ["-", "-"]
                else:
                    ks, kv = narg, narg + 1
                    narg += 2
                    held[s] = (ks, kv)
                    mops += ["N %d" % cs, "N %d" % cv]; expect += ["-", "-"]
                if (o["flag"] & 0x80) or not (0 <= o["idx"] < len(o["values"])):
                    continue                 # ANYONECANPAY: the two memo methods are not called
                if l.get("stale") is None:
                    noquery.add(s)
                    continue
                b = 2 if s in isview else 0
                mops.append("T %d %d %d %d %d" % (obj[s], b, kv, b + 1, ks)); expect.append("s%d" % int(bool(l["stale"])))
        if not any(m.startswith("T") for m in mops):
            return None
        line = "memo.trace %d %s %d %s" % (len(self.kinds), " ".join(self.kinds), len(mops), " ".join(mops))
        return line, "ok " + " ".join(expect), len(mops)


class DeepAbstraction(AliasAbstraction):
    """the same histories for Model/HeapDeep.lean (audit2 B-7): an argument list is a list of REFERENCES to caller-owned
    buffers (the `data` of each script; each amount is a buffer that is never edited, only replaced), so that
    "reuse": "bytes" — the bytes of bytearray-backed scripts edited in place, the conditions of c19ops `sighash_taproot`
    mirrored — is an edit of the buffers, not of the list. Key kinds: an extracted `true` is a deep key, anything else
    the worst kind."""

    def __init__(self, memo_keys):
        AliasAbstraction.__init__(self, memo_keys)
        self.kinds = ["d" if memo_keys.get(n) else "a" for n in self.NAMES]

    def build(self, ops, live):
        if not self.ok:
            return None
        mops, expect = [], []
        obj, held, isview, noquery = {}, {}, set(), set()
        contents = {}
        st = {"narg": 0, "ncell": 0}

        def cell(x):
            return contents.setdefault(json.dumps(x), 1 + len(contents))

        def emit(m):
            mops.append(m); expect.append("-")

        def cells(xs):
            rs = []
            for x in xs:
                emit("C %d" % cell(x))
                rs.append(st["ncell"]); st["ncell"] += 1
            return rs

        def lst(rs):
            return "%d %s" % (len(rs), " ".join(map(str, rs))) if rs else "0"
        for k, o in enumerate(ops):
            l, n = live[k], o["op"]
            if l["status"] != "ok":
                if n == "sighash_taproot":
                    noquery.add(o["obj"])
                if n in ("tx_default", "tx_new", "view_of"):
                    return None
                continue
            if n in ("psbt_sighash", "tx_set_locktime", "psbt_sign") and o.get("obj") is not None:
                noquery.add(o["obj"])
                continue
            if n in ("tx_default", "tx_new", "view_of"):
                obj[o["dst"]] = len(obj)
                held.pop(o["dst"], None)
                noquery.discard(o["dst"])
                (isview.add if n == "view_of" else isview.discard)(o["dst"])
                emit("O")
            elif n in ("tx_append_vin", "tx_append_vout") and o["obj"] in obj:
                emit("M %d" % obj[o["obj"]])
            elif n == "sighash_taproot" and o["obj"] in obj and o["obj"] not in noquery:
                s = o["obj"]
                ba = bool(o.get("ba")) or not o["spks"]
                if o.get("reuse") and s in held:
                    h = held[s]
                    if o["reuse"] == "bytes" and len(h["rs"]) == len(o["spks"]) and h["ba"]:
                        for r, x in zip(h["rs"], o["spks"]):
                            emit("B %d %d" % (r, cell(["s", x])))       # the caller's bytearray, edited in place
                    else:
                        h["rs"] = cells([["s", x] for x in o["spks"]])
                        h["ba"] = ba
                        emit("E %d %s" % (h["ks"], lst(h["rs"])))
                    emit("E %d %s" % (h["kv"], lst(cells([["v", x] for x in o["values"]]))))
                else:
                    rs = cells([["s", x] for x in o["spks"]])
                    rv = cells([["v", x] for x in o["values"]])
                    h = held[s] = {"ks": st["narg"], "kv": st["narg"] + 1, "rs": rs, "ba": ba}
                    st["narg"] += 2
                    emit("N " + lst(rs)); emit("N " + lst(rv))
                if (o["flag"] & 0x80) or not (0 <= o["idx"] < len(o["values"])):
                    continue
                if l.get("stale") is None:
                    noquery.add(s)
                    continue
                b = 2 if s in isview else 0
                mops.append("T %d %d %d %d %d" % (obj[s], b, h["kv"], b + 1, h["ks"])); expect.append("s%d" % int(bool(l["stale"])))
        if not any(m.startswith("T") for m in mops):
            return None
        line = "memo.deep %d %s %d %s" % (len(self.kinds), " ".join(self.kinds), len(mops), " ".join(mops))
        return line, "ok " + " ".join(expect), len(mops)


class SharedAbstraction:
    """the part of a history the model of Model/HeapShared.lean speaks about — constructions and the caller's container
    mutations over Transaction (vin, vout), Witness (items) and the classes of the generic operations — as a
    `shared.trace` request with the EXTRACTED field sources: a container attribute is the global cell of the object an
    UNSAFE flow site names (`flow:<class>.<attr><-<object>`), otherwise a fresh container. Per operation the set of
    existing objects whose picture changed, and for a construction whether the new object looks like the same
    construction in a pristine process, must agree with the model."""
    FIXED = {"tx": ("transaction.Transaction", ["vin", "vout"]), "wit": ("script.Witness", ["items"])}

    def __init__(self, shared_sites, unsafe):
        self.cells = {}      # object name -> cell id
        self.src = {}        # (class short name, attr) -> field source token, for unsafe non-table flows
        for (name, kind, probe, ev) in shared_sites:
            m = re.match(r"flow:(.*)\.([A-Za-z_0-9]+)<-(.*)$", name)
            if m and kind.strip() == ".sharedIntoAttr false" and name in unsafe:
                cell = self.cells.setdefault(m.group(3), len(self.cells))
                st = re.match(r"style: (\w+);", ev)
                tok = {"default": "g", "or": "o", "always": "a"}.get(st.group(1) if st else "default", "g")
                self.src[(m.group(1), m.group(2))] = "%s %d" % (tok, cell)

    def attrs(self, cls_short, base):
        extra = sorted(a for (c, a) in self.src if c == cls_short and a not in base)
        return list(base) + extra

    def build(self, ops, live, fresh):
        makers, mops, expect = [], [], []
        obj = {}             # slot -> (model index, class short, attrs)

        def maker(cls_short, attrs):
            toks = []
            for a in attrs:
                toks.append(self.src[(cls_short, a)] if (cls_short, a) in self.src else "f")
            key = "%d %s" % (len(toks), " ".join(toks))
            if key not in makers:
                makers.append(key)
            return makers.index(key)

        def changed(l, target=None):
            ch = {obj[c["slot"]][0] for c in l["changed"] if c["slot"] in obj}
            if target in obj:
                ch.add(obj[target][0])
            return ".".join(map(str, sorted(ch))) or "-"

        nested = ("script.Witness", "items") in self.src
        for k, o in enumerate(ops):
            l, n = live[k], o["op"]
            cons = None
            if nested and ((n == "tx_new" and o["vin"]) or n == "tx_append_vin"):
                # every transaction input holds a Witness of its own: with a shared Witness.items the inputs are shared
                # containers of the transaction as well, which the flat model of a transaction (vin, vout) does not have
                return None
            if n in ("tx_default", "tx_new"):
                cons = self.FIXED["tx"] + ([None, None] if n == "tx_default" else [o["vin"], o["vout"]],)
            elif n in ("witness_default", "witness_new"):
                cons = self.FIXED["wit"] + ([None] if n == "witness_default" else [list(range(len(o["items"])))],)
            elif n == "g_new":
                cs = o["cls"][len("embit."):] if o["cls"].startswith("embit.") else o["cls"]
                cons = (cs, [], [])
            if cons is not None:
                if l["status"] != "ok":
                    return None
                cs, base, args = cons
                attrs = self.attrs(cs, base)
                f = fresh.get(str(k))
                if f is None:
                    return None
                obj[o["dst"]] = (len(obj), cs, attrs)
                lits = " ".join("D" if a is None else ("L %d %s" % (len(a), " ".join(str(1 + x) for x in a)) if a else "L 0") for a in args)
                mops.append("K %d %d %s" % (maker(cs, attrs), len(args), lits) if args else "K %d 0" % maker(cs, attrs))
                pristine = (l["status"], l["target"]) == (f["status"], f["target"])
                # the new object may hold a cell somebody already filled: then existing objects are unchanged, it is not pristine
                expect.append("o%s/p%d/s0" % (changed(l), 1 if pristine else 0))
                continue
            if l["status"] != "ok":
                continue
            if n in ("tx_append_vin", "tx_append_vout") and o["obj"] in obj:
                mops.append("M %d %d %d" % (obj[o["obj"]][0], 0 if n == "tx_append_vin" else 1, 1 + o["seed"]))
                expect.append("o%s/p1/s0" % changed(l, o["obj"]))
            elif n == "witness_append" and o["obj"] in obj:
                mops.append("M %d 0 7" % obj[o["obj"]][0])
                expect.append("o%s/p1/s0" % changed(l, o["obj"]))
            elif n == "g_mutate" and o["obj"] in obj and o["attr"] in obj[o["obj"]][2]:
                mops.append("M %d %d 1" % (obj[o["obj"]][0], obj[o["obj"]][2].index(o["attr"])))
                expect.append("o%s/p1/s0" % changed(l, o["obj"]))
            elif n in ("reparse", "psbt_tx") and o.get("dst") in obj:
                return None      # the slot is redefined: out of the model's vocabulary
        if not mops or not any(m.startswith("M") for m in mops):
            return None
        line = "shared.trace %d %s 0 %d %s" % (len(makers), " ".join(makers), len(mops), " ".join(mops))
        return line, "ok " + " ".join(expect), len(mops)


# ------------------------------------------------------------------------------------------------ the check

def examine(c, zyg, ops, kind, abstraction, shrink_budget=80):
    ans = zyg.eval(ops)
    fs = failures(ops, ans)
    c.count(("history", json.dumps(ops)), nontrivial=len(ops) >= 3)
    c.tally("histories:" + kind)
    c.tally("operations", len(ops))
    if "live" in ans:
        for o, l in zip(ops, ans["live"]):
            c.tally("op:%s:%s" % (o["op"], l["status"]))
    reported = set()
    for f in fs:
        if f["check"] == "harness-error":
            raise RuntimeError("fork server: " + f["detail"])
        k = f["k"]
        rec = dict(f)
        rec.update({"op": "history", "operation": ops[k], "history": ops[:k + 1], "kind": kind})
        if c.classify(rec):
            c.fail(f["check"], rec)
            continue
        shrunk = c.extra.setdefault("_shrunk", [])
        if f["check"] in reported:
            continue          # one report per kind and history
        reported.add(f["check"])
        tag = (f["check"], generic_rank(ops[:k + 1]))
        if shrunk.count(tag) >= 2 or len(shrunk) >= 12:
            c.fail(describe(f, ops[k]), rec)     # counted; the shrunk ones come first in the report
            continue
        shrunk.append(tag)
        small, best = shrink(zyg, ops, f, budget=shrink_budget)
        rec = dict(best)
        rec.update({"op": "history", "operation": small[-1], "history": small, "kind": kind, "shrunk_from": len(ops[:k + 1])})
        c.fail(describe(best, small[-1]), rec)
    # model correspondence (only histories without failures of the harness itself)
    if abstraction is not None and "live" in ans:
        b = abstraction.build(ops, ans["live"], ans["fresh"])
        if b is not None:
            line, exp, n = b
            c.tally("model-ops", n)
            c.expect(line, exp, {"history": ops, "kind": kind}, proven=False, op="heap.trace")
        alias = getattr(abstraction, "alias", None)
        b = alias.build(ops, ans["live"]) if alias is not None else None
        if b is not None:
            line, exp, n = b
            c.tally("memo-trace-ops", n)
            c.tally("memo-trace-edits-in-place", line.count(" E ") // 2)
            c.expect(line, exp, {"history": ops, "kind": kind}, proven=False, op="memo.trace")
        deep = getattr(abstraction, "deep", None)
        b = deep.build(ops, ans["live"]) if deep is not None else None
        if b is not None:
            line, exp, n = b
            c.tally("memo-deep-ops", n)
            c.tally("memo-deep-buffers-edited-in-place", sum(1 for t in line.split(" ") if t == "B"))
            c.expect(line, exp, {"history": ops, "kind": kind}, proven=False, op="memo.deep")
        shared = getattr(abstraction, "shared", None)
        b = shared.build(ops, ans["live"], ans["fresh"]) if shared is not None else None
        if b is not None:
            line, exp, n = b
            c.tally("shared-trace-ops", n)
            c.expect(line, exp, {"history": ops, "kind": kind}, proven=False, op="shared.trace")
    return fs


def generic_rank(ops):
    """0: a history over the fixed operations (the library's documented classes); 1: with generic operations on public
    names; 2: with generic operations on private names (reported last: a caller would not call `_helper` itself)"""
    r = 0
    for o in ops:
        if o["op"].startswith("g_"):
            path = o.get("fn") or o.get("cls") or ""
            private = any(p.startswith("_") for p in path.split(".")) or str(o.get("attr", "")).startswith("_")
            r = max(r, 2 if private else 1)
    return r


def describe(f, o):
    if f["check"] == "fresh-differs":
        return "%s gives %s here and %s in a fresh interpreter on equal arguments" % (
            o["op"], json.dumps(f["live"])[:200], json.dumps(f["fresh"])[:200])
    if f["check"] == "arg-changed":
        return "%s modified its argument %s" % (o["op"], f["slots"])
    if f["check"] == "other-changed":
        return "%s changed the unrelated object(s) %s" % (o["op"], f["slots"])
    return "%s: %s" % (f["check"], json.dumps(f)[:300])


def explore(c, zyg, n, abstraction, lo=8, hi=22, kind="random"):
    for i in range(n):
        g = Gen(c.rng)
        ops = g.history(c.rng.randrange(lo, hi))
        examine(c, zyg, ops, kind, abstraction)
        if i < 3:
            c.sample({"history": ops[:8]})
        if i % 25 == 24:
            c.flush()
    c.flush()


def crosscheck(c, zyg, n):
    """the fork server's children against brand-new interpreters"""
    for i in range(n):
        g = Gen(c.rng)
        ops = g.history(12)
        ans = zyg.eval(ops)
        for k in (len(ops) - 1, len(ops) // 2):
            f1 = ans["fresh"][str(k)]
            f2 = fresh_interpreter(ops, k)
            c.tally("fresh-interpreter-crosscheck")
            if f1 != f2:
                c.broken.append(("harness", "fork server child and a new interpreter disagree on %s" % json.dumps(ops[k])))


def completeness(c):
    """the obligations of Props/C19Complete.lean evaluated in Python on this run's tables and this run's independent
    enumeration (harness/aliasnames.py, written to Generated/AliasNames.lean by the same generator), for the messages"""
    info = facts.LAST_ALIAS_NAMES
    if not info:
        return
    sites = {s[0]: s for s in parse_sites()}
    shared = {s[0]: s for s in parse_shared_sites()}
    for q in info.get("unscanned", []):
        c.broken.append(("facts", "completeness: function %s is alive in the loaded package but the translator did not "
                                  "analyse it (every_reachable_function_scanned)" % q))
    for m in info.get("mutable_defaults", []):
        if m not in sites:
            c.broken.append(("facts", "completeness: the default value of %s is a mutable object but the table has no site "
                                      "for it (every_mutable_default_has_a_safe_site)" % m))
    for names in info.get("shared_objects", []):
        if not any(("obj:" + n) in shared for n in names):
            c.broken.append(("facts", "completeness: the module- / class-level mutable object %s has no site in the table "
                                      "(every_shared_object_has_a_safe_site)" % " = ".join(names)))
    c.extra["enumeration"] = {"live_functions": info.get("reachable"), "analysed_loaded": info.get("scanned_loaded"),
                              "analysed_source_only": info.get("scanned_ast_only"),
                              "mutable_defaults": len(info.get("mutable_defaults", [])),
                              "shared_objects": len(info.get("shared_objects", [])),
                              "not_analysed": info.get("unscanned", [])}


def run(tier, seed):
    c = Check(PROP, MODS, tier, seed)
    c.rule = ("seeded random histories of 8-22 public operations over a pool of real objects (Transaction, Witness, PSBT, PSBT and "
              "PSET scopes, PSBTView, HDKey, descriptor Key / Descriptor / TapTree, AllowedDerivation, bytearray): construct with "
              "default arguments / from literals / from another pool object, mutate one object, derive / branch / neuter, sign, "
              "legacy / segwit / taproot digests with varying arguments, parse, serialise, mnemonic_from_bytes; every call is "
              "compared with the same call in a pristine process on freshly built equal arguments, every other object and every "
              "argument with its picture before the call; the D27-D32 witnesses run first. Distinct by content; non-trivial = at "
              "least 3 operations")
    c.assumptions = [
        "Script, TransactionInput/Output, EC and HD keys are treated as values: histories do not assign their attributes",
        "a direct change of Transaction.vin / vout is followed by clear_cache(), the invalidation the API provides "
        "(Props/C19.stale_after_raw_mutation shows what happens otherwise)",
        "the in-place tweak variants of the secp256k1 binding, hash/stream sink parameters and the scope handed to "
        "sign_input_with_tapkey modify an argument by contract (list `contractMutators` in Props/C19.lean)"]
    # C19_HISTORIES_ONLY=1 (experiments only): leave the translator out, to see what the histories find on their own
    histories_only = bool(os.environ.get("C19_HISTORIES_ONLY"))
    changed, err = (False, None) if histories_only else facts.regenerate("alias")
    witnesses = {}
    if err:
        c.broken.append(("facts", "cannot extract the alias facts from the loaded modules: " + err))
    elif changed:
        c.extra["facts_drift"] = ("Generated/AliasFacts.lean differed from the loaded modules and was rewritten; the theorems over it "
                                  "(facts_safe_partial, embit_descriptors_safe) and the driver are rebuilt by this run")
    if not histories_only and not err:
        completeness(c)
    c.build_and_audit()
    if histories_only:
        c.extra["histories_only"] = True
    else:
        check_sites(c, witnesses)
    unsafe_shared = [] if histories_only or not c.driver_ok else check_shared_sites(c)
    targets = generic_targets(set(unsafe_shared))
    Gen.GENERIC = targets
    if targets:
        c.extra["generic_targets"] = [t["site"] for t in targets]
    abstraction = Abstraction(parse_sites()) if c.driver_ok else None
    if abstraction is not None:
        mk = parse_memo_keys()
        abstraction.alias = AliasAbstraction(mk)
        abstraction.deep = DeepAbstraction(mk)
        abstraction.shared = SharedAbstraction(parse_shared_sites(), set(unsafe_shared))
        c.expect("memo.keys", "ok " + (" ".join("%s:%s" % (n.encode().hex(), "c" if b else "a") for n, b in mk.items()) or "-"),
                 {"what": "the driver was built from this run's key kinds"}, proven=False)
    scope_alias_probe(c)
    zyg = Zygote()
    try:
        for name, ops in directed_generic(targets) + directed():
            examine(c, zyg, ops, "directed:" + name, abstraction)
        c.flush()
        p = os.path.join(VERIF, "corpus", "C19.json")
        if os.path.exists(p):
            for e in json.load(open(p)):
                examine(c, zyg, e["history"], "corpus:" + e.get("kind", ""), abstraction)
        if tier == "quick":
            crosscheck(c, zyg, 2)
            explore(c, zyg, 450, abstraction)
        else:
            crosscheck(c, zyg, 10)
            explore(c, zyg, 5000, abstraction)
            explore(c, zyg, 400, abstraction, lo=30, hi=60, kind="long")
        c.extra["fork_server_requests"] = zyg.calls
        c.extra.pop("_shrunk", None)
        prio = {"other-changed": 0, "fresh-differs": 0, "arg-changed": 0, "defaults-changed": 1}
        c.violations.sort(key=lambda v: (0 if "shrunk_from" in v[1] else 1, generic_rank(v[1].get("history") or []),
                                         prio.get(v[1].get("check"), 2), len(json.dumps(v[1].get("history", "")))))
        rc = c.finish(search=lambda cc: search(cc, zyg, abstraction))
    finally:
        zyg.close()
    return rc


def scope_alias_probe(c):
    """C19, first sentence, on embit alone: the scopes of a PSBT / PSET, however the object was created (default
    constructor, from a transaction, through the constructor with the PSBTv2 counters among the unknown fields, by
    parsing), are pairwise distinct objects and their mutable members (dicts, lists) are pairwise distinct objects too;
    writing to one scope does not show in another."""
    import io
    from embit.psbt import PSBT
    from embit.liquid.pset import PSET
    from embit.transaction import Transaction, TransactionInput, TransactionOutput
    from embit.script import Script

    def mutable_members(o):
        out = []
        for k, v in sorted(vars(o).items()):
            if isinstance(v, (dict, list, set, bytearray)):
                out.append((k, v))
        return out

    def tx(n_in, n_out):
        return Transaction(2, [TransactionInput(bytes([i + 1]) * 32, i) for i in range(n_in)],
                           [TransactionOutput(1000 + j, Script(b"\x51")) for j in range(n_out)], 0)

    routes = []
    for cls in (PSBT, PSET):
        for n_in, n_out in ((2, 2), (3, 1), (1, 3)):
            cnt = {b"\x04": bytes([n_in]), b"\x05": bytes([n_out])}
            routes.append((cls.__name__ + "(unknown=counters, version=2) %d/%d" % (n_in, n_out),
                           lambda cls=cls, cnt=cnt: cls(unknown=dict(cnt), version=2)))
        routes.append((cls.__name__ + "()", lambda cls=cls: cls()))
    routes.append(("PSBT(tx) 3/2", lambda: PSBT(tx(3, 2))))
    routes.append(("PSBT.parse(PSBT(tx).serialize()) 2/3", lambda: PSBT.parse(PSBT(tx(2, 3)).serialize())))
    n = 0
    for name, mk in routes:
        try:
            p = mk()
        except Exception as e:
            c.tally("scope-alias-probe:%s:raise %s" % (name.split(" ")[0], type(e).__name__))
            continue
        n += 1
        c.count(("scope-alias", name), nontrivial=True)
        for kind, scopes in (("inputs", p.inputs), ("outputs", p.outputs)):
            for i in range(len(scopes)):
                for j in range(i + 1, len(scopes)):
                    a, b = scopes[i], scopes[j]
                    if a is b:
                        c.fail("two scopes of one PSBT are the same object (independently created scopes share state)",
                               {"op": "scope-alias-probe", "route": name, "kind": kind, "i": i, "j": j})
                        continue
                    mb = {k: v for k, v in mutable_members(b)}
                    for k, v in mutable_members(a):
                        if k in mb and mb[k] is v:
                            c.fail("two scopes of one PSBT share a mutable member object",
                                   {"op": "scope-alias-probe", "route": name, "kind": kind, "i": i, "j": j, "member": k})
            # behavioural form: a write to the first scope must not show in the others
            if len(scopes) >= 2:
                before = [dict(s.unknown) for s in scopes[1:]]
                scopes[0].unknown[b"\xfc\x05probe"] = b"\x01"
                after = [dict(s.unknown) for s in scopes[1:]]
                del scopes[0].unknown[b"\xfc\x05probe"]
                if before != after:
                    c.fail("a field written to one scope appears in another scope",
                           {"op": "scope-alias-probe", "route": name, "kind": kind, "check": "other-changed"})
    c.tally("scope-alias-probe:routes", n)


def probe_unlisted_defaults(c):
    """mutable default values the independent enumeration found and the table has no site for (the translator lost the
    function): call the function directly with the default left out and look at the default object"""
    import importlib
    import inspect
    import aliasfacts
    sites = {s[0] for s in parse_sites()}
    for m in facts.LAST_ALIAS_NAMES.get("mutable_defaults", []):
        if m in sites:
            continue
        path, param = m[:-1].split("(")
        parts = ("embit." + path).split(".")
        obj, owner, f = None, None, None
        for i in range(len(parts) - 1, 0, -1):
            try:
                obj = importlib.import_module(".".join(parts[:i]))
            except Exception:
                continue
            try:
                for a in parts[i:]:
                    owner, obj = (obj if isinstance(obj, type) else None), inspect.getattr_static(obj, a)
                f = obj.__func__ if isinstance(obj, (classmethod, staticmethod)) else obj
            except AttributeError:
                f = None
            break
        if not inspect.isfunction(f):
            continue
        dflt = inspect.signature(f).parameters[param].default
        try:
            res, txt = aliasfacts.probe_default_by_calls(f, owner, dflt)
        except Exception as e:
            res, txt = "notProbed", "%s: %s" % (type(e).__name__, e)
        if res == "confirmedUnsafe":
            c.fail("unsafe default %s (absent from the extracted table): %s" % (m, txt),
                   {"op": "site", "site": m, "kind": "mutable default found by the independent enumeration only",
                    "probe": res, "evidence": txt, "theorem": "every_mutable_default_has_a_safe_site"})


def search(c, zyg, abstraction):
    """failing-input search when an obligation (facts / build / model correspondence) is broken: more and longer
    histories, biased to the operations around defaults, memos and arguments"""
    try:
        probe_unlisted_defaults(c)
    except Exception as e:
        c.extra["unlisted_default_probe_error"] = "%s: %s" % (type(e).__name__, e)
    if c.violations:
        return
    explore(c, zyg, 400 if c.tier == "quick" else 4000, abstraction, lo=6, hi=30, kind="search")


def replay(path):
    r = json.load(open(path))
    if r.get("op") == "site":
        print("site   :", r.get("site"), r.get("kind"), r.get("probe"))
        print("evidence:", r.get("evidence"))
        facts.regenerate("alias")
        for s in parse_sites() + parse_shared_sites():
            if s[0] == r.get("site"):
                print("now    :", s[1], s[2], s[3][:400])
        return 0
    ops = r.get("history")
    if not ops:
        print(json.dumps(r, indent=1)[:3000])
        return 0
    zyg = Zygote()
    try:
        ans = zyg.eval(ops)
    finally:
        zyg.close()
    for k, o in enumerate(ops):
        print("%2d %s" % (k, json.dumps(o)))
    for f in failures(ops, ans):
        print("FAIL at %d: %s" % (f["k"], describe(f, ops[f["k"]]) if f["k"] >= 0 else f))
    k = len(ops) - 1
    print("impl  (history)          :", json.dumps(ans["live"][k])[:1500])
    print("impl  (fresh interpreter):", json.dumps(ans["fresh"].get(str(k)))[:1500])
    sites = parse_sites()
    b = Abstraction(sites).build(ops, ans["live"], ans["fresh"])
    if b:
        print("model request:", b[0][:600])
        print("impl pattern :", b[1])
        print("model        :", run_driver([b[0]])[0])
    b = AliasAbstraction(parse_memo_keys()).build(ops, ans["live"])
    if b:
        print("memo request :", b[0][:600])
        print("impl pattern :", b[1])
        print("model        :", run_driver([b[0]])[0])
    try:
        toks = run_driver(["shared.unsafe"])[0].split()[1:]
        unsafe = set() if toks == ["-"] else {bytes.fromhex(t).decode() for t in toks}
        b = SharedAbstraction(parse_shared_sites(), unsafe).build(ops, ans["live"], ans["fresh"])
    except Exception:
        b = None
    if b:
        print("shared request:", b[0][:600])
        print("impl pattern  :", b[1])
        print("model         :", run_driver([b[0]])[0])
    return 0
