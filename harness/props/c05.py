"""C05 — the streaming PSBTView is observationally equal to the in-memory PSBT.

Model: lean/EmbitModel/Model/View.lean (offset arithmetic of GlobalTransactionView, global scan, scope skipping, value
lookup); theorems: Props/C05.lean. Every generated PSBT is opened through PSBTView at a random stream offset and in all
compression modes; everything the view reports (version, counts, first-scope offset, scope offsets, locktime, tx version,
vin/vout, every input/output scope) is compared with the Lean model (`view.all`) and — independently of the model — with
the fully parsed in-memory PSBT. The write path (original + signature stream under each mode) is compared with
sign-then-compress in memory.

Props/C05Y.lean proves `View.writeToL` (write_to with lists of extra streams) = original global scope ++ scopes of the
PSBT merged and compressed in memory (`Psbt.mergeExtra`). Both sides of that theorem are tied to embit on every run:
`view.writel` (0-3 extra streams of each kind, all reader / writer modes) against PSBTView.write_to, `psbt.merge`
against parse + update + clear_metadata + serialize in memory, and the byte-level predicate itself is evaluated on
embit independently of the model."""
import io
import json

from core import Check, hx, run_driver
import gen
import gen_psbt
from props.c04 import on, ob, skv, scope_pairs

from embit.psbt import PSBT
from embit.psbtview import PSBTView

PROP = "C05"
MODS = ["EmbitModel.Props.C05", "EmbitModel.Props.C05X", "EmbitModel.Props.C05Y"]


def txin_tokens(i):
    return " ".join([hx(i.txid), str(i.vout), hx(i.script_sig.data), str(i.sequence), str(len(i.witness.items))] + [hx(w) for w in i.witness.items])


def dump_in(i, version):
    u = i._utxo
    return " ".join(["I", ob(i.txid), on(i.vout), on(i.sequence), "None" if u is None else "%d/%s" % (u.value, hx(u.script_pubkey.data)),
                     ob(i._txhash), skv(scope_pairs(i, version))])


def dump_out(o, version):
    return " ".join(["O", on(o.value), "None" if o.script_pubkey is None else hx(o.script_pubkey.data), skv(scope_pairs(o, version))])


def attempt(f):
    try:
        return f()
    except Exception:
        return None


def impl_view(buf, off, compress):
    s = io.BytesIO(buf)
    s.seek(off)
    try:
        v = PSBTView.view(s, compress=compress)
    except Exception:
        return "none", None
    t = [on(v.version), str(v.num_inputs), str(v.num_outputs), str(v.first_scope), on(attempt(lambda: v.tx_version)), on(attempt(lambda: v.locktime))]
    for i in range(v.num_inputs):
        x = attempt(lambda: v.vin(i))
        t.append("VIN " + ("None" if x is None else txin_tokens(x)))
    for j in range(v.num_outputs):
        x = attempt(lambda: v.vout(j))
        t.append("VOUT " + ("None" if (x is None or x.script_pubkey.data is None) else "%d %s" % (x.value, hx(x.script_pubkey.data))))
    for i in range(v.num_inputs):
        x = attempt(lambda: dump_in(v.input(i), v.version))
        t.append(x or "I none")
    for j in range(v.num_outputs):
        x = attempt(lambda: dump_out(v.output(j), v.version))
        t.append(x or "O none")
    t.append("OFFS")
    for n in range(v.num_inputs + v.num_outputs + 1):
        t.append(on(attempt(lambda: v.seek_to_scope(n))))
    return "ok " + " ".join(t), v


def check_equal_to_memory(c, b, buf, off, kind):
    """the property itself on embit: view == fully parsed PSBT (valid streams, KEEP_ALL)"""
    p = attempt(lambda: PSBT.parse(b))
    if p is None:
        return
    s = io.BytesIO(buf)
    s.seek(off)
    rec = {"op": "view.vs.memory", "kind": kind, "offset": off, "bytes": hx(b)[:20000]}
    try:
        v = PSBTView.view(s)
    except Exception as e:
        c.fail("PSBTView rejects a PSBT the in-memory parser accepts (%s)" % type(e).__name__, rec)
        return
    tx = p.tx
    pv = p.version if p.version is not None else None
    diffs = []
    if (v.version or 0) != (p.version or 0):
        diffs.append("version")
    if v.num_inputs != len(p.inputs) or v.num_outputs != len(p.outputs):
        diffs.append("counts")
    else:
        if attempt(lambda: v.locktime) != tx.locktime:
            diffs.append("locktime")
        if attempt(lambda: v.tx_version) != tx.version:
            diffs.append("tx_version")
        for i in range(len(p.inputs)):
            if attempt(lambda: v.vin(i).serialize()) != tx.vin[i].serialize():
                diffs.append("vin%d" % i)
            if attempt(lambda: v.input(i).serialize(version=p.version)) != p.inputs[i].serialize(version=p.version):
                diffs.append("input%d" % i)
        for j in range(len(p.outputs)):
            if attempt(lambda: v.vout(j).serialize()) != tx.vout[j].serialize():
                diffs.append("vout%d" % j)
            if attempt(lambda: v.output(j).serialize(version=p.version)) != p.outputs[j].serialize(version=p.version):
                diffs.append("output%d" % j)
        # plain write-out reproduces the PSBT
        out = io.BytesIO()
        if attempt(lambda: v.write_to(out)) is None or attempt(lambda: PSBT.parse(out.getvalue()).serialize()) != p.serialize():
            diffs.append("write_to")
        # merging an extra stream that carries nothing must not drop anything
        for mode in (0,):
            out = io.BytesIO()
            ei = io.BytesIO(b"\x00" * len(p.inputs))
            eo = io.BytesIO(b"\x00" * len(p.outputs))
            if attempt(lambda: v.write_to(out, compress=mode, extra_input_streams=[ei], extra_output_streams=[eo])) is None \
                    or attempt(lambda: PSBT.parse(out.getvalue()).serialize()) != p.serialize():
                diffs.append("write_to+empty-extra")
    if diffs:
        c.fail("PSBTView differs from the in-memory PSBT in: " + ",".join(diffs[:6]), dict(rec, diffs=diffs[:10]))


def gen_extra(rng, g):
    """extra per-input / per-output streams (signatures, derivations, unknown pairs), some scopes empty"""
    keys = gen_psbt.key_pool()
    ei = b""
    for _ in g["tx"].vin:
        m = []
        r = rng.random()
        if r < 0.3:
            pass
        else:
            if rng.random() < 0.6:
                m.append((b"\x02" + rng.choice(keys)[0], gen.rbytes(rng, 71) + b"\x01"))
            if rng.random() < 0.3:
                m.append((b"\x14" + rng.choice(keys)[2] + gen.rbytes(rng, 32), gen.rbytes(rng, 64)))
            if rng.random() < 0.2:
                m.append((b"\x08", b"\x01\x40" + gen.rbytes(rng, 64)))
            if rng.random() < 0.2:
                m.append((b"\x06" + rng.choice(keys)[0], gen_psbt.gen_deriv(rng)))
            if rng.random() < 0.2:
                m.append((b"\xf1" + gen.rbytes(rng, 2), gen.rbytes(rng, 5)))
            if rng.random() < 0.1:
                m.append((b"\x17", rng.choice(keys)[2]))
        ei += b"".join(gen.kv(k, v) for k, v in m) + b"\x00"
    eo = b""
    for _ in g["tx"].vout:
        m = []
        if rng.random() < 0.3:
            m.append((b"\x02" + rng.choice(keys)[0], gen_psbt.gen_deriv(rng)))
        if rng.random() < 0.2:
            m.append((b"\xf2", gen.rbytes(rng, 3)))
        eo += b"".join(gen.kv(k, v) for k, v in m) + b"\x00"
    return ei, eo


def check_write(c, g):
    from embit.psbt import InputScope, OutputScope
    b = g["bytes"]
    rng = c.rng
    ei, eo = gen_extra(rng, g)
    use_i = rng.random() < 0.85
    use_o = rng.random() < 0.5
    pre = gen.rbytes(rng, rng.choice([0, 3, 40]))
    buf = pre + b
    off = len(pre)
    for cm in (0, 1, 2):
        vc = rng.choice([0, cm])

        def do_write():
            s = io.BytesIO(buf)
            s.seek(off)
            v = PSBTView.view(s, compress=vc)
            out = io.BytesIO()
            v.write_to(out, compress=cm, extra_input_streams=[io.BytesIO(ei)] if use_i else [],
                       extra_output_streams=[io.BytesIO(eo)] if use_o else [])
            return out.getvalue()

        w = attempt(do_write)
        res = "none" if w is None else "ok " + hx(w)
        c.count(("write", cm, vc, b, ei, eo), nontrivial=True)
        c.tally("write:c%d:%s" % (cm, "ok" if w is not None else "none"))
        info = {"kind": "write", "compress": cm, "view_mode": vc, "offset": off, "bytes": hx(b)[:20000],
                "extra_in": hx(ei) if use_i else None, "extra_out": hx(eo) if use_o else None}
        c.expect("view.write %d %d %d %s %s %s" % (off, vc, cm, hx(ei) if use_i else "None", hx(eo) if use_o else "None", hx(buf)),
                 res, info, proven=False)

        # the property: what was written parses to merge-then-compress in memory
        def in_memory():
            p = PSBT.parse(b, compress=vc)
            si, so = io.BytesIO(ei), io.BytesIO(eo)
            for inp in p.inputs:
                if use_i:
                    inp.update(InputScope.read_from(si))
                if cm:
                    inp.clear_metadata(compress=cm)
            for o in p.outputs:
                if use_o:
                    o.update(OutputScope.read_from(so))
                if cm:
                    o.clear_metadata(compress=cm)
            return p.serialize()

        # independent of embit's own merge code: every signature of the signature stream is in the written scope
        if w is not None and use_i:
            try:
                ws = gen_psbt.split_scopes(w)
                es = gen_psbt.split_scopes(b"psbt\xff\x00" + ei)[1:]
                for i, sc in enumerate(es):
                    for (k, v) in sc:
                        if k[:1] in (b"\x02", b"\x14", b"\x08") and (k, v) not in ws[1 + i]:
                            c.fail("a signature of the signature stream is missing from what PSBTView.write_to wrote (mode %d)" % cm,
                                   dict(info, op="view.write", missing_key=hx(k), input=i))
                            raise StopIteration
            except StopIteration:
                pass
            except Exception:
                pass
        exp = attempt(in_memory)
        if exp is not None:
            got = attempt(lambda: PSBT.parse(w).serialize()) if w is not None else None
            if got != exp:
                c.fail("PSBTView.write_to output does not parse to merge-then-compress in memory (mode %d)" % cm,
                       dict(info, op="view.write", written=None if w is None else hx(w)[:20000]))


def check_write_multi(c, g):
    """write_to with LISTS of extra streams: model (`view.writel`), in-memory procedure (`psbt.merge`) and the
    byte-level statement of Props/C05Y evaluated on embit itself"""
    from embit.psbt import InputScope, OutputScope
    b = g["bytes"]
    rng = c.rng
    ni = rng.choice([0, 1, 2, 2, 3])
    no = rng.choice([0, 0, 1, 2])
    eis = [gen_extra(rng, g)[0] for _ in range(ni)]
    eos = [gen_extra(rng, g)[1] for _ in range(no)]
    if ni and rng.random() < 0.15:
        # a stream that runs short / is malformed: both paths must refuse
        k = rng.randrange(ni)
        eis[k] = rng.choice([eis[k][:-1], b"", eis[k][: len(eis[k]) // 2], b"\x01\x02"])
    pre = gen.rbytes(rng, rng.choice([0, 3, 40]))
    post = gen.rbytes(rng, rng.choice([0, 0, 2]))
    buf = pre + b + post
    off = len(pre)
    cm = rng.choice([0, 1, 2])
    vc = rng.choice([0, 0, cm, 1, 2])
    parses = attempt(lambda: PSBT.parse(b, compress=vc)) is not None

    def do_write():
        s = io.BytesIO(buf)
        s.seek(off)
        v = PSBTView.view(s, compress=vc)
        out = io.BytesIO()
        v.write_to(out, compress=cm, extra_input_streams=[io.BytesIO(e) for e in eis],
                   extra_output_streams=[io.BytesIO(e) for e in eos])
        return out.getvalue(), v.first_scope - off

    r = attempt(do_write)
    w, glen = r if r is not None else (None, None)
    c.count(("writel", cm, vc, b, tuple(eis), tuple(eos)), nontrivial=True)
    c.tally("writel:in%d:out%d:%s" % (ni, no, "ok" if w is not None else "none"))
    info = {"kind": "writel", "compress": cm, "view_mode": vc, "offset": off, "bytes": hx(b)[:20000],
            "extra_in": [hx(e) for e in eis], "extra_out": [hx(e) for e in eos]}
    lst = lambda es: " ".join([str(len(es))] + [hx(e) for e in es])
    c.expect("view.writel %d %d %d %s %s %s" % (off, vc, cm, lst(eis), lst(eos), hx(buf)),
             "none" if w is None else "ok " + hx(w), info, proven=parses)

    def in_memory():
        p = PSBT.parse(b, compress=vc)
        sis = [io.BytesIO(e) for e in eis]
        sos = [io.BytesIO(e) for e in eos]
        for inp in p.inputs:
            for s in sis:
                inp.update(InputScope.read_from(s))
            if cm:
                inp.clear_metadata(compress=cm)
        for o in p.outputs:
            for s in sos:
                o.update(OutputScope.read_from(s))
            if cm:
                o.clear_metadata(compress=cm)
        return p.serialize()

    m = attempt(in_memory)
    c.expect("psbt.merge %d %d %s %s %s" % (vc, cm, lst(eis), lst(eos), hx(b)),
             "none" if m is None else "ok " + hx(m), dict(info, kind="merge"), proven=False)
    # the statement of Props/C05Y on embit itself: refusal together; original global bytes, then the in-memory scopes
    if (w is None) != (m is None):
        c.fail("PSBTView.write_to and merge-in-memory do not refuse together (mode %d)" % cm,
               dict(info, op="view.writel", view=w is not None, memory=m is not None))
    elif w is not None:
        mg = attempt(lambda: PSBTView.view(io.BytesIO(m)).first_scope)
        if w[:glen] != b[:glen] or mg is None or w[glen:] != m[mg:]:
            c.fail("PSBTView.write_to output is not (original global scope ++ scopes merged in memory) (mode %d)" % cm,
                   dict(info, op="view.writel", written=hx(w)[:20000], memory=hx(m)[:20000]))
        # parse level (Props/C05Y (2)): what was written parses to the in-memory result; the model parser agrees
        rp = attempt(lambda: PSBT.parse(w).serialize())
        if rp != m:
            c.fail("PSBT.parse(what PSBTView.write_to wrote) is not the PSBT merged in memory (mode %d)" % cm,
                   dict(info, op="view.writel.parse", written=hx(w)[:20000], memory=hx(m)[:20000]))
        c.expect("psbt.roundtrip 0 %s" % hx(w), "none" if rp is None else "ok " + hx(rp), dict(info, kind="reparse"), proven=False)


def check_bytes(c, kind, b, valid):
    pre = gen.rbytes(c.rng, c.rng.choice([0, 0, 1, 5, 64, 300]))
    post = gen.rbytes(c.rng, c.rng.choice([0, 0, 3]))
    buf = pre + b + post
    off = len(pre)
    for compress in (0, 1, 2):
        res, _ = impl_view(buf, off, compress)
        c.count(("view", compress, off, b), nontrivial=True)
        c.tally("%s:%s" % (kind.split(":")[0], "opened" if res != "none" else "refused"))
        c.expect("view.all %d %d %s" % (off, compress, hx(buf)), res,
                 {"kind": kind, "compress": compress, "offset": off, "bytes": hx(b)[:20000]}, proven=False)
    if valid:
        check_equal_to_memory(c, b, buf, off, kind)


def many_scopes(c):
    """counts that need a 3-byte CompactSize (>= 253 inputs / outputs): offsets computed from the width of the count
    field. The Lean view model walks scopes from the start (quadratic), so these are judged by the property predicate on
    embit alone - view against fully parsed PSBT - which is linear."""
    from embit.transaction import TransactionInput, TransactionOutput
    from embit.script import Script
    for (nin, nout) in ((1, 253), (253, 1), (2, c.rng.randrange(254, 300)), (c.rng.randrange(254, 300), 2), (252, 252)):
        tx = gen.gen_tx(c.rng, segwit=False, max_in=1, max_out=1)
        tx.vin = [TransactionInput(gen.rbytes(c.rng, 32), c.rng.randrange(4), Script(b""), gen.pick_u32(c.rng)) for _ in range(nin)]
        tx.vout = [TransactionOutput(c.rng.randrange(10 ** 6), Script(gen.rbytes(c.rng, c.rng.choice([0, 1, 22, 34]))))
                   for _ in range(nout)]
        for version in (0, 2):
            b = gen.build_psbt(tx, version, rng=c.rng)
            pre = gen.rbytes(c.rng, c.rng.choice([0, 7]))
            c.count(("many", version, nin, nout, b), nontrivial=True)
            c.tally("many-scopes:v%d:in%d/out%d" % (version, nin, nout))
            check_equal_to_memory(c, b, pre + b, len(pre), "many-scopes")


def explore(c, n, big):
    many_scopes(c)
    for k in range(n):
        # a 250-scope PSBT costs ~85 s of driver time in view.all: three of them in the thorough tier (many_scopes covers large counts on embit alone)
        g = gen_psbt.gen_psbt(c.rng, big=(big and k % 200 == 3))
        c.tally("psbt:v%d/in%d/out%d" % (g["version"], min(len(g["tx"].vin), 5), min(len(g["tx"].vout), 5)))
        check_bytes(c, "valid", g["bytes"], True)
        check_write(c, g)
        large = len(g["tx"].vin) + len(g["tx"].vout) > 50   # the model walks scopes from the start: quadratic
        if not large or c.rng.random() < 0.3:
            check_write_multi(c, g)
        if not large and c.rng.random() < 0.5:
            check_write_multi(c, g)
        for kind, cb, must in gen_psbt.corruptions(c.rng, g):
            if c.rng.random() < 0.4:
                check_bytes(c, kind, cb, False)
        if k == 0:
            c.sample({"version": g["version"], "bytes": hx(g["bytes"])[:400]})
        if k % 10 == 9:
            c.flush()
    c.flush()


def run(tier, seed):
    c = Check(PROP, MODS, tier, seed)
    c.rule = ("seeded PSBTs as in C04 (v0/v2, every field type, unknown keys incl. keys sharing a first byte with known "
              "single-byte types, 1-4 and occasionally 252-300 scopes) embedded at random stream offsets with trailing "
              "bytes, opened in the three compression modes; plus sampled structural corruptions. Distinct by content.")
    c.build_and_audit()
    explore(c, 40 if tier == "quick" else 600, big=(tier != "quick"))
    return c.finish(search=lambda cc: explore(cc, 150, False))


def replay(path):
    r = json.load(open(path))
    print(json.dumps({k: (v if len(str(v)) < 1500 else str(v)[:1500]) for k, v in r.items()}, indent=1))
    return 0
