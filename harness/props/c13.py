"""C13 — accepted miniscript is well-typed and compiles to the specified script.

Theorems: lean/EmbitModel/Props/C13.lean (model accepts <-> spec well-typed at top-level B, types/properties
agree, compile = script template, len = compiled length; for ALL expression trees, by structural induction).
Tie: expression TREES are generated here, printed (a) as descriptor text for embit's real parser and (b) as
prefix tokens for the Lean driver; embit's accept/reject, type, properties, compile() and len() are diffed
against the model (correspondence) and, independently of the model, against the executable SPEC
(accept iff well-typed; compiled script = template; len = compiled length) — those are the property itself.
The static class table is re-extracted from the loaded module into Generated/MiniscriptTable.lean first."""
import json
import os
import signal
from io import BytesIO

from core import Check, VERIF, run_driver
import facts
import msgen

from embit.descriptor import Descriptor
from embit.descriptor.miniscript import Miniscript

PROP = "C13"
MODS = ["EmbitModel.Props.C13", "EmbitModel.Props.C13X", "EmbitModel.Props.C13Y"]


class Timeout(Exception):
    pass


def _alarm(signum, frame):
    raise Timeout()


def internal_key():
    return msgen.keys()[msgen.NKEYS - 1][1].hex()


def desc_text(ms_text, tap, two_leaves=False):
    if tap:
        if two_leaves:
            return "tr(%s,{%s,pk(%s)})" % (internal_key(), ms_text, msgen.keys()[msgen.NKEYS - 2][1].hex())
        return "tr(%s,%s)" % (internal_key(), ms_text)
    return "wsh(%s)" % ms_text


def canon_props(p):
    if not isinstance(p, str):
        return "?" + repr(p)
    extra = "".join(sorted(ch for ch in set(p) if ch not in "zondu"))
    s = "".join(ch for ch in "zondu" if ch in p) + extra
    return s or "-"


def impl_eval(ms_text, tap, two_leaves=False):
    """Everything observed on embit for one expression in one context."""
    r = {"accept": False, "built": False, "type": None, "props": None, "verify": False,
         "compile": None, "len": None, "d_compile": None, "d_len": None, "script_len": None, "wscript": None}
    signal.signal(signal.SIGALRM, _alarm)
    signal.setitimer(signal.ITIMER_REAL, 20.0)
    try:
        try:
            d = Descriptor.from_string(desc_text(ms_text, tap, two_leaves))
            r["accept"] = True
        except Timeout:
            raise
        except Exception:
            d = None
        if d is not None:
            try:
                if tap:
                    tree = d.taptree.tree
                    leaf = tree[0].tree if isinstance(tree, tuple) else tree
                    dms = leaf.miniscript
                else:
                    dms = d.miniscript
                    r["script_len"] = d.script_len
                    r["wscript"] = d.witness_script().data.hex()
                r["d_compile"] = dms.compile().hex()
                r["d_len"] = len(dms)
            except Timeout:
                raise
            except Exception as e:
                r["d_error"] = "%s: %s" % (type(e).__name__, e)
        try:
            s = BytesIO(ms_text.encode())
            ms = Miniscript.read_from(s, taproot=tap)
            if s.read() != b"":
                ms = None
        except Timeout:
            raise
        except Exception:
            ms = None
        if ms is not None:
            r["built"] = True
            try:
                r["type"] = ms.type
                r["props"] = canon_props(ms.properties)
            except Timeout:
                raise
            except Exception as e:
                r["type"] = "!" + type(e).__name__
                r["props"] = "!"
            try:
                ms.verify()
                r["verify"] = True
            except Timeout:
                raise
            except Exception:
                pass
            try:
                r["compile"] = ms.compile().hex()
            except Timeout:
                raise
            except Exception:
                pass
            try:
                r["len"] = len(ms)
            except Timeout:
                raise
            except Exception:
                pass
    except Timeout:
        r["timeout"] = True
    finally:
        signal.setitimer(signal.ITIMER_REAL, 0)
    return r


def check_tree(c, t, tap, kind, two_leaves=False):
    ms_text = msgen.text(t)
    toks = msgen.tokens(t, tap)
    ctx = "tap" if tap else "wsh"
    return check_case(c, ms_text, toks, ctx, kind, msgen.depth(t), msgen.heads(t), two_leaves)


def check_case(c, ms_text, toks, ctx, kind, depth=0, heads=None, two_leaves=False):
    tap = ctx == "tap"
    r = impl_eval(ms_text, tap, two_leaves)
    info = {"ctx": ctx, "ms": ms_text[:20000], "tokens": toks[:40000], "kind": kind, "two_leaves": two_leaves,
            "descriptor": desc_text(ms_text, tap, two_leaves)[:20000]}
    c.count((ctx, toks), nontrivial=depth >= 2)
    c.tally("%s:%s:%s" % (ctx, kind, "accepted" if r["accept"] else "rejected"))
    c.tally("depth:%d" % min(depth, 8))
    if heads:
        for h in heads:
            c.tally(("frag-accepted:" if r["accept"] else "frag-rejected:") + h)
    if r.get("timeout"):
        c.fail("embit did not answer within 20 s", dict(info, op="timeout"))
        return r
    # --- correspondence with the model
    if r["built"]:
        v = "ok %s %s %d %d" % (r["type"], r["props"], int(r["verify"]), int(r["accept"]))
    else:
        v = "none"
        if r["accept"]:
            v = "ok ? ? ? 1"   # accepted by the descriptor parser but not constructible directly: never equal
    c.expect("ms.verify %s %s" % (ctx, toks), v, info, proven=False)
    # impl typing against the spec typing (any base type)
    c.expect("ms.spec %s %s" % (ctx, toks),
             ("ok %s %s" % (r["type"], r["props"])) if (r["built"] and r["verify"]) else "none", info, proven=False)
    if r["compile"] is not None:
        c.expect("ms.compile " + toks, "ok " + (r["compile"] or "-"), info, proven=False)
    elif r["built"]:
        c.tally("compile-raised(empty thresh/multi_a)")
    if r["len"] is not None:
        c.expect("ms.len " + toks, "ok %d" % r["len"], info, proven=False)
    # --- the property itself: embit against the specification
    # (1) accepted inside a descriptor  <->  well-typed with top-level type B
    c.expect("ms.welltyped %s %s" % (ctx, toks), "ok %d" % int(r["accept"]), info, proven=True)
    if r["accept"]:
        if r["d_compile"] is None:
            c.fail("accepted miniscript does not compile: %s" % r.get("d_error"), dict(info, op="ms.script"))
            return r
        # (2) compile() is the script the specification assigns
        c.expect("ms.script " + toks, "ok " + r["d_compile"], info, proven=True)
        # the hypothesis of Props/C13X `accepted_compiles_to_template` holds on what embit accepted: the argument bytes
        # (which (2) shows are the bytes embit pushes) have the shape `Ms.parserArgs`, and ordering pushes = ordering keys
        c.expect("ms.parserargs %s %s" % (ctx, toks), "ok 1 1", info, proven=False)
        # (3) reported length = length of the compiled script (= length of the specified script)
        clen = len(r["d_compile"]) // 2
        c.expect("ms.speclen " + toks, "ok %s" % r["d_len"], info, proven=True)
        if r["d_len"] != clen:
            c.fail("len(miniscript) = %s but the compiled script has %d bytes" % (r["d_len"], clen),
                   dict(info, op="ms.len", impl_len=r["d_len"], compiled_len=clen))
        if not tap:
            if r["script_len"] != clen:
                c.fail("Descriptor.script_len = %s but the compiled script has %d bytes" % (r["script_len"], clen),
                       dict(info, op="ms.len", impl_len=r["script_len"], compiled_len=clen))
            if r["wscript"] != r["d_compile"]:
                c.fail("witness_script() differs from miniscript.compile()", dict(info, op="ms.script"))
        if r["compile"] != r["d_compile"] or r["len"] != r["d_len"]:
            c.fail("miniscript parsed inside the descriptor and parsed directly compile differently",
                   dict(info, op="ms.compile"))
    elif r["compile"] is not None and r["len"] is not None and r["len"] != len(r["compile"]) // 2:
        # not reachable through a descriptor (rejected), so not a property failure; the model must agree
        c.tally("len-differs-on-rejected")
    return r


# ---------------------------------------------------------------- case sources

def witnesses():
    """the defects of DESIGN §6 D17-D22 as concrete expressions (all must now be rejected / exact)"""
    K = lambda i, tap=False: ("key", "pk", i, "xonly" if tap else "sec")
    res = []
    for tap in (False, True):
        x_u_only = ("wrap", "n", ("time", "older", 1))                     # B z u  (no d)
        res.append((("andor", x_u_only, K(0, tap), K(1, tap)), tap, "D17"))
        res.append((("bin", "and_n", x_u_only, K(0, tap)), tap, "D17"))
        res.append((("wrap", "t", K(0, tap)), tap, "D18"))
        res.append((("wrap", "t", ("key", "pk_k", 0, "xonly" if tap else "sec")), tap, "D18"))
    x_d_only = ("wrap", "d", ("wrap", "v", ("time", "older", 1)))          # wsh: B o n d (no u)
    res.append((("andor", x_d_only, K(0), K(1)), False, "D17"))
    res.append((("bin", "and_n", x_d_only, K(0)), False, "D17"))
    for n in (16, 17, 20, 21):
        res.append((("multi", "multi", 1, [(i, "sec") for i in range(n)]), False, "D19/D22"))
        res.append((("multi", "sortedmulti", n, [(i % msgen.NKEYS, "sec") for i in range(n)]), False, "D19/D22"))
    res.append((("wrap", "j", ("multi", "multi_a", 1, [(1, "xonly")])), True, "D20"))
    res.append((("bin", "and_b", ("multi", "multi_a", 1, [(1, "xonly")]), ("wrap", "s", K(2, True))), True, "D20"))
    res.append((("key", "pk_k", 1, "xonly"), True, "D21"))
    res.append((("time", "older", 0), True, "D21"))
    res.append((("thresh", 5, [K(1, True)]), True, "D21"))
    res.append((("wrap", "v", K(1, True)), True, "D21"))
    for f in msgen.KEY_FRAGS:
        res.append((("key", f, 0, "unc"), False, "D22-uncompressed"))
    res.append((("multi", "multi", 2, [(0, "unc"), (1, "sec"), (2, "unc")]), False, "D22-uncompressed"))
    res.append((("bin", "or_d", ("key", "pk", 3, "unc"), ("key", "pkh", 4, "unc")), False, "D22-uncompressed"))
    # sortedmulti over a MIXTURE of compressed and uncompressed keys (outside `argsOk`, inside `parserArgs`, Props/C13X):
    # embit orders the pushes, the specification the keys - they agree on SEC keys
    for forms in (["unc", "sec", "unc", "sec"], ["sec", "unc", "sec"], ["unc", "unc", "sec"], ["sec", "sec", "unc", "unc", "sec"]):
        for rot in range(2):
            ks = [((3 * i + rot) % msgen.NKEYS, f) for i, f in enumerate(forms)]
            res.append((("multi", "sortedmulti", 2, ks), False, "C13X-sortedmulti-mixed"))
    res.append((("bin", "and_v", ("wrap", "v", ("key", "pk", 5, "unc")),
                 ("multi", "sortedmulti", 1, [(1, "unc"), (0, "sec")])), False, "C13X-sortedmulti-mixed"))
    return res


def big_multi_a(c):
    for n in (999, 1000):
        for f in ("multi_a", "sortedmulti_a"):
            t = ("multi", f, 2, [((i * 7) % msgen.NKEYS, "xonly") for i in range(n)])
            check_tree(c, t, True, "multi_a-%d" % n)


def raw_keyhash_texts(c):
    """C13-F1 (fix keyhash-raw-hex): pk_h / pkh given exactly 40 characters takes them as a raw 20-byte hash. Hex of
    either case must compile to the push of those 20 bytes (through the model: tokens carry the bytes); 40 characters
    that are not hex were accepted by the parser and compile() raised binascii.Error - whatever is accepted must
    compile (the predicate on embit itself, no model involved)."""
    hexs = [msgen.raw_hash(0).hex(), msgen.raw_hash(1).hex().upper(), "aBcDeF0123456789" * 2 + "AbCdEf01", "AB" * 20]
    bad = ["z" * 40, "ab" * 19 + "zz", "zz" + "ab" * 19, "ab" * 10 + "g" + "ab" * 9 + "a", "AB" * 19 + "A ",
           "0x" + "ab" * 19, "ab" * 19 + "a\x1f", "\u00e9" * 40]
    for tap in (False, True):
        ctx = "tap" if tap else "wsh"
        for (f, pre, tpre) in (("pkh", "", ""), ("pk_h", "c:", "c: "), ("pk_h", "", "")):
            for h in hexs:
                check_case(c, "%s%s(%s)" % (pre, f, h), "%s%s %s" % (tpre, f, h.lower()), ctx, "raw-keyhash", 1)
            for h in bad:
                ms_text = "%s%s(%s)" % (pre, f, h)
                r = impl_eval(ms_text, tap)
                info = {"ctx": ctx, "ms": ms_text, "kind": "raw-keyhash-nonhex", "descriptor": desc_text(ms_text, tap)}
                c.count((ctx, ms_text), nontrivial=False)
                c.tally("%s:raw-keyhash-nonhex:%s" % (ctx, "accepted" if r["accept"] else "rejected"))
                if r.get("timeout"):
                    c.fail("embit did not answer within 20 s", dict(info, op="timeout"))
                elif r["accept"] and r["d_compile"] is None:
                    c.fail("accepted miniscript does not compile: %s" % r.get("d_error"), dict(info, op="ms.script"))
                elif r["built"] and r["verify"] and r["compile"] is None:
                    c.fail("Miniscript.read_from built a verified expression that does not compile",
                           dict(info, op="ms.compile"))


def corpus(c):
    for (t, tap, tag) in witnesses():
        check_tree(c, t, tap, "witness:" + tag)
    raw_keyhash_texts(c)
    p = os.path.join(VERIF, "corpus", "C13.json")
    if os.path.exists(p):
        for e in json.load(open(p)):
            check_case(c, e["ms"], e["tokens"], e["ctx"], "corpus:" + e.get("kind", ""), e.get("depth", 2))
    c.flush()


def atoms(tap, full):
    ls = msgen.leaves(tap, full)
    res = list(ls)
    for w in msgen.WRAPS:
        for l in ls:
            res.append(("wrap", w, l))
    return res


def representatives(c, tap, per_sig):
    """atoms (leaves and singly wrapped leaves) grouped by what embit says about them
    (built, verify, type, properties); `per_sig` atoms per group, different fragments preferred."""
    groups = {}
    for a in atoms(tap, full=False):
        r = impl_eval(msgen.text(a), tap)
        sig = (r["built"], r["verify"], r["type"] if r["verify"] else None, r["props"] if r["verify"] else None)
        groups.setdefault(sig, []).append(a)
    reps = []
    for sig in sorted(groups, key=repr):
        g = groups[sig]
        seen = set()
        k = 0
        for a in g:
            h = tuple(sorted(msgen.heads(a)))
            if h in seen:
                continue
            seen.add(h)
            reps.append(a)
            k += 1
            if k >= (per_sig if sig[1] else max(1, per_sig)):
                break
    c.extra.setdefault("representative_atoms", {})["tap" if tap else "wsh"] = {"signatures": len(groups), "atoms": len(reps)}
    return reps


def depth2(reps, reps1):
    """all combinators over representative atoms (the exhaustive depth-2 family)"""
    for f in msgen.BIN_FRAGS:
        for x in reps:
            for y in reps:
                yield ("bin", f, x, y)
    for x in reps1:
        for y in reps1:
            for z in reps1:
                yield ("andor", x, y, z)
    for n in (1, 2, 3):
        pool = reps if n < 3 else reps1
        for k in sorted({0, 1, n, n + 1}):
            for xs in _product(pool, n):
                yield ("thresh", k, list(xs))
    for k in (0, 1):
        yield ("thresh", k, [])


def _product(pool, n):
    if n == 0:
        yield ()
        return
    for x in pool:
        for rest in _product(pool, n - 1):
            yield (x,) + rest


def exhaustive(c, tap, sample=None):
    kind = "exh"
    n = 0
    for a in atoms(tap, full=True):
        check_tree(c, a, tap, kind + "-atom")
        n += 1
        if n % 400 == 0:
            c.flush()
    reps = representatives(c, tap, 2)
    reps1 = representatives(c, tap, 1)
    fam = depth2(reps, reps1)
    if sample is not None:
        fam = list(fam)
        c.extra.setdefault("depth2_family_size", {})["tap" if tap else "wsh"] = len(fam)
        fam = c.rng.sample(fam, min(sample, len(fam)))
        kind = "exh-sampled"
    for t in fam:
        check_tree(c, t, tap, kind + "-depth2")
        n += 1
        if n % 400 == 0:
            c.flush()
    c.flush()


def deep(c, tap, n, kind="deep"):
    g = msgen.Gen(c.rng, tap)
    for i in range(n):
        d = c.rng.choice([2, 3, 3, 4, 4, 5, 6])
        t = g.expr("B", d)
        if msgen.size(t) > 400:
            continue
        r = check_tree(c, t, tap, kind, two_leaves=tap and i % 7 == 0)
        if r["accept"]:
            bv = msgen.boundary_variants(t, tap)
            if len(bv) > 8:
                bv = c.rng.sample(bv, 8)
            for m in bv:
                check_tree(c, m, tap, kind + "-boundary")
        if c.rng.random() < 0.6:
            m = t
            for _ in range(c.rng.choice([1, 1, 2])):
                m = g.mutate(m)
            if msgen.size(m) <= 400:
                check_tree(c, m, tap, kind + "-mutated")
        if i % 100 == 99:
            c.flush()
    c.flush()


def numbers(c):
    """Number.compile against the spec's number push (driver answers both)"""
    ns = sorted(set(msgen.TIMELOCKS + msgen.MORE_NUMS + list(range(0, 40)) + [c.rng.randrange(0, 2**31) for _ in range(60)]
                    + [2**k + d for k in (7, 8, 15, 16, 23, 24, 31, 32, 63, 64) for d in (-1, 0, 1)]))
    from embit.descriptor.arguments import Number
    for n in ns:
        h = Number(n).compile().hex()
        c.expect("ms.num %d" % n, "ok %s %s" % (h, h), {"number": n}, proven=True)
    c.flush()


def search(c):
    """failing-input search when an obligation or the correspondence is broken: the property predicate on
    embit with the Lean spec as oracle, larger budget, boundary family first"""
    corpus(c)
    for tap in (False, True):
        exhaustive(c, tap, sample=6000)
        deep(c, tap, 1500, kind="search")


def smallest_first(c):
    """report the shortest failing expression"""
    c.violations.sort(key=lambda v: len(str(v[1].get("info", v[1]).get("tokens", ""))))


def run(tier, seed):
    c = Check(PROP, MODS, tier, seed)
    c.rule = ("expression trees over the 23 fragments and 10 wrappers embit supports, in wsh() and as tr() leaves: "
              "every leaf with boundary arguments (k in {0,1,n,n+1}, n in {1,2,3,16,17,20,21}, timelocks "
              "{0,1,16,17,2^31-1,2^31}) and every single wrapper over it; all combinators over representative atoms "
              "(one or two per (built, verify, type, properties) class) = the depth-2 family (thorough: all of it, quick: a "
              "seeded sample); type-directed random trees of depth 2-6, local mutations of them, and for every accepted tree its boundary variants (each k / timelock / key count moved to a boundary value); the D17-D22 witnesses; "
              "multi_a with 999/1000 keys. Distinct by (context, tokens); non-trivial = fragment depth >= 2 (wrappers not counted)")
    c.assumptions = ["keys are fixed public keys printed as 33-byte SEC (wsh), x-only or SEC (tr), a few uncompressed; key and "
                     "descriptor parsing (xpubs, origins, checksums) is C12's subject",
                     "numbers >= 2^256 (Number.compile raises OverflowError) are outside the modelled domain"]
    changed, err = facts.regenerate("miniscript")
    if err:
        c.broken.append(("facts", "cannot extract the miniscript class table from the loaded module: " + err))
    elif changed:
        c.extra["facts_drift"] = ("Generated/MiniscriptTable.lean differed from the loaded module and was rewritten; "
                                  "its dependants (model, theorems, driver) are rebuilt by this run")
    c.build_and_audit()
    corpus(c)
    numbers(c)
    if tier == "quick":
        for tap in (False, True):
            exhaustive(c, tap, sample=2500)
            deep(c, tap, 600)
    else:
        big_multi_a(c)
        for tap in (False, True):
            exhaustive(c, tap, sample=None)
            deep(c, tap, 24000)
    c.flush()
    smallest_first(c)
    return c.finish(search=lambda cc: (search(cc), cc.flush(), smallest_first(cc)))


def replay(path):
    r = json.load(open(path))
    info = r.get("info", r)
    ctx = info["ctx"]
    tap = ctx == "tap"
    print("descriptor:", info.get("descriptor", "")[:600])
    print("impl :", json.dumps(impl_eval(info["ms"], tap, info.get("two_leaves", False)))[:2000])
    toks = info["tokens"]
    lines = ["ms.verify %s %s" % (ctx, toks), "ms.spec %s %s" % (ctx, toks), "ms.welltyped %s %s" % (ctx, toks),
             "ms.compile " + toks, "ms.script " + toks, "ms.len " + toks, "ms.speclen " + toks]
    for l, o in zip(lines, run_driver(lines)):
        print("%-13s: %s" % (l.split(" ", 1)[0], o[:2000]))
    return 0
