"""C08 — correspondence block for key.py's field and curve arithmetic (audit A2).

The Lean model `Model/PyCurve.lean` follows `embit/util/key.py` lines 17-245 branch for branch (`modinv`,
`jacobi_symbol`, `modsqrt`, class `EllipticCurve`); `Props/C08Y.lean` proves that the modelled functions implement the
group law of the curve. This block ties the model to the real functions: every case calls the real key.py function
in-process and the driver op `pycurve.<fn>` on the same arguments; the answers (integers, tuples, None, raise) must be
equal. Operands: the point at infinity in several guises, equal points under different Jacobian representatives,
opposite points, z = 1 and z != 1 representatives, unreduced / negative / off-curve tuples, 2-torsion points on small
curves, scalars 0, 1, n-1, n, n+1, 2^256-1, 2^256, single and multi-scalar products."""
import signal

N = 0xFFFFFFFFFFFFFFFFFFFFFFFFFFFFFFFEBAAEDCE6AF48A03BBFD25E8CD0364141
P = 2**256 - 2**32 - 977

# ops whose model function is proved (Props/C08Y.lean) to implement the mathematical specification
PROVEN = {"pow", "modinv", "modsqrt", "affine", "negate", "on_curve", "lift_x", "double", "add_mixed", "add", "mul",
          "jacobi", "is_x_coord", "has_even_y", "set"}


class _Timeout(Exception):
    pass


def _alarm(signum, frame):
    raise _Timeout()


def guarded(f, *a):
    """run f(*a); ('ok', value) or ('raise', None). A 5 s timer guards against a non-terminating loop."""
    old = signal.signal(signal.SIGALRM, _alarm)
    signal.setitimer(signal.ITIMER_REAL, 5.0)
    try:
        return ("ok", f(*a))
    except _Timeout:
        return ("hang", None)
    except Exception:
        return ("raise", None)
    finally:
        signal.setitimer(signal.ITIMER_REAL, 0)
        signal.signal(signal.SIGALRM, old)


def fmt(v):
    if v is None:
        return "None"
    if v is True:
        return "True"
    if v is False:
        return "False"
    if isinstance(v, tuple):
        return " ".join(str(int(t)) for t in v)
    return str(int(v))


def answer(r):
    return "none" if r[0] != "ok" else "ok " + fmt(r[1])


class PC:
    def __init__(self, c, key):
        self.c = c
        self.rng = c.rng
        self.key = key
        self.secp = (P, 0, 7)
        self.curves = {}

    def curve(self, par):
        if par not in self.curves:
            self.curves[par] = self.key.EllipticCurve(*par)
        return self.curves[par]

    def case(self, fn, line_args, impl, note=""):
        c = self.c
        line = "pycurve.%s %s" % (fn, " ".join(str(a) for a in line_args))
        info = {"fn": "pycurve." + fn, "args": line[:3000], "note": note, "impl": answer(impl)[:400]}
        c.count(("pycurve", fn, tuple(line_args)), nontrivial=True)
        c.tally("pycurve.%s:%s" % (fn, "value" if impl[0] == "ok" else impl[0]))
        if impl[0] == "hang":
            c.fail("key.py function does not terminate within 5 s", dict(info, op="pycurve." + fn))
            return
        c.expect(line, answer(impl), info, proven=(fn in PROVEN), op="pycurve." + fn)

    # ----- calls
    def meth(self, par, fn, *args, note=""):
        E = self.curve(par)
        pyname = fn
        flat = []
        for a in args:
            flat += list(a) if isinstance(a, tuple) else [a]
        self.case(fn, list(par) + flat, guarded(getattr(E, pyname), *args), note)

    def mul(self, par, ps, note=""):
        E = self.curve(par)
        flat = [len(ps)]
        for (pt, n) in ps:
            flat += list(pt) + [n]
        self.case("mul", list(par) + flat, guarded(E.mul, ps), note)
        return E.mul(ps)

    # ----- operands
    def rescale(self, par, pt, lam=None):
        p = par[0]
        x, y, z = pt
        if lam is None:
            lam = self.rng.randrange(2, p)
        return (x * lam * lam % p, y * lam ** 3 % p, z * lam % p)

    def rand_point(self, par, affine=None):
        """a valid point of the curve `par` as (x, y, 1) or under a random representative"""
        E = self.curve(par)
        p = par[0]
        if par == self.secp:
            k = self.rng.choice([1, 2, 3, N - 1, N - 2, (N + 1) // 2]) if self.rng.random() < 0.3 else self.rng.randrange(1, N)
            j = E.mul([(self.key.SECP256K1_G, k)])
            a = E.affine(j)
        else:
            pts = small_points(par)
            a = self.rng.choice(pts)
            j = self.rescale(par, a)
        if affine is True:
            return a
        if affine is False:
            return j if j[2] != 1 else self.rescale(par, j)
        return a if self.rng.random() < 0.4 else j


_SMALL = {}


def small_points(par):
    if par not in _SMALL:
        p, a, b = par
        _SMALL[par] = [(x, y, 1) for x in range(p) for y in range(p) if (y * y - x * x * x - a * x - b) % p == 0]
    return _SMALL[par]


def run_block(c, key, scale):
    x = PC(c, key)
    rng = c.rng
    secp = x.secp
    # small curves: the toy curve of the theorems, one with a != 0, one with 2-torsion (a point with y = 0)
    smalls = [(43, 0, 7), (43, 2, 3), (43, 0, 1), (103, 5, 11)]

    # ---------------- field functions
    for (b, e, m) in [(2, 10, 1000), (0, 0, 7), (7, 0, 1), (-3, 5, 43), (5, 3, P), (P - 1, (P - 1) // 2, P), (7, (P - 1) // 2, P),
                      (rng.randrange(P), (P + 1) // 4, P), (rng.randrange(2 ** 300), rng.randrange(2 ** 260), N)]:
        x.case("pow", [b, e, m], guarded(pow, b, e, m))
    mods = [P, N, 43, 1, 2, 15, 103]
    for n in mods:
        for a in [0, 1, 2, 3, n - 1, n, n + 1, 2 * n, 2 * n + 1, -1, -5, -n]:
            x.case("modinv", [a, n], guarded(key.modinv, a, n), note="boundary")
    for _ in range(12 * scale):
        n = rng.choice([P, N])
        a = rng.choice([rng.randrange(n), rng.randrange(2 ** 300), -rng.randrange(1, n)]) if rng.random() < 0.5 else rng.randrange(1, n)
        x.case("modinv", [a, n], guarded(key.modinv, a, n))
    for k in [P, N, 43, 1, 3, 15, 9, 103, 0, 2, 44, -7]:
        for n in [0, 1, 2, 3, 4, 7, 8, k - 1, k, k + 1, -1, -2, -7, 6, 10, 2 ** 20]:
            x.case("jacobi", [n, k], guarded(key.jacobi_symbol, n, k), note="boundary")
    for _ in range(12 * scale):
        k = rng.choice([P, N, rng.randrange(1, 2 ** 64) | 1, rng.randrange(1, 2 ** 256) | 1])
        n = rng.choice([rng.randrange(k), rng.randrange(2 ** 300), -rng.randrange(1, 2 ** 256), rng.randrange(1, 2 ** 16)])
        x.case("jacobi", [n, k], guarded(key.jacobi_symbol, n, k))
    for p in [P, 43, 7, 3, 13, 17, 103]:
        for a in [0, 1, 2, 3, 4, 7, 8, p - 1, p, p + 1, -1, -4, rng.randrange(p), rng.randrange(p) ** 2]:
            x.case("modsqrt", [a, p], guarded(key.modsqrt, a, p), note="boundary")
    for _ in range(6 * scale):
        a = rng.randrange(P)
        x.case("modsqrt", [a, P], guarded(key.modsqrt, a, P))
        x.case("modsqrt", [a * a % P, P], guarded(key.modsqrt, a * a % P, P), note="square")

    # ---------------- points: unary methods
    G = key.SECP256K1_G
    infs = [(0, 1, 0), (0, 0, 0), (5, 7, 0), (G[0], G[1], 0)]
    for par in [secp] + smalls:
        p = par[0]
        pool = [x.rand_point(par, affine=True), x.rand_point(par, affine=False), x.rand_point(par), infs[0], infs[2]]
        if par == secp:
            pool += [G, x.rescale(par, G), (G[0] + P, G[1], 1), (G[0], G[1] - P, 1), (G[0], G[1], 1 + P), (G[0], G[1] ^ 1, 1),
                     (1, 2, 3), (0, 0, 1), (G[0], G[1], P), infs[1], infs[3]]
        else:
            pool += [q for q in small_points(par) if q[1] == 0][:2] + [(1, 1, 1), (0, 0, 1), (p, 1, 1)]
        for pt in pool:
            for fn in ("affine", "has_even_y", "negate", "on_curve", "double"):
                x.meth(par, fn, pt)
            x.meth(par, "double", x.rescale(par, pt), note="other representative")
            x.meth(par, "affine", x.rescale(par, pt), note="other representative")
        xs = [0, 1, 2, 3, p - 1, p, p + 1, -1, rng.randrange(p), rng.randrange(p), pool[0][0]]
        for v in xs:
            x.meth(par, "is_x_coord", v)
            x.meth(par, "lift_x", v)
    for _ in range(5 * scale):
        v = rng.randrange(P)
        x.meth(secp, "is_x_coord", v)
        x.meth(secp, "lift_x", v)
        pt = x.rand_point(secp)
        for fn in ("affine", "has_even_y", "negate", "on_curve", "double"):
            x.meth(secp, fn, pt)
    # degenerate curves / moduli: even p (assertion in jacobi_symbol), p % 4 == 1 (modsqrt raises), z not invertible
    for par in [(44, 0, 7), (13, 0, 7), (15, 0, 7)]:
        for v in (1, 2, 3):
            x.meth(par, "is_x_coord", v)
            x.meth(par, "lift_x", v)
        x.meth(par, "affine", (1, 2, 3))
        x.meth(par, "affine", (1, 2, 5))
        x.meth(par, "double", (1, 2, 3))

    # ---------------- add / add_mixed: every branch
    for par in [secp] + smalls:
        E = x.curve(par)
        p = par[0]
        for _ in range(3 * scale if par == secp else scale):
            A1, J1 = x.rand_point(par, affine=True), x.rand_point(par, affine=False)
            A2, J2 = x.rand_point(par, affine=True), x.rand_point(par, affine=False)
            same = [J1, x.rescale(par, J1), E.affine(J1)]
            opp = [E.negate(J1), x.rescale(par, E.negate(J1)), E.negate(E.affine(J1))]
            pairs = [(A1, A2), (A1, J2), (J1, A2), (J1, J2),                          # z = 1 / z != 1 in all four positions
                     (infs[0], J1), (J1, infs[0]), (infs[2], A1), (A1, infs[2]), (infs[0], infs[0]), (infs[2], infs[3]),
                     (A1, A1), (J1, J1)]
            pairs += [(u, v) for u in same for v in same][:9]                          # equal points, all representative pairs
            pairs += [(u, v) for u in same for v in opp]                               # opposite points
            for (u, v) in pairs:
                x.meth(par, "add", u, v)
            for (u, v) in [(J1, A2), (A1, A2), (infs[0], A1), (J1, E.affine(J1)), (J1, E.negate(E.affine(J1))), (A1, A1),
                           (J1, J2), (A1, infs[0]), (x.rescale(par, J1), E.affine(J1))]:
                x.meth(par, "add_mixed", u, v, note="assert z2 == 1" if v[2] != 1 else "")
        tor = [q for q in small_points(par) if q[1] == 0] if par != secp else []
        for q in tor[:2]:
            x.meth(par, "add", q, q, note="2-torsion")
            x.meth(par, "add", x.rescale(par, q), q, note="2-torsion")
            x.meth(par, "add", x.rescale(par, q), x.rescale(par, q), note="2-torsion")
    # unreduced / off-curve / negative tuples: the model is the code on every input
    for (u, v) in [((G[0] + P, G[1], 1), G), (G, (G[0] + P, G[1], 1)), ((1, 2, 3), (4, 5, 6)), ((-1, -2, -3), (4, 5, 1)),
                   ((G[0], G[1], 1 + P), G), (G, (G[0], G[1], P)), ((1, 2, 1), (1, 2, 1)), ((1, 2, 1), (1, P - 2, 1)),
                   ((1, 2, 2), (1, 2, 2)), ((0, 0, 1), (0, 0, 5))]:
        x.meth(secp, "add", u, v, note="arbitrary tuples")
        x.meth(secp, "add_mixed", u, v, note="arbitrary tuples")

    # ---------------- mul
    scal = [0, 1, 2, 3, N - 1, N, N + 1, 2 ** 255, 2 ** 256 - 1, 2 ** 256, 2 ** 256 + 5, N - 2, (N - 1) // 2]
    for k in scal:
        x.mul(secp, [(G, k)], note="boundary scalar")
    Q = x.rand_point(secp, affine=False)
    QA = x.curve(secp).affine(Q)
    for k in scal[:8] + [2 ** 256 - 1]:
        x.mul(secp, [(Q, k)], note="boundary scalar, z != 1")
        x.mul(secp, [(G, k), (QA, N - k if k <= N else 1)], note="two scalars")
    x.mul(secp, [], note="empty")
    x.mul(secp, [((0, 1, 0), 5)], note="infinity")
    x.mul(secp, [(G, 5), (G, N - 5)], note="sum at infinity")
    x.mul(secp, [(G, 5), (x.curve(secp).negate(G), 5)], note="opposite points")
    x.mul(secp, [(G, 7), (G, 7)], note="equal points")
    x.mul(secp, [(G, 1), (G, 1), (G, 1)], note="three")
    for _ in range(4 * scale):
        m = rng.choice([1, 1, 2, 2, 3])
        ps = [(x.rand_point(secp), rng.choice([rng.randrange(N), rng.randrange(2 ** 256), rng.randrange(2 ** 16)])) for _ in range(m)]
        x.mul(secp, ps)
    for par in smalls:
        pts = small_points(par)
        for _ in range(2 * scale):
            ps = [(x.rescale(par, rng.choice(pts)) if rng.random() < 0.5 else rng.choice(pts), rng.randrange(0, 200))
                  for _ in range(rng.choice([1, 2, 3]))]
            x.mul(par, ps)
    # the toy-curve instance of the theorems: the whole group
    for k in range(0, 33):
        x.mul((43, 0, 7), [((2, 12, 1), k)], note="toy group")

    # ---------------- ECPubKey.set
    def pkset(data):
        k = key.ECPubKey()
        k.set(data)
        if not k.valid:
            return "invalid"
        return "valid %s %s" % (fmt(k.p), "True" if k.compressed else "False")

    def be(v):
        return (v % 2 ** 256).to_bytes(32, "big")

    encs = []
    for _ in range(2 * scale):
        a = x.rand_point(secp, affine=True)
        encs += [bytes([2 + (a[1] & 1)]) + be(a[0]), bytes([3 - (a[1] & 1)]) + be(a[0]), b"\x04" + be(a[0]) + be(a[1]),
                 b"\x04" + be(a[0]) + be(a[1] ^ 1), bytes([rng.randrange(256)]) + be(a[0]), b"\x04" + be(a[0]) + be(a[1])[:31],
                 b"\x02" + be(rng.randrange(P))]
    sy = pow(8, (P + 1) // 4, P)
    encs += [b"", b"\x02", b"\x02" + be(0), b"\x03" + be(1), b"\x02" + be(P), b"\x02" + be(P + 1), b"\x02" + be(2 ** 256 - 1),
             b"\x04" + be(1) + be(sy), b"\x04" + be(1 + P) + be(sy), b"\x04" + be(1) + be(P - sy), b"\x04" + be(0) + be(0),
             b"\x04" + be(P) + be(1), b"\x05" + be(1), b"\x04" + be(1), b"\x02" + be(1) + be(sy)]
    for d in encs:
        r = guarded(pkset, d)
        c = x.c
        line = "pycurve.set %s" % (d.hex() if d else "-")
        ans = "none" if r[0] != "ok" else "ok " + r[1]
        c.count(("pycurve", "set", d), nontrivial=True)
        c.tally("pycurve.set:%s" % (ans.split(" ")[1] if r[0] == "ok" else "raise"))
        c.expect(line, ans, {"fn": "pycurve.set", "args": line, "impl": ans[:300]}, proven=True, op="pycurve.set")
    c.flush()
    run_ecops(c, key, x, scale)
    c.flush()


def run_ecops(c, key, x, scale):
    """the record the driver evaluates, `Crypto.secpLawful` (ops `lawful.*`; every `py.*` / `contract.*` / `sig.*` / `sign.*` op
    and, bridged, every key op of C07 - C10 / C02 runs on it; `EcLaws` of it is the theorem C08W.secpLawful_ec_laws, so
    `proven=True`), and the FORMER record `Crypto.secpOps` (ops `ecops.*`, no Lean proof, `proven=False`), both against
    key.py's own arithmetic on secp256k1: add, neg, mul, u1*G + u2*P, ofXY, liftX, invN"""
    rng = c.rng
    E = key.SECP256K1
    G = key.SECP256K1_G
    INF = (0, 1, 0)

    def tok(pt):
        a = E.affine(pt)
        return "inf" if a is None else "%d %d" % (a[0], a[1])

    def ans(pt):
        return "ok " + tok(pt)

    def q(op, args, expected, note=""):
        line = "ecops.%s %s" % (op, args)
        c.count(("ecops", op, args), nontrivial=True)
        c.tally("ecops.%s" % op)
        c.expect(line, expected, {"fn": "ecops." + op, "args": line[:2000], "note": note, "impl": expected[:300]},
                 proven=False, op="ecops." + op)
        line2 = "lawful.%s %s" % (op, args)
        c.count(("lawful", op, args), nontrivial=True)
        c.tally("lawful.%s" % op)
        c.expect(line2, expected, {"fn": "lawful." + op, "args": line2[:2000], "note": note, "impl": expected[:300]},
                 proven=True, op="lawful." + op)

    pts = [x.rand_point(x.secp) for _ in range(3 * scale)] + [G, INF, E.negate(G), E.double(G)]
    for i in range(6 * scale):
        u, v = rng.choice(pts), rng.choice(pts)
        m = i % 6
        if m == 0:
            v = u
        elif m == 1:
            v = E.negate(u)
        q("add", tok(u) + " " + tok(v), ans(E.add(u, v)))
        q("neg", tok(u), ans(E.negate(u)))
    scal = [0, 1, 2, N - 1, N, N + 1, 2 ** 255, 2 ** 256 - 1, (N - 1) // 2]
    for k in scal + [rng.randrange(2 ** 256) for _ in range(3 * scale)]:
        u = rng.choice(pts)
        q("mul", "%d %s" % (k, tok(u)), ans(E.mul([(u, k)])), note="single scalar")
        q("mul", "%d %s" % (k, tok(G)), ans(E.mul([(G, k)])), note="generator")
        b = rng.choice(scal + [rng.randrange(N)])
        q("mul2", "%d %d %s" % (k % N, b % N, tok(u)), ans(E.mul([(G, k % N), (E.affine(u) or INF, b % N)])), note="u1*G + u2*P")
    for v in [0, 1, 2, 3, P - 1, P, P + 1, 2 ** 256 - 1] + [rng.randrange(P) for _ in range(3 * scale)] + [E.affine(t)[0] for t in pts if t[2] != 0][:scale]:
        k = key.ECPubKey()
        k.set(b"\x02" + (v % 2 ** 256).to_bytes(32, "big")) if v < 2 ** 256 else None
        q("liftx", str(v), ("ok %d %d" % (k.p[0], k.p[1])) if (v < 2 ** 256 and k.valid) else "none")
    for t in pts:
        a = E.affine(t)
        if a is None:
            continue
        for (xx, yy) in [(a[0], a[1]), (a[0], P - a[1]), (a[0], a[1] ^ 1), (a[1], a[0])]:
            k = key.ECPubKey()
            k.set(b"\x04" + xx.to_bytes(32, "big") + yy.to_bytes(32, "big"))
            q("ofxy", "%d %d" % (xx, yy), ("ok %d %d" % (k.p[0], k.p[1])) if k.valid else "none")
    for a in [1, 2, 3, N - 1, N - 2, (N - 1) // 2] + [rng.randrange(1, N) for _ in range(2 * scale)]:
        q("invn", str(a), "ok %d" % key.modinv(a, N))
