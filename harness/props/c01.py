"""C01 — signature hashes equal the consensus digests (legacy, BIP143, BIP341) on all three entry points.

Theorems: lean/EmbitModel/Props/C01.lean (model digest = consensus digest, for every transaction/index/flag and
every hash function). Tie: embit's Transaction / PSBT / PSBTView digests are compared with the Lean model
(`sighash.*`) and, independently of the model, with the Lean consensus spec (`sighash.*.spec`)."""
import io
import json

from core import Check, hx, run_driver
import gen

from embit.psbt import PSBT
from embit.psbtview import PSBTView
from embit.script import Script
from embit.transaction import Transaction, TransactionInput, TransactionOutput

PROP = "C01"
MODS = ["EmbitModel.Props.C01"]
VALID = [0, 1, 2, 3, 0x80, 0x81, 0x82, 0x83]
TAP_VALID = [0, 1, 2, 3, 0x81, 0x82, 0x83]
INVALID = [4, 5, 0x40, 0x41, 0x84, 0xFF, 0x100, 0x181]


def call(f):
    try:
        return "ok " + hx(f())
    except Exception:
        return "none"


def unsigned(rng, big=False):
    tx = gen.gen_tx(rng, segwit=False, big=big)
    for i in tx.vin:
        i.script_sig = Script(b"")
    return tx


def entry_points(c, tx):
    """[(name, object with sighash_* methods)] for a transaction with empty scriptSigs."""
    eps = [("tx", tx)]
    b0 = gen.build_psbt(tx, 0)
    b2 = gen.build_psbt(tx, 2, explicit_seq=c.rng.random() < 0.7, rng=c.rng)
    eps.append(("psbt-v0", PSBT.parse(b0)))
    eps.append(("psbt-v2", PSBT.parse(b2)))
    # a PSBT object built from the transaction and one that went through embit's own serialiser
    p = PSBT(Transaction(tx.version, list(tx.vin), list(tx.vout), tx.locktime), {})
    eps.append(("psbt-obj", p))
    eps.append(("psbt-reser", PSBT.parse(p.serialize())))
    for name, b in (("view-v0", b0), ("view-v2", b2)):
        pre = gen.rbytes(c.rng, c.rng.choice([0, 0, 1, 7, 300]))
        s = io.BytesIO(pre + b)
        s.seek(len(pre))
        eps.append((name, PSBTView.view(s)))
    return eps


def tap_tokens(toks, idx, spks, values, f, ext, annex, script, lv, cs):
    return " ".join([toks, str(idx), str(len(spks))] + [hx(s) for s in spks] + [str(len(values))] +
                    [str(v) for v in values] + [str(f), str(ext), "None" if annex is None else hx(annex),
                                                "None" if script is None else hx(script), str(lv),
                                                "None" if cs is None else str(cs)])


def check_tx(c, tx, flags, all_idx=True):
    toks = gen.tx_tokens(tx)
    eps = entry_points(c, tx)
    nin, nout = len(tx.vin), len(tx.vout)
    idxs = list(range(nin + 1)) if (all_idx and nin <= 8) else sorted({0, nin - 1, nin, min(nout, nin - 1), c.rng.randrange(nin)})
    sc = gen.gen_script(c.rng)
    value = gen.pick_u64(c.rng)
    spks = [gen.rbytes(c.rng, c.rng.choice([22, 34, 34, 25, 0, 253])) for _ in range(nin)]
    values = [gen.pick_u64(c.rng) for _ in range(nin)]
    c.tally("tx:" + gen.tx_shape(tx))
    for idx in idxs:
        for f in flags:
            valid = f in VALID and idx < nin
            c.count(("legacy", toks, idx, sc, f), nontrivial=(nin > 1 or f not in (0, 1)))
            args = "%s %d %s %d" % (toks, idx, hx(sc), f)
            sargs = "%s %d %s %d %d" % (toks, idx, hx(sc), value, f)
            for name, obj in eps:
                info = {"entry": name, "algo": "legacy", "tx": toks[:5000], "idx": idx, "flag": f, "script": hx(sc)}
                r = call(lambda: obj.sighash_legacy(idx, Script(sc), f))
                c.expect("sighash.legacy " + args, r, info, proven=valid)
                if valid:
                    c.expect("sighash.legacy.spec " + args, r, dict(info, oracle="spec"), proven=True)
                info = dict(info, algo="segwit", value=value)
                r = call(lambda: obj.sighash_segwit(idx, Script(sc), value, f))
                c.expect("sighash.segwit " + sargs, r, info, proven=valid)
                if valid:
                    c.expect("sighash.segwit.spec " + sargs, r, dict(info, oracle="spec"), proven=True)
            c.tally("flag:%#x" % f)
            c.tally("idx:" + ("<nout" if idx < nout else ("<nin" if idx < nin else ">=nin")))
        # taproot: key path / script path x annex x codesep
        for f in flags:
            variants = [(None, None, 0xC0, None)]
            leaf = gen.gen_script(c.rng)
            annex = b"\x50" + gen.rbytes(c.rng, c.rng.choice([0, 1, 40, 300]))
            variants.append((annex, None, 0xC0, None))
            variants.append((None, leaf, c.rng.choice([0xC0, 0xC0, 0xC2, 0x00, 0xFE]), None))
            variants.append((annex, leaf, 0xC0, c.rng.choice([0, 1, 0xFFFF, 0xFFFFFFFE])))
            for (ax, scr, lv, cs) in variants:
                ext = 1 if scr is not None else 0
                t = tap_tokens(toks, idx, spks, values, f, ext, ax, scr, lv, cs)
                tvalid = f in TAP_VALID
                c.count(("taproot", t), nontrivial=True)
                for name, obj in eps:
                    info = {"entry": name, "algo": "taproot", "tx": toks[:5000], "idx": idx, "flag": f,
                            "annex": None if ax is None else hx(ax), "leaf": None if scr is None else hx(scr)}
                    r = call(lambda: obj.sighash_taproot(idx, [Script(s) for s in spks], values, f, ext_flag=ext, annex=ax,
                                                         script=None if scr is None else Script(scr), leaf_version=lv,
                                                         codeseparator_pos=cs))
                    c.expect("sighash.taproot " + t, r, info, proven=tvalid)
                    if tvalid:
                        c.expect("sighash.taproot.spec " + t, r, dict(info, oracle="spec"), proven=True)
    c.sample({"tx": toks[:200], "flags": flags[:4], "indices": idxs[:4]})


def explore(c, n, big):
    for k in range(n):
        tx = unsigned(c.rng, big=big and k % 40 == 7)
        small = len(tx.vin) <= 8
        flags = VALID + c.rng.sample(INVALID, 2) if small else [c.rng.choice(VALID), c.rng.choice(VALID)]
        check_tx(c, tx, flags)
        if k % 10 == 9:
            c.flush()
    c.flush()


def classify_none(rec):
    return False


def run(tier, seed):
    c = Check(PROP, MODS, tier, seed)
    c.rule = ("seeded random unsigned transactions (1-6 inputs, 0-6 outputs, occasionally 252-300; boundary 32/64-bit fields) "
              "x every input index incl. >= number of outputs and >= number of inputs x the 8 valid flags (+ invalid ones) "
              "x {legacy, BIP143, BIP341 key path / script path / annex / codeseparator} x entry points {Transaction, "
              "PSBT v0, PSBT v2, PSBTView v0, PSBTView v2 at a stream offset}; distinct by content, non-trivial when "
              ">1 input or flag not in {DEFAULT, ALL} or taproot")
    c.assumptions = ["taproot hash type 0x80 has no BIP341 digest; it is compared with the model only",
                     "scriptCode is an argument (OP_CODESEPARATOR / FindAndDelete are the caller's, as in embit)"]
    c.build_and_audit()
    explore(c, 30 if tier == "quick" else 600, big=(tier != "quick"))
    return c.finish(search=lambda cc: explore(cc, 100, False))


def replay(path):
    r = json.load(open(path))
    print(json.dumps({k: r[k] for k in ("op", "info", "impl", "model") if k in r}, indent=1)[:3000])
    if "request" in r:
        print("model now:", run_driver([r["request"]])[0])
    return 0
