"""C01 — signature hashes equal the consensus digests (legacy, BIP143, BIP341) on all three entry points.

Theorems: lean/EmbitModel/Props/C01.lean (model digest = consensus digest, for every transaction/index/flag and
every hash function). Tie: embit's Transaction / PSBT / PSBTView digests are compared with the Lean model
(`sighash.*`) and, independently of the model, with the Lean consensus spec (`sighash.*.spec`).

Props/C01X.lean: the PSBT-level entry points. `Model.Psbt.sighash` (PSBT.sighash: dispatch + Transaction methods) and
`Model.View.sighash*` (PSBTView's own streaming copies over vin/vout at offsets) are proved equal on every accepted
PSBT and equal to the consensus digest under the dispatched script code. Tie: `psbt.sighash` / `view.sighash` /
`view.sighash.{legacy,segwit,taproot}` run those model functions on the PSBT bytes embit is given (stream offsets,
all reader modes, PSBTs with inputs of every script type) and, independently of model and of embit's dispatch, the
consensus spec is asked for the digest of the input kind the generator built."""
import io
import json

from core import Check, hx, run_driver
import gen
import gen_psbt

from embit.psbt import PSBT
from embit.psbtview import PSBTView
from embit.script import Script
from embit.transaction import Transaction, TransactionInput, TransactionOutput

PROP = "C01"
MODS = ["EmbitModel.Props.C01", "EmbitModel.Props.C01X"]
VALID = [0, 1, 2, 3, 0x80, 0x81, 0x82, 0x83]
TAP_VALID = [0, 1, 2, 3, 0x81, 0x82, 0x83]
INVALID = [4, 5, 0x40, 0x41, 0x84, 0xFF, 0x100, 0x181]


def call(f):
    try:
        return "ok " + hx(f())
    except Exception:
        return "none"


def unsigned(rng, big=False):
    tx = gen.gen_tx(rng, segwit=False, big=big)
    for i in tx.vin:
        i.script_sig = Script(b"")
    return tx


def entry_points(c, tx):
    """[(name, object with sighash_* methods)] for a transaction with empty scriptSigs."""
    eps = [("tx", tx)]
    b0 = gen.build_psbt(tx, 0)
    b2 = gen.build_psbt(tx, 2, explicit_seq=c.rng.random() < 0.7, rng=c.rng)
    eps.append(("psbt-v0", PSBT.parse(b0)))
    eps.append(("psbt-v2", PSBT.parse(b2)))
    # a PSBT object built from the transaction and one that went through embit's own serialiser
    p = PSBT(Transaction(tx.version, list(tx.vin), list(tx.vout), tx.locktime), {})
    eps.append(("psbt-obj", p))
    eps.append(("psbt-reser", PSBT.parse(p.serialize())))
    for name, b in (("view-v0", b0), ("view-v2", b2)):
        pre = gen.rbytes(c.rng, c.rng.choice([0, 0, 1, 7, 300]))
        s = io.BytesIO(pre + b)
        s.seek(len(pre))
        eps.append((name, PSBTView.view(s)))
    return eps


def tap_tokens(toks, idx, spks, values, f, ext, annex, script, lv, cs):
    return " ".join([toks, str(idx), str(len(spks))] + [hx(s) for s in spks] + [str(len(values))] +
                    [str(v) for v in values] + [str(f), str(ext), "None" if annex is None else hx(annex),
                                                "None" if script is None else hx(script), str(lv),
                                                "None" if cs is None else str(cs)])


def check_tx(c, tx, flags, all_idx=True, eps=None):
    toks = gen.tx_tokens(tx)
    eps = eps or entry_points(c, tx)
    nin, nout = len(tx.vin), len(tx.vout)
    idxs = list(range(nin + 1)) if (all_idx and nin <= 8) else sorted({0, nin - 1, nin, min(nout, nin - 1), c.rng.randrange(nin)})
    sc = gen.gen_script(c.rng)
    value = gen.pick_u64(c.rng)
    spks = [gen.rbytes(c.rng, c.rng.choice([22, 34, 34, 25, 0, 253])) for _ in range(nin)]
    values = [gen.pick_u64(c.rng) for _ in range(nin)]
    c.tally("tx:" + gen.tx_shape(tx))
    for idx in idxs:
        for f in flags:
            valid = f in VALID and idx < nin
            c.count(("legacy", toks, idx, sc, f), nontrivial=(nin > 1 or f not in (0, 1)))
            args = "%s %d %s %d" % (toks, idx, hx(sc), f)
            sargs = "%s %d %s %d %d" % (toks, idx, hx(sc), value, f)
            for name, obj in eps:
                info = {"entry": name, "algo": "legacy", "tx": toks[:5000], "idx": idx, "flag": f, "script": hx(sc)}
                r = call(lambda: obj.sighash_legacy(idx, Script(sc), f))
                c.expect("sighash.legacy " + args, r, info, proven=valid)
                if valid:
                    c.expect("sighash.legacy.spec " + args, r, dict(info, oracle="spec"), proven=True)
                info = dict(info, algo="segwit", value=value)
                r = call(lambda: obj.sighash_segwit(idx, Script(sc), value, f))
                c.expect("sighash.segwit " + sargs, r, info, proven=valid)
                if valid:
                    c.expect("sighash.segwit.spec " + sargs, r, dict(info, oracle="spec"), proven=True)
            c.tally("flag:%#x" % f)
            c.tally("idx:" + ("<nout" if idx < nout else ("<nin" if idx < nin else ">=nin")))
        # taproot: key path / script path x annex x codesep
        for f in flags:
            variants = [(None, None, 0xC0, None)]
            leaf = gen.gen_script(c.rng)
            annex = b"\x50" + gen.rbytes(c.rng, c.rng.choice([0, 1, 40, 300]))
            variants.append((annex, None, 0xC0, None))
            variants.append((None, leaf, c.rng.choice([0xC0, 0xC0, 0xC2, 0x00, 0xFE]), None))
            variants.append((annex, leaf, 0xC0, c.rng.choice([0, 1, 0xFFFF, 0xFFFFFFFE])))
            # (annex, leaf, leaf version, codesep, spent scripts, spent amounts). `taproot_eq_bip341` is the full
            # statement (every hash type - 0x80 and out-of-byte values included -, lists of every length): where BIP341
            # defines no digest the spec answers `none` and embit has to refuse, so EVERY case is compared with the
            # spec (proven=True), not only the seven BIP341 hash types with complete lists (audit A4 / C3).
            variants = [v + (spks, values) for v in variants]
            ax0, scr0, lv0, cs0 = c.rng.choice(variants)[:4]
            wrong = c.rng.choice(["short", "long", "empty", "values-short"])
            if wrong == "short":
                variants.append((ax0, scr0, lv0, cs0, spks[:-1], values))
            elif wrong == "long":
                variants.append((ax0, scr0, lv0, cs0, spks + [gen.rbytes(c.rng, 34)], values))
            elif wrong == "empty":
                variants.append((ax0, scr0, lv0, cs0, [], values))
            else:
                variants.append((ax0, scr0, lv0, cs0, spks, values[:-1]))
            for (ax, scr, lv, cs, spks_, values_) in variants:
                ext = 1 if scr is not None else 0
                t = tap_tokens(toks, idx, spks_, values_, f, ext, ax, scr, lv, cs)
                c.count(("taproot", t), nontrivial=True)
                complete = len(spks_) == nin and len(values_) == nin
                c.tally("taproot:" + ("lists-complete" if complete else "list-" + wrong))
                if f == 0x80:
                    c.tally("taproot:flag-0x80")
                for name, obj in eps:
                    info = {"entry": name, "algo": "taproot", "tx": toks[:5000], "idx": idx, "flag": f,
                            "annex": None if ax is None else hx(ax), "leaf": None if scr is None else hx(scr),
                            "n_scripts": len(spks_), "n_values": len(values_), "n_inputs": nin}
                    r = call(lambda: obj.sighash_taproot(idx, [Script(s) for s in spks_], values_, f, ext_flag=ext, annex=ax,
                                                         script=None if scr is None else Script(scr), leaf_version=lv,
                                                         codeseparator_pos=cs))
                    c.expect("sighash.taproot " + t, r, info, proven=True)
                    c.expect("sighash.taproot.spec " + t, r, dict(info, oracle="spec"), proven=True)
                    # the property on embit itself, independent of model and spec: no digest outside BIP341's domain
                    if r != "none" and (f not in TAP_VALID or not complete or idx >= nin):
                        c.fail("sighash_taproot returns a digest where BIP341 defines none (hash type %#x, %d scripts / "
                               "%d amounts for %d inputs, index %d)" % (f, len(spks_), len(values_), nin, idx),
                               dict(info, op="taproot.domain", digest=r))
    c.sample({"tx": toks[:200], "flags": flags[:4], "indices": idxs[:4]})


def check_history(c, tx, steps=6):
    """`sighash.seq`: a HISTORY of digest calls on ONE object per entry point (audit2 C-7 / B-7). `check_tx` hands every
    object the same lists of spent scripts / amounts throughout, so a cached `sha_amounts` / `sha_scriptpubkeys` that is
    not re-keyed by its argument (`if self._hash_amounts is None:`) goes unnoticed there. Here the SAME Transaction /
    PSBT / PSBTView object is asked again with other lists of the SAME length: one amount changed, one script changed,
    both, back to the first lists, the caller's own list objects edited in place, bytearray-backed scripts whose bytes
    are edited in place; legacy / BIP143 calls in between (they share the prevouts / sequences / outputs caches).
    Every answer is compared with the (stateless) model and with the consensus spec."""
    rng = c.rng
    toks = gen.tx_tokens(tx)
    nin = len(tx.vin)
    if nin == 0 or nin > 8:
        return
    base_spks = [gen.rbytes(rng, rng.choice([22, 34, 34, 25])) for _ in range(nin)]
    base_vals = [gen.pick_u64(rng) for _ in range(nin)]
    # the script of calls: (kind, idx, flag, spks, values, in-place mode)
    plan = []
    spks, vals = list(base_spks), list(base_vals)
    for k in range(steps):
        what = rng.choice(["value", "value", "script", "both", "back", "same", "swap"]) if k else "first"
        j = rng.randrange(nin)
        if what in ("value", "both"):
            vals = list(vals)
            vals[j] = rng.choice([vals[j] ^ 1, vals[j] + 1 if vals[j] < 2 ** 64 - 1 else 0, gen.pick_u64(rng)])
        if what in ("script", "both"):
            spks = list(spks)
            old = spks[j]
            # same length (so that a bytearray can be edited byte by byte) or another length
            spks[j] = (bytes([old[0] ^ 0x01]) + old[1:]) if (old and rng.random() < 0.6) else gen.rbytes(rng, rng.choice([22, 34]))
        if what == "back":
            spks, vals = list(base_spks), list(base_vals)
        if what == "swap" and nin > 1:
            vals = list(reversed(vals))
            spks = list(reversed(spks))
        f = rng.choice([0, 0, 1, 1, 2, 3, 0x81, 0x83])
        idx = rng.randrange(nin)
        mode = rng.choice(["fresh-lists", "same-lists", "same-scripts", "same-bytes"])
        plan.append((what, idx, f, list(spks), list(vals), mode))
    sc = gen.gen_script(rng)
    value = gen.pick_u64(rng)
    for name, obj in entry_points(c, tx):
        held_scripts = held_vals = None
        for k, (what, idx, f, spks, vals, mode) in enumerate(plan):
            if held_scripts is None or mode == "fresh-lists" or len(held_scripts) != len(spks):
                # half of the time the caller's scripts are backed by bytearrays it owns
                ba = rng.random() < 0.5
                held_scripts = [Script(bytearray(s) if ba else s) for s in spks]
                held_vals = list(vals)
            else:
                # the caller keeps ITS list objects and edits them in place
                held_vals[:] = vals
                for j, s in enumerate(spks):
                    cur = held_scripts[j]
                    if mode == "same-bytes" and isinstance(cur.data, bytearray):
                        cur.data[:] = s                      # same Script, same bytearray, other bytes
                    elif mode == "same-scripts":
                        cur.data = s                         # same Script object, rebound data
                    elif bytes(cur.data) != s:
                        held_scripts[j] = Script(s)          # same list, other element
            t = tap_tokens(toks, idx, spks, vals, f, 0, None, None, 0xC0, None)
            info = {"entry": name, "algo": "taproot", "hist": "sighash.seq", "step": k, "change": what, "lists": mode,
                    "tx": toks[:5000], "idx": idx, "flag": f, "n_inputs": nin,
                    "history": [(w, i, fl, m) for (w, i, fl, _s, _v, m) in plan[:k + 1]]}
            c.count(("seq", name, t, k), nontrivial=k > 0)
            c.tally("seq:%s" % what)
            c.tally("seq-lists:%s" % mode)
            r = call(lambda: obj.sighash_taproot(idx, held_scripts, held_vals, f))
            c.expect("sighash.taproot " + t, r, info, proven=True)
            c.expect("sighash.taproot.spec " + t, r, dict(info, oracle="spec"), proven=True)
            if [bytes(x.data) for x in held_scripts] != spks or held_vals != vals:
                c.fail("sighash_taproot changed the caller's lists", dict(info, op="sighash.seq.args"))
            if k % 3 == 2:
                # the other algorithms in between, on the same object
                r = call(lambda: obj.sighash_segwit(idx, Script(sc), value, 1))
                c.expect("sighash.segwit.spec %s %d %s %d 1" % (toks, idx, hx(sc), value), r,
                         dict(info, algo="segwit", oracle="spec"), proven=True)
                r = call(lambda: obj.sighash_legacy(idx, Script(sc), 1))
                c.expect("sighash.legacy.spec %s %d %s 1" % (toks, idx, hx(sc)), r,
                         dict(info, algo="legacy", oracle="spec"), proven=True)


def explore(c, n, big):
    for k in range(n):
        tx = unsigned(c.rng, big=big and k % 40 == 7)
        small = len(tx.vin) <= 8
        flags = VALID + c.rng.sample(INVALID, 2) if small else [c.rng.choice(VALID), c.rng.choice(VALID)]
        check_tx(c, tx, flags)
        check_history(c, tx)
        if k % 3 == 0:
            # the transaction-object entry point on a (partially) signed transaction: scriptSigs and witnesses of the
            # other inputs are present and must not enter the digest (legacy blanks them; BIP143/341 never hash them)
            stx = gen.gen_tx(c.rng, max_in=5, max_out=4)
            c.tally("entry:tx-signed")
            check_tx(c, stx, c.rng.sample(VALID, 3) + c.rng.sample(INVALID, 1), eps=[("tx-signed", stx)])
        if k % 10 == 9:
            c.flush()
    c.flush()


# ---------------------------------------------------------------------------------------------------------------
# PSBT-level entry points (Props/C01X): PSBT.sighash and PSBTView.sighash

def p2pkh(h):
    return b"\x76\xa9\x14" + h + b"\x88\xac"


def plain_script(rng):
    """a non-empty script that is not of p2wpkh / p2wsh shape (so it is its own script code)"""
    while True:
        sc = gen.gen_script(rng)
        if len(sc) > 0 and not (len(sc) == 22 and sc[:2] == b"\x00\x14") and not (len(sc) == 34 and sc[:2] == b"\x00\x20"):
            return sc


KINDS = ["p2pkh", "p2sh", "p2wpkh", "p2sh-p2wpkh", "p2wsh", "p2sh-p2wsh", "p2tr", "p2wpkh+nwu", "bare"]


def gen_signable(rng, version, kinds=None):
    """PSBT whose every input has a utxo of a known script type. Returns (bytes, tx, [per input dict(kind, algo,
    scriptcode, value, spk)]) - the expected algorithm and script code come from the generator, not from embit."""
    tx = gen.gen_tx(rng, segwit=False, max_in=4, max_out=4)
    in_maps, meta = [], []
    for inp in tx.vin:
        inp.script_sig = Script(b"")
        kind = rng.choice(kinds or KINDS)
        value = gen.pick_u64(rng)
        h20, h32 = gen.rbytes(rng, 20), gen.rbytes(rng, 32)
        m = []
        if kind == "p2pkh":
            spk, algo, sc = p2pkh(h20), "legacy", p2pkh(h20)
        elif kind == "bare":
            spk = plain_script(rng)
            while Script(spk).script_type() is not None:
                spk = plain_script(rng)
            algo, sc = "legacy", spk
        elif kind == "p2sh":
            rs = plain_script(rng)
            spk, algo, sc = b"\xa9\x14" + h20 + b"\x87", "legacy", rs
            m.append((b"\x04", rs))
        elif kind in ("p2wpkh", "p2wpkh+nwu"):
            spk, algo, sc = b"\x00\x14" + h20, "segwit", p2pkh(h20)
        elif kind == "p2sh-p2wpkh":
            spk, algo, sc = b"\xa9\x14" + gen.rbytes(rng, 20) + b"\x87", "segwit", p2pkh(h20)
            m.append((b"\x04", b"\x00\x14" + h20))
        elif kind == "p2wsh":
            ws = plain_script(rng)
            spk, algo, sc = b"\x00\x20" + h32, "segwit", ws
            m.append((b"\x05", ws))
        elif kind == "p2sh-p2wsh":
            ws = plain_script(rng)
            spk, algo, sc = b"\xa9\x14" + h20 + b"\x87", "segwit", ws
            m.append((b"\x04", b"\x00\x20" + h32))
            m.append((b"\x05", ws))
        else:
            spk, algo, sc = b"\x51\x20" + h32, "taproot", None
        if algo == "legacy" or kind == "p2wpkh+nwu":
            prev = gen_psbt.gen_prev_tx(rng, 1)
            idx = rng.randrange(len(prev.vout))
            prev.vout[idx] = TransactionOutput(value, Script(spk))
            inp.txid = prev.txid()
            inp.vout = idx
            m.append((b"\x00", prev.serialize()))
            if kind == "p2wpkh+nwu":
                m.append((b"\x01", prev.vout[idx].serialize()))
        else:
            m.append((b"\x01", TransactionOutput(value, Script(spk)).serialize()))
        if rng.random() < 0.3:
            m.append((b"\x03", rng.choice([0, 1, 0x83]).to_bytes(4, "little")))
        m += gen_psbt.unknown_pairs(rng, "in")
        rng.shuffle(m)
        in_maps.append(m)
        meta.append({"kind": kind, "algo": algo, "scriptcode": sc, "value": value, "spk": spk})
    b = gen.build_psbt(tx, version, in_maps, None, [], explicit_seq=rng.random() < 0.7, rng=rng)
    return b, tx, meta


def extra_tokens(kw):
    return " ".join([str(kw.get("ext_flag", 0)), "None" if kw.get("annex") is None else hx(kw["annex"]),
                     "None" if kw.get("script") is None else hx(kw["script"].data), str(kw.get("leaf_version", 0xC0)),
                     "None" if kw.get("codeseparator_pos") is None else str(kw["codeseparator_pos"])])


def open_view(buf, off, vc):
    s = io.BytesIO(buf)
    s.seek(off)
    return PSBTView.view(s, compress=vc)


def check_entry_points(c, b, toks, nin, meta, flags, label, spec_version_toks=None):
    """PSBT.sighash / PSBTView.sighash on the bytes `b` for every input (and one index past the end)"""
    rng = c.rng
    pre = gen.rbytes(rng, rng.choice([0, 0, 1, 7, 300]))
    post = gen.rbytes(rng, rng.choice([0, 0, 3]))
    buf, off = pre + b + post, len(pre)
    leaf = gen.gen_script(rng)
    annex = b"\x50" + gen.rbytes(rng, rng.choice([0, 1, 40]))
    kws = [{}, {"ext_flag": 1, "script": Script(leaf), "leaf_version": rng.choice([0xC0, 0xC0, 0xC2])},
           {"annex": annex}, {"ext_flag": 1, "script": Script(leaf), "annex": annex, "codeseparator_pos": rng.choice([0, 5, 0xFFFF])}]
    taproot_here = meta is not None and any(m["algo"] == "taproot" for m in meta)
    for vc in ([0, 0, 1, 2] if rng.random() < 0.5 else [0]):
        p = None
        try:
            p = PSBT.parse(b, compress=vc)
        except Exception:
            pass
        for i in range(nin + 1):
            mi = meta[i] if (meta is not None and i < nin) else None
            for f in flags:
                for kw in (kws if (mi is None or mi["algo"] == "taproot") and rng.random() < 0.5 else kws[:1]):
                    xt = extra_tokens(kw)
                    info = {"entry": label, "mode": vc, "idx": i, "flag": f, "kind": mi and mi["kind"], "kwargs": xt,
                            "psbt": hx(b)[:6000], "offset": off}
                    rp = call(lambda: p.sighash(i, f, **kw)) if p is not None else "none"
                    rv = call(lambda: open_view(buf, off, vc).sighash(i, f, **kw))
                    c.count(("ep", label, vc, i, f, xt, b), nontrivial=True)
                    # taproot inputs: `psbt_sighash_taproot_consensus` holds for every hash type (spec `none` = refuse)
                    valid = mi is not None and p is not None and (mi["algo"] == "taproot" or f in VALID)
                    c.expect("psbt.sighash %d %d %d %s %s" % (vc, i, f, xt, hx(b)), rp, dict(info, entry="psbt:" + label),
                             proven=valid)
                    c.expect("view.sighash %d %d %d %d %s %s" % (off, vc, i, f, xt, hx(buf)), rv,
                             dict(info, entry="view:" + label), proven=valid)
                    c.tally("ep:%s:%s" % ("ok" if rp != "none" else "none", mi["algo"] if mi else "-"))
                    # the property on embit itself: both entry points give the same answer
                    if rp != rv:
                        c.fail("PSBTView.sighash differs from PSBT.sighash (input %d, flag %#x, mode %d)" % (i, f, vc),
                               dict(info, op="entry.points", psbt_digest=rp, view_digest=rv))
                    # ... and it is the consensus digest for the kind of input the generator built
                    if valid and toks is not None:
                        if mi["algo"] == "legacy":
                            line = "sighash.legacy.spec %s %d %s %d" % (toks, i, hx(mi["scriptcode"]), f)
                        elif mi["algo"] == "segwit":
                            line = "sighash.segwit.spec %s %d %s %d %d" % (toks, i, hx(mi["scriptcode"]), mi["value"], f)
                        else:
                            ext = kw.get("ext_flag", 0)
                            if ext != (1 if kw.get("script") is not None else 0):
                                continue
                            line = "sighash.taproot.spec " + tap_tokens(
                                toks, i, [m["spk"] for m in meta], [m["value"] for m in meta], f, ext, kw.get("annex"),
                                None if kw.get("script") is None else kw["script"].data, kw.get("leaf_version", 0xC0),
                                kw.get("codeseparator_pos"))
                        c.expect(line, rp, dict(info, entry="psbt:" + label, oracle="spec"), proven=True)
                        c.expect(line, rv, dict(info, entry="view:" + label, oracle="spec"), proven=True)


def check_view_algos(c, tx, b, label):
    """the view's own sighash_legacy / _segwit / _taproot on PSBT bytes vs the Lean model of exactly that code"""
    rng = c.rng
    toks = gen.tx_tokens(tx)
    nin = len(tx.vin)
    pre = gen.rbytes(rng, rng.choice([0, 1, 64]))
    buf, off = pre + b, len(pre)
    sc = gen.gen_script(rng)
    value = gen.pick_u64(rng)
    spks = [gen.rbytes(rng, rng.choice([22, 34, 25, 0])) for _ in range(nin)]
    values = [gen.pick_u64(rng) for _ in range(nin)]
    v = open_view(buf, off, 0)
    for i in sorted({0, nin - 1, nin, rng.randrange(nin)}):
        for f in VALID + [rng.choice(INVALID)]:
            valid = f in VALID and i < nin
            info = {"entry": "view-algo:" + label, "idx": i, "flag": f, "psbt": hx(b)[:6000], "offset": off}
            c.count(("va", label, i, f, b, sc), nontrivial=True)
            r = call(lambda: v.sighash_legacy(i, Script(sc), f))
            c.expect("view.sighash.legacy %d %d %s %d %s" % (off, i, hx(sc), f, hx(buf)), r, dict(info, algo="legacy"), proven=valid)
            r = call(lambda: v.sighash_segwit(i, Script(sc), value, f))
            c.expect("view.sighash.segwit %d %d %s %d %d %s" % (off, i, hx(sc), value, f, hx(buf)), r, dict(info, algo="segwit"),
                     proven=valid)
            leaf = gen.gen_script(rng)
            kw = rng.choice([{}, {"ext_flag": 1, "script": Script(leaf)}, {"annex": b"\x50\x01"}])
            # the view's copy of sighash_taproot: full statement too (every hash type, every list length, every index);
            # one case in four hands over a list of spent scripts of the wrong length
            spks_ = spks if rng.random() < 0.75 else rng.choice([spks[:-1], spks + [b"\x51"], []])
            r = call(lambda: v.sighash_taproot(i, [Script(s) for s in spks_], values, f, **kw))
            lst = " ".join([str(len(spks_))] + [hx(s) for s in spks_] + [str(len(values))] + [str(x) for x in values])
            tinfo = dict(info, algo="taproot", n_scripts=len(spks_), n_inputs=nin)
            c.expect("view.sighash.taproot %d %d %s %d %s %s" % (off, i, lst, f, extra_tokens(kw), hx(buf)), r,
                     tinfo, proven=True)
            c.expect("sighash.taproot.spec " + tap_tokens(
                toks, i, spks_, values, f, kw.get("ext_flag", 0), kw.get("annex"),
                None if kw.get("script") is None else kw["script"].data, kw.get("leaf_version", 0xC0),
                kw.get("codeseparator_pos")), r, dict(tinfo, oracle="spec"), proven=True)
            if r != "none" and (f not in TAP_VALID or len(spks_) != nin or i >= nin):
                c.fail("PSBTView.sighash_taproot returns a digest where BIP341 defines none (hash type %#x, %d scripts "
                       "for %d inputs, index %d)" % (f, len(spks_), nin, i), dict(tinfo, op="taproot.domain", digest=r))


def respend(rng, m, what):
    """another utxo of the SAME kind for the input described by `m` (the dispatch of PSBT.sighash must not change, the
    digest has to): returns (TransactionOutput, new meta)"""
    m = dict(m)
    if what in ("value", "both"):
        m["value"] = rng.choice([m["value"] ^ 1, (m["value"] + 1) % 2 ** 64, gen.pick_u64(rng)])
    if what in ("script", "both"):
        spk = m["spk"]
        if m["kind"] == "p2wpkh":
            h20 = gen.rbytes(rng, 20)
            m["spk"], m["scriptcode"] = b"\x00\x14" + h20, p2pkh(h20)
        elif rng.random() < 0.5:
            m["spk"] = spk[:-2] + bytes([spk[-2] ^ 0x01]) + spk[-1:]     # one bit inside the hash
        else:
            m["spk"] = spk[:2] + gen.rbytes(rng, len(spk) - 3) + spk[-1:] if spk[0] == 0xa9 else spk[:2] + gen.rbytes(rng, len(spk) - 2)
    return TransactionOutput(m["value"], Script(m["spk"])), m


def hist_kwargs(rng):
    """taproot kwargs of one history step: key path / other leaf scripts / other leaf versions / annex / codesep"""
    r = rng.randrange(6)
    if r == 0:
        return {}
    if r == 1:
        return {"annex": b"\x50" + gen.rbytes(rng, rng.choice([0, 1, 40]))}
    kw = {"ext_flag": 1, "script": Script(gen.gen_script(rng)), "leaf_version": rng.choice([0xC0, 0xC0, 0xC2, 0xFE])}
    if r == 2:
        kw["codeseparator_pos"] = rng.choice([0, 5, 0xFFFF])
    if r == 3:
        kw["annex"] = b"\x50" + gen.rbytes(rng, rng.choice([0, 3]))
    return kw


def spec_line(toks, meta, i, f, kw):
    mi = meta[i]
    if mi["algo"] == "legacy":
        return "sighash.legacy.spec %s %d %s %d" % (toks, i, hx(mi["scriptcode"]), f)
    if mi["algo"] == "segwit":
        return "sighash.segwit.spec %s %d %s %d %d" % (toks, i, hx(mi["scriptcode"]), mi["value"], f)
    return "sighash.taproot.spec " + tap_tokens(
        toks, i, [m["spk"] for m in meta], [m["value"] for m in meta], f, kw.get("ext_flag", 0), kw.get("annex"),
        None if kw.get("script") is None else kw["script"].data, kw.get("leaf_version", 0xC0), kw.get("codeseparator_pos"))


def constructed_psbt(b, tx, version):
    """a PSBT object built with the constructor (not parsed): scopes from the transaction, utxos / scripts assigned"""
    q = PSBT.parse(b)
    p = PSBT(Transaction(tx.version, [TransactionInput(v.txid, v.vout, Script(b""), v.sequence) for v in tx.vin],
                         [TransactionOutput(o.value, Script(o.script_pubkey.data)) for o in tx.vout], tx.locktime),
             version=(2 if version == 2 else None))
    for a, s in zip(p.inputs, q.inputs):
        a.witness_utxo, a.non_witness_utxo = s.witness_utxo, s.non_witness_utxo
        a.redeem_script, a.witness_script = s.redeem_script, s.witness_script
    return p


def check_psbt_history(c, b, tx, meta, version, steps=7):
    """`psbt.seq`: histories of `PSBT.sighash(i, sighash=f, **kwargs)` / `PSBTView.sighash(i, sighash=f, ...)` on ONE
    object (round 6 "still open"): a parsed PSBT, a constructed PSBT and one PSBTView are asked `steps` times in a row
    with other inputs, other flags (ANYONECANPAY variants included; for taproot also 0x80, where BIP341 has no digest)
    and, on taproot inputs, other leaf scripts / leaf versions / annexes - interleaved, so that whatever one call left
    behind (hash_prevouts / _sequence / _outputs / _amounts / _script_pubkeys, the view's offsets) meets a later call
    it does not belong to. PSBT objects are also MUTATED between two calls (another witness_utxo amount / script of
    one input, another sequence): the next answer has to be the digest of the PSBT as it is NOW - it is compared with
    the Lean model `psbt.sighash` on `p.serialize()` taken at that moment and, independently of embit's serialiser
    and dispatch, with the consensus spec on the generator's own record of the present fields. The view has no
    mutating API (its stream is the caller's); its history is query-only, over the original bytes."""
    rng = c.rng
    nin = len(tx.vin)
    if nin == 0:
        return
    pre = gen.rbytes(rng, rng.choice([0, 1, 7, 300]))
    buf, off = pre + b, len(pre)
    vc = rng.choice([0, 0, 1, 2])
    objs = [("psbt-parsed", PSBT.parse(b), True), ("psbt-constructed", constructed_psbt(b, tx, version), True)]
    try:
        objs.append(("psbt-parsed-mode%d" % vc, PSBT.parse(b, compress=vc), False))
    except Exception:
        pass
    objs.append(("view", open_view(buf, off, vc), False))
    for name, obj, mutable in objs:
        cur = Transaction(tx.version, [TransactionInput(v.txid, v.vout, Script(b""), v.sequence) for v in tx.vin],
                          list(tx.vout), tx.locktime)
        toks = gen.tx_tokens(cur)
        mt = [dict(m) for m in meta]
        now = obj.serialize() if name == "psbt-constructed" else b
        hist, asked = [], []
        for k in range(steps):
            change = "-"
            if mutable and k and rng.random() < 0.6:
                change = rng.choice(["value", "script", "both", "sequence", "sequence", "out-value", "locktime", "wscript"])
                if change == "out-value" and not cur.vout:
                    change = "sequence"
                wsh = [x for x in range(nin) if mt[x]["kind"] in ("p2wsh", "p2sh-p2wsh")]
                if change == "wscript" and not wsh:
                    change = "sequence"
                # the utxo can be replaced where the witness utxo is the only record of the spent output
                free = [x for x in range(nin) if obj.inputs[x].witness_utxo is not None and obj.inputs[x].non_witness_utxo is None]
                if change in ("value", "script", "both") and not free:
                    change = "sequence"
                if change == "out-value":
                    # another amount of one output (PSBT.tx is rebuilt from the output scopes)
                    j = rng.randrange(len(cur.vout))
                    nv = rng.choice([cur.vout[j].value ^ 1, gen.pick_u64(rng)])
                    obj.outputs[j].value = nv
                    cur.vout[j] = TransactionOutput(nv, cur.vout[j].script_pubkey)
                    toks = gen.tx_tokens(cur)
                elif change == "locktime":
                    j = 0
                    cur.locktime = rng.choice([cur.locktime ^ 1, 0, 1, 499999999, 500000000, 0xFFFFFFFF])
                    obj.locktime = cur.locktime
                    toks = gen.tx_tokens(cur)
                elif change == "wscript":
                    # another witness script = another BIP143 script code for that input
                    j = rng.choice(wsh)
                    ws = plain_script(rng)
                    obj.inputs[j].witness_script = Script(ws)
                    mt[j] = dict(mt[j], scriptcode=ws)
                else:
                    j = rng.randrange(nin) if change == "sequence" else rng.choice(free)
                inp = obj.inputs[min(j, nin - 1)]
                if change in ("out-value", "locktime", "wscript"):
                    pass
                elif change == "sequence":
                    s = cur.vin[j].sequence
                    s = rng.choice([s ^ 1, 0xFFFFFFFF, 0xFFFFFFFE, 0, gen.rbytes(rng, 4)[0] << 24 | 5])
                    if s == cur.vin[j].sequence:
                        s ^= 2
                    inp.sequence = s
                    cur.vin[j].sequence = s
                    toks = gen.tx_tokens(cur)
                else:
                    inp.witness_utxo, mt[j] = respend(rng, mt[j], change)
                change = "%s@%d" % (change, j)
                now = obj.serialize()
            i = rng.randrange(nin) if rng.random() < 0.93 else nin
            f = rng.choice(VALID)
            if hist and rng.random() < 0.3:
                # the SAME input and flag as in an earlier step (a memo keyed by (input, flag) alone would answer)
                i, f = rng.choice(asked)
            asked.append((i, f))
            mi = mt[i] if i < nin else None
            tap = mi is not None and mi["algo"] == "taproot"
            kw = hist_kwargs(rng) if (tap or mi is None) else {}
            xt = extra_tokens(kw)
            hist.append((change, i, "%#x" % f, xt[:40]))
            info = {"entry": "%s:v%d" % (name, version), "hist": "psbt.seq", "step": k, "change": change, "idx": i,
                    "flag": f, "kind": mi and mi["kind"], "kwargs": xt, "psbt": hx(now)[:6000], "history": list(hist)}
            r = call(lambda: obj.sighash(i, f, **kw))
            c.count(("pseq", name, k, i, f, xt, now), nontrivial=k > 0)
            c.tally("pseq:%s" % change.split("@")[0])
            c.tally("pseq-entry:%s" % name.split("-mode")[0])
            valid = mi is not None and (tap or f in VALID)
            if name == "view":
                c.expect("view.sighash %d %d %d %d %s %s" % (off, vc, i, f, xt, hx(buf)), r, info, proven=valid)
            else:
                c.expect("psbt.sighash %d %d %d %s %s" % (vc if not mutable else 0, i, f, xt, hx(now)), r, info, proven=valid)
            if valid:
                c.expect(spec_line(toks, mt, i, f, kw), r, dict(info, oracle="spec"), proven=True)
            if tap and f == 0x80 and r != "none":
                c.fail("sighash returns a digest for a taproot input and hash type 0x80", dict(info, op="psbt.seq.domain"))
            if mutable and k == steps - 1:
                # the object at the end of its history against a fresh parse of its own bytes
                r2 = call(lambda: PSBT.parse(now).sighash(i, f, **kw))
                if r2 != r:
                    c.fail("PSBT.sighash after a history of calls and mutations differs from a fresh parse of the same PSBT",
                           dict(info, op="psbt.seq.fresh", digest=r, fresh=r2))


def strip_v2_txversion(b):
    """a PSBTv2 without PSBT_GLOBAL_TX_VERSION (both entry points then sign nVersion 2)"""
    # walk the global scope with the harness's own reader: the pair is not necessarily the first one, and the
    # generator omits it now and then (then the PSBT is already what this function is to produce)
    pos = 5
    while pos < len(b) and b[pos] != 0:
        kl, p1 = gen_psbt.read_cs(b, pos)
        key = b[p1:p1 + kl]
        vl, p2 = gen_psbt.read_cs(b, p1 + kl)
        end = p2 + vl
        if key == b"\x02":
            return b[:pos] + b[end:]
        pos = end
    return b


def explore_entry_points(c, n):
    rng = c.rng
    for k in range(n):
        version = rng.choice([0, 2])
        b, tx, meta = gen_signable(rng, version, kinds=(["p2tr", "p2tr", "p2wpkh"] if k % 4 == 3 else None))
        toks = gen.tx_tokens(tx)
        flags = VALID + [rng.choice(INVALID)] if len(tx.vin) <= 2 else rng.sample(VALID, 3)
        c.tally("ep-psbt:v%d/in%d" % (version, len(tx.vin)))
        check_entry_points(c, b, toks, len(tx.vin), meta, flags, "signable-v%d" % version)
        check_view_algos(c, tx, b, "v%d" % version)
        check_psbt_history(c, b, tx, meta, version)
        if version == 2 and k % 3 == 0:
            # finding C01X-D46 (fixed): no tx version field -> both entry points must use nVersion 2
            t2 = Transaction(2, tx.vin, tx.vout, tx.locktime)
            c.tally("ep-psbt:v2-without-txversion")
            check_entry_points(c, strip_v2_txversion(b), gen.tx_tokens(t2), len(tx.vin), meta, flags[:3], "v2-no-txversion")
        # arbitrary field combinations (random utxo kinds, scripts that are not what the utxo commits to, missing
        # utxos): only the model comparison and "both entry points agree"
        g = gen_psbt.gen_psbt(rng)
        check_entry_points(c, g["bytes"], None, len(g["tx"].vin), None, rng.sample(VALID, 2), "random-v%d" % g["version"])
        if k % 5 == 4:
            c.flush()
    c.flush()


def classify_none(rec):
    return False


def run(tier, seed):
    c = Check(PROP, MODS, tier, seed)
    c.rule = ("seeded random unsigned transactions (1-6 inputs, 0-6 outputs, occasionally 252-300; boundary 32/64-bit fields) "
              "x every input index incl. >= number of outputs and >= number of inputs x the 8 valid flags (+ invalid ones) "
              "x {legacy, BIP143, BIP341 key path / script path / annex / codeseparator, one list of spent scripts / "
              "amounts of the wrong length per index and flag} x entry points {Transaction, "
              "PSBT v0, PSBT v2, PSBTView v0, PSBTView v2 at a stream offset}; distinct by content, non-trivial when "
              ">1 input or flag not in {DEFAULT, ALL} or taproot. Entry points: seeded PSBTs (v0 / v2 / v2 without tx version) "
              "whose inputs are p2pkh, bare, p2sh, p2wpkh, p2sh-p2wpkh, p2wsh, p2sh-p2wsh, p2tr (with non-witness and / or "
              "witness utxo), plus PSBTs with arbitrary field combinations; PSBT.sighash and PSBTView.sighash (stream "
              "offsets, reader modes 0/1/2, taproot kwargs) x every input x flags. Histories (`sighash.seq`): per transaction "
              "and entry point ONE object asked 6 times for the BIP341 digest with other lists of spent scripts / amounts of the "
              "same length (one amount, one script, both, back to the first, reversed; fresh lists, the caller's lists edited "
              "in place, Script objects rebound, bytearray-backed scripts edited byte by byte), legacy / BIP143 calls in "
              "between; every answer vs model and consensus spec. Histories (`psbt.seq`): per signable PSBT ONE parsed PSBT, ONE "
              "constructed PSBT, ONE PSBT parsed in a compressing reader mode and ONE PSBTView asked 7 times in a row through "
              "sighash(i, f, **kwargs) with other inputs, flags (ANYONECANPAY variants, 0x80 on taproot) and taproot leaf "
              "scripts / leaf versions / annexes; the two plain PSBT objects mutated between calls (witness_utxo of one input "
              "replaced: other amount / other script of the same kind; sequence of one input, amount of one output, locktime, "
              "witness script of a p2wsh input changed; 30 % of the steps repeat an earlier (input, flag) with other kwargs): every answer vs the "
              "model on the object's serialisation at that moment and vs the consensus spec on the generator's record")
    c.assumptions = ["taproot: hash type 0x80 and lists of spent scripts / amounts of the wrong length have no BIP341 digest; "
                     "embit, model and spec all have to refuse (compared with the spec, proven=True)",
                     "scriptCode is an argument (OP_CODESEPARATOR / FindAndDelete are the caller's, as in embit)"]
    c.build_and_audit()
    explore(c, 30 if tier == "quick" else 600, big=(tier != "quick"))
    explore_entry_points(c, 16 if tier == "quick" else 300)
    return c.finish(search=lambda cc: (explore(cc, 100, False), explore_entry_points(cc, 40)))


def replay(path):
    r = json.load(open(path))
    print(json.dumps({k: r[k] for k in ("op", "info", "impl", "model") if k in r}, indent=1)[:3000])
    if "request" in r:
        print("model now:", run_driver([r["request"]])[0])
    return 0
