"""C10 — key encodings (SEC, x-only, WIF, xpub/xprv) round-trip and validate strictly.

Theorems: lean/EmbitModel/Props/C10.lean (sec / wif / xkey round trips over the generated network table, x-only is the
32-byte X coordinate, one rejection theorem per class). Tie: every case runs on embit under BOTH secp256k1 backends and on
the Lean model (ops of Driver/Keys.lean) and the Lean encodings spec; round trips and rejections are also evaluated directly
on embit (`c.fail`), with an independent integer-arithmetic curve test for "off-curve"."""
import json
import os

from core import Check, hx, VERIF, run_driver
import facts
import keyshared as ks
from keyshared import (ec, bip32, base58, NETWORKS, NETKEYS, N, P, H, on_backends, guarded, BACKENDS, show_hd, show_priv,
                       show_pub, spec_tokens, spec_key_tokens, mk_hd, mk_key, opt, rbytes)

PROP = "C10"
MODS = ["EmbitModel.Props.C10", "EmbitModel.Props.C10X", "EmbitModel.Props.C10Y"]


# ec_pubkey_parse of the pure-Python backend accepts coordinates >= p (C08's finding D10)
def py_backend_coordinate_range(rec):
    i = rec.get("info", rec)
    return i.get("backend") == "py" and i.get("klass") in ("x>=p", "y>=p")


def expect_backends(c, line, answers, info, proven=True):
    for name, ans in answers:
        c.expect(line, ans, dict(info, backend=name), proven=proven)


def must_reject(c, answers, what, info):
    for name, ans in answers:
        if ans != "none":
            c.fail(what, dict(info, backend=name, got=ans))


# ------------------------------------------------------------------ SEC public keys

def impl_sec_parse(b):
    k = ec.PublicKey.parse(b)
    return "ok %s %s" % (show_pub(k), hx(ec.PublicKey(k._point, False).sec()))


def sec_parse_case(c, b, klass, valid=None, info=None):
    """valid: True (must be accepted), False (must be rejected), None (compare with the model only)"""
    info = dict(info or {}, bytes=hx(b), klass=klass)
    answers = on_backends(lambda: impl_sec_parse(b))
    c.count(("sec.parse", b), nontrivial=True)
    c.tally("sec.parse:%s:%s" % (klass, "accepted" if answers[0][1] != "none" else "rejected"))
    expect_backends(c, "sec.parse " + hx(b), answers, info)
    c.expect("spec.secdec " + hx(b), answers[0][1] if answers[0][1] == "none" else " ".join(answers[0][1].split()[:3]),
             dict(info, backend=answers[0][0], check="spec"), proven=True, op="spec.secdec")
    if valid is False:
        must_reject(c, answers, "invalid SEC public key accepted (%s)" % klass, dict(info, op="sec.parse"))
    if valid is True:
        for name, ans in answers:
            if ans == "none":
                c.fail("valid SEC public key rejected", dict(info, backend=name, op="sec.parse"))


def small_curve_xs():
    """x < 2^256 - p on the curve: x + p still fits 32 bytes"""
    return [x for x in range(1, 60) if ks.is_on_curve_x(x)]


def sec_block(c, n):
    small = small_curve_xs()
    for k in range(n):
        secret = ks.gen_secret_parity(c.rng, k % 2 == 0)
        for compressed in (True, False):
            sec = ks.sec_of(secret, compressed)
            info = {"secret": hx(secret), "compressed": compressed}
            # encode: embit vs model vs SEC1 spec, then decode unchanged (flag included)
            enc = on_backends(lambda: "ok " + hx(ec.PrivateKey(secret, compressed).get_public_key().sec()))
            expect_backends(c, "sec.ser %s %d" % (hx(ks.sec_of(secret)), int(compressed)), enc, info)
            expect_backends(c, "spec.sec %s %d" % (hx(ks.sec_of(secret)), int(compressed)), enc, dict(info, check="spec"))
            for name, ans in on_backends(lambda: impl_sec_parse(sec)):
                want = "ok %s %d %s" % (hx(sec), int(compressed), hx(ks.sec_of(secret, False)))
                if ans != want:
                    c.fail("SEC encode-then-decode is not the identity", dict(info, backend=name, op="sec.roundtrip", got=ans, want=want))
            sec_parse_case(c, sec, "valid", True, info)
            x = int.from_bytes(sec[1:33], "big")
            # truncation / extension
            for cut in sorted({0, 1, 2, 32, len(sec) - 1, c.rng.randrange(0, len(sec))}):
                sec_parse_case(c, sec[:cut], "truncated", False, info)
            sec_parse_case(c, sec + rbytes(c.rng, c.rng.choice([1, 1, 2, 32])), "extended", False, info)
            if compressed:
                sec_parse_case(c, sec + ks.sec_of(secret, False)[33:], "compressed-prefix-on-65", False, info)
            # prefix substitution
            for pre in [0, 1, 5, 6, 7, 8, 0x80, 0xff] + ([4] if compressed else [2, 3]):
                sec_parse_case(c, bytes([pre]) + sec[1:], "prefix-%02x" % pre, False, info)
            if compressed:
                other = bytes([5 - sec[0]]) + sec[1:]
                sec_parse_case(c, other, "parity-flipped", True, info)
            # coordinate substitution
            for _ in range(3):
                x2 = c.rng.randrange(0, P)
                ok = ks.is_on_curve_x(x2)
                if compressed:
                    sec_parse_case(c, sec[:1] + x2.to_bytes(32, "big"), "x-random-" + ("on" if ok else "off"), ok, info)
                else:
                    sec_parse_case(c, b"\x04" + x2.to_bytes(32, "big") + sec[33:], "x-substituted", False, info)
            for x2, kl in [(0, "x=0"), (P - 1, "x=p-1"), (P, "x>=p"), (P + 1, "x>=p"), (2 ** 256 - 1, "x>=p"), (x ^ 1, "x-bitflip")]:
                if compressed:
                    valid = ks.is_on_curve_x(x2)
                    sec_parse_case(c, sec[:1] + x2.to_bytes(32, "big"), kl, valid, info)
                else:
                    sec_parse_case(c, b"\x04" + x2.to_bytes(32, "big") + sec[33:], kl, False, info)
            if not compressed:
                y = int.from_bytes(sec[33:], "big")
                for y2, kl, valid in [((y + 1) % P, "y+1", False), (P - y, "y-negated", True), (0, "y=0", False),
                                      (c.rng.randrange(0, P), "y-random", False), (y ^ (1 << c.rng.randrange(256)), "y-bitflip", False)]:
                    if y2 < 2 ** 256:
                        sec_parse_case(c, sec[:33] + y2.to_bytes(32, "big"), kl, valid, info)
                if y + P < 2 ** 256:
                    sec_parse_case(c, sec[:33] + (y + P).to_bytes(32, "big"), "y>=p", False, info)
        if k % 10 == 9:
            c.flush()
    # reduced-mod-p aliases of small curve points: x + p and y + p fit 32 bytes and must be rejected
    for x in small:
        for odd in (0, 1):
            y = ks.lift(x, odd)
            sec_parse_case(c, bytes([2 + odd]) + x.to_bytes(32, "big"), "valid-small-x", True)
            sec_parse_case(c, bytes([2 + odd]) + (x + P).to_bytes(32, "big"), "x>=p", False)
            sec_parse_case(c, b"\x04" + (x + P).to_bytes(32, "big") + y.to_bytes(32, "big"), "x>=p", False)
            sec_parse_case(c, b"\x04" + x.to_bytes(32, "big") + y.to_bytes(32, "big"), "valid-small-x", True)
    # stream reading: the rest of the stream is left alone
    for _ in range(n):
        secret = ks.gen_secret(c.rng)
        sec = ks.sec_of(secret, c.rng.random() < 0.5)
        rest = rbytes(c.rng, c.rng.randrange(0, 40))

        def rd():
            from io import BytesIO
            s = BytesIO(sec + rest)
            k = ec.PublicKey.read_from(s)
            return "ok %s %s" % (show_pub(k), hx(s.read()))
        expect_backends(c, "sec.read " + hx(sec + rest), on_backends(rd), {"bytes": hx(sec + rest)}, proven=False)
        c.count(("sec.read", sec, rest), nontrivial=True)

        # what was read re-encodes to the consumed prefix of the stream (C10X.sec_read_from_sound)
        def rd_sound():
            from io import BytesIO
            st = BytesIO(sec + rest)
            k = ec.PublicKey.read_from(st)
            return k.sec() + st.read() == sec + rest
        for name, ok in on_backends(rd_sound):
            if ok is not True:
                c.fail("PublicKey.read_from: encoding of the key + unread rest is not the stream",
                       {"bytes": hx(sec + rest), "backend": name, "op": "sec.read.sound", "got": str(ok)})
    # unstructured bytes
    for _ in range(4 * n):
        ln = c.rng.choice([0, 1, 32, 33, 33, 34, 64, 65, 65, 66])
        b = rbytes(c.rng, ln)
        if ln and c.rng.random() < 0.7:
            b = bytes([c.rng.choice([2, 3, 4, 6, 7])]) + b[1:]
        sec_parse_case(c, b, "random", None)
    c.flush()


# ------------------------------------------------------------------ x-only

def xonly_block(c, n):
    for k in range(n):
        secret = ks.gen_secret_parity(c.rng, k % 2 == 0)
        x = ks.sec_of(secret)[1:33]
        for compressed in (True, False):
            info = {"secret": hx(secret), "compressed": compressed}
            a_pub = on_backends(lambda: "ok " + hx(ec.PrivateKey(secret, compressed).get_public_key().xonly()))
            a_priv = on_backends(lambda: "ok " + hx(ec.PrivateKey(secret, compressed).xonly()))
            c.count(("xonly", secret, compressed), nontrivial=True)
            c.tally("xonly:" + ("compressed" if compressed else "uncompressed"))
            expect_backends(c, "xonly.pub " + hx(ks.sec_of(secret, compressed)), a_pub, info)
            expect_backends(c, "xonly.priv %s %d 0" % (hx(secret), int(compressed)), a_priv, info)
            for what, answers in (("PublicKey", a_pub), ("PrivateKey", a_priv)):
                for name, ans in answers:
                    if ans != "ok " + hx(x):
                        c.fail("%s.xonly() is not the 32-byte X coordinate" % what,
                               dict(info, backend=name, op="xonly", which=what, got=ans, want=hx(x)))
        # HDKey.xonly
        s = ks.gen_parent(c.rng)
        want = (ks.sec_of(s["key"]) if s["kind"] == "prv" else s["key"])[1:33]
        for name, ans in on_backends(lambda: hx(mk_hd(s).xonly())):
            if ans != hx(want):
                c.fail("HDKey.xonly() is not the 32-byte X coordinate", dict(ks.info_of(s), backend=name, op="xonly", got=ans))
        # from_xonly
        for data, kl in [(x, "valid"), (x[:31], "short"), (x + b"\x00", "long"), (b"", "empty"),
                         (c.rng.randrange(0, P).to_bytes(32, "big"), "random"), (P.to_bytes(32, "big"), "x>=p"),
                         ((P + 7).to_bytes(32, "big"), "x>=p")]:
            ans = on_backends(lambda: "ok " + show_pub(ec.PublicKey.from_xonly(data)))
            c.count(("fromxonly", data), nontrivial=True)
            c.tally("fromxonly:" + kl)
            expect_backends(c, "sec.fromxonly " + hx(data), ans, {"data": hx(data), "klass": kl})
            if len(data) != 32 or not ks.is_on_curve_x(int.from_bytes(data, "big")):
                must_reject(c, ans, "from_xonly accepted an invalid X coordinate (%s)" % kl, {"op": "fromxonly", "data": hx(data), "klass": kl})
            # whatever is accepted is the even-Y compressed key with exactly this x-only encoding (C10X.from_xonly_sound)
            for name, mod in BACKENDS:
                with ks.backend(mod):
                    k = guarded(lambda: ec.PublicKey.from_xonly(data))
                    if isinstance(k, str):
                        continue
                    if k.xonly() != data or not k.compressed or k.sec()[0] != 2:
                        c.fail("from_xonly: accepted key does not re-encode to the input / is not the even-Y key",
                               {"op": "fromxonly.sound", "data": hx(data), "backend": name, "got": hx(k.sec())})
    c.flush()


# ------------------------------------------------------------------ private keys, WIF

BAD_SCALARS = [(0, "scalar=0"), (N, "scalar=n"), (N + 1, "scalar=n+1"), (2 ** 256 - 1, "scalar=max")]


def priv_block(c, n):
    for v, kl in BAD_SCALARS + [(1, "scalar=1"), (N - 1, "scalar=n-1")]:
        b = v.to_bytes(32, "big")
        ans = on_backends(lambda: "ok " + show_priv(ec.PrivateKey(b)))
        c.count(("priv.init", b), nontrivial=True)
        c.tally("priv.init:" + kl)
        expect_backends(c, "priv.init %s 1 0" % hx(b), ans, {"secret": hx(b), "klass": kl})
        if not 0 < v < N:
            must_reject(c, ans, "PrivateKey accepted an invalid scalar (%s)" % kl, {"op": "priv.init", "secret": hx(b)})
    for _ in range(n):
        ln = c.rng.choice([0, 1, 31, 32, 32, 33, 64])
        b = rbytes(c.rng, ln)
        comp = c.rng.random() < 0.5
        net = c.rng.randrange(len(NETKEYS))
        ans = on_backends(lambda: "ok " + show_priv(ec.PrivateKey(b, comp, NETWORKS[NETKEYS[net]])))
        c.count(("priv.init", b, comp, net), nontrivial=True)
        c.tally("priv.init:len%d" % ln)
        expect_backends(c, "priv.init %s %d %d" % (hx(b), int(comp), net), ans, {"secret": hx(b)})
        if ln != 32:
            must_reject(c, ans, "PrivateKey accepted a secret of the wrong length", {"op": "priv.init", "secret": hx(b)})
        ans = on_backends(lambda: "ok " + show_priv(ec.PrivateKey.parse(b)))
        expect_backends(c, "priv.parse " + hx(b), ans, {"secret": hx(b)})
    c.flush()


def impl_wif_dec(text):
    return "ok " + show_priv(ec.PrivateKey.from_wif(text))


def wif_dec_case(c, text, klass, valid=None, info=None):
    info = dict(info or {}, text=text, klass=klass)
    b = text.encode()
    answers = on_backends(lambda: impl_wif_dec(text))
    c.count(("wif.dec", text), nontrivial=True)
    c.tally("wif.dec:%s:%s" % (klass, "accepted" if answers[0][1] != "none" else "rejected"))
    expect_backends(c, "wif.dec " + hx(b), answers, info)
    if valid is False:
        must_reject(c, answers, "invalid WIF accepted (%s)" % klass, dict(info, op="wif.dec"))
    # whatever is accepted re-encodes to the same text (C10X.wif_parse_sound)
    for name, mod in BACKENDS:
        with ks.backend(mod):
            k = guarded(lambda: ec.PrivateKey.from_wif(text))
            if isinstance(k, str):
                continue
            back = guarded(lambda: k.wif())
            if back != text:
                c.fail("accepted WIF does not re-encode to itself", dict(info, backend=name, op="wif.reencode", got=str(back)[:120]))


def b58_mutate(rng, text):
    """another base58 string of the same length (checksum almost surely wrong)"""
    pos = rng.randrange(len(text))
    ch = rng.choice([x for x in base58.B58_DIGITS if x != text[pos]])
    return text[:pos] + ch + text[pos + 1:]


def wif_block(c, n):
    prefixes = sorted({NETWORKS[k]["wif"] for k in NETKEYS})
    # the optional compression flag follows the secret: secrets whose last (and first) byte takes the flag's own
    # values 0x01 / 0x00 are always present, so that a decoder reading the flag from the wrong position is seen
    edge = [(1).to_bytes(32, "big"), (0x0100).to_bytes(32, "big"),
            ks.rbytes(c.rng, 31) + b"\x01", b"\x01" + ks.rbytes(c.rng, 30) + b"\x01",
            ks.rbytes(c.rng, 31) + b"\x00", b"\x80" + ks.rbytes(c.rng, 30) + b"\x01"]
    edge = [e for e in edge if 0 < int.from_bytes(e, "big") < ks.N]
    for k in range(n + len(edge)):
        secret = edge[k] if k < len(edge) else ks.gen_secret(c.rng)
        for compressed in (True, False):
            for ni, nk in enumerate(NETKEYS):
                net = NETWORKS[nk]
                info = {"secret": hx(secret), "compressed": compressed, "net": nk}
                enc = on_backends(lambda: "ok " + hx(ec.PrivateKey(secret, compressed, net).wif().encode()))
                c.count(("wif.enc", secret, compressed, nk), nontrivial=True)
                c.tally("wif.enc:%s:%s" % (nk, "compressed" if compressed else "uncompressed"))
                expect_backends(c, "wif.enc %s %d %d None" % (hx(secret), int(compressed), ni), enc, info)
                expect_backends(c, "spec.wif %s %s %d" % (hx(net["wif"]), hx(secret), int(compressed)), enc, dict(info, check="spec"))
                # explicit network argument
                other = c.rng.randrange(len(NETKEYS))
                enc2 = on_backends(lambda: "ok " + hx(ec.PrivateKey(secret, compressed, net).wif(NETWORKS[NETKEYS[other]]).encode()))
                expect_backends(c, "wif.enc %s %d %d %d" % (hx(secret), int(compressed), ni, other), enc2, info)
                # round trip: secret, compression flag, network (as far as the version byte tells)
                text = ec.PrivateKey(secret, compressed, net).wif()
                for name, mod in BACKENDS:
                    with ks.backend(mod):
                        back = guarded(lambda: ec.PrivateKey.from_wif(text))
                    if isinstance(back, str):
                        c.fail("valid WIF rejected", dict(info, backend=name, op="wif.roundtrip", text=text))
                        continue
                    same_net = back.network is not None and back.network["wif"] == net["wif"]
                    unique = [x for x in NETKEYS if NETWORKS[x]["wif"] == net["wif"]]
                    if len(unique) == 1:
                        same_net = back.network is net
                    if back._secret != secret or back.compressed != compressed or not same_net or back.wif() != text:
                        c.fail("WIF encode-then-decode is not the identity (secret / compression flag / network)",
                               dict(info, backend=name, op="wif.roundtrip", text=text, got=show_priv(back)))
                if ni < 2 or k == 0:
                    wif_dec_case(c, text, "valid", None, info)
        # corruptions (re-encoded with a correct checksum unless said otherwise)
        net = NETWORKS[c.rng.choice(NETKEYS)]
        compressed = c.rng.random() < 0.5
        payload = net["wif"] + secret + (b"\x01" if compressed else b"")
        text = base58.encode_check(payload)
        info = {"secret": hx(secret), "compressed": compressed}
        for cut in sorted({0, 1, 2, 32, len(payload) - 1, c.rng.randrange(0, len(payload))}):
            if compressed and cut == 33:
                continue            # dropping the flag byte of a compressed WIF is the valid uncompressed WIF
            wif_dec_case(c, base58.encode_check(payload[:cut]), "truncated", False, info)
        ext = payload + (rbytes(c.rng, 1) if compressed else bytes([c.rng.choice([0, 2, 3, 0x80, 0xff])]))
        wif_dec_case(c, base58.encode_check(ext), "extended", False, info)
        wif_dec_case(c, base58.encode_check(payload + rbytes(c.rng, 3)), "extended", False, info)
        if compressed:
            for flag in [0, 2, 0x81, 0xff]:
                wif_dec_case(c, base58.encode_check(payload[:-1] + bytes([flag])), "flag-%02x" % flag, False, info)
        for v, kl in BAD_SCALARS:
            wif_dec_case(c, base58.encode_check(payload[:1] + v.to_bytes(32, "big") + payload[33:]), kl, False, info)
        for pre in [0x00, 0x05, 0x6f, 0xc4, 0x04, 0x7f, 0x81, 0xee, 0xf0, c.rng.randrange(256)]:
            known = bytes([pre]) in prefixes
            wif_dec_case(c, base58.encode_check(bytes([pre]) + payload[1:]), "prefix-" + ("known" if known else "unknown"),
                         None if known else False, info)
        wif_dec_case(c, base58.encode_check(b""), "empty-payload", False, info)
        # bad checksum
        for _ in range(3):
            wif_dec_case(c, b58_mutate(c.rng, text), "bad-checksum", False, info)
        raw = base58.decode(text)
        wif_dec_case(c, base58.encode(raw[:-1] + bytes([raw[-1] ^ 1])), "bad-checksum", False, info)
        wif_dec_case(c, base58.encode(raw[:-4]), "checksum-dropped", False, info)
        wif_dec_case(c, text[:-1], "text-truncated", False, info)
        wif_dec_case(c, text + c.rng.choice(base58.B58_DIGITS), "text-extended", False, info)
        wif_dec_case(c, text[:5] + c.rng.choice("0OIl ") + text[6:], "not-base58", False, info)
        wif_dec_case(c, "", "empty-text", False, info)
        if k % 10 == 9:
            c.flush()
    c.flush()


# ------------------------------------------------------------------ extended keys

def impl_xkey_parse(b):
    return "ok " + show_hd(bip32.HDKey.parse(b))


def xkey_parse_case(c, b, klass, valid=None, info=None):
    info = dict(info or {}, bytes=hx(b), klass=klass)
    answers = on_backends(lambda: impl_xkey_parse(b))
    c.count(("xkey.parse", b), nontrivial=True)
    c.tally("xkey.parse:%s:%s" % (klass, "accepted" if answers[0][1] != "none" else "rejected"))
    expect_backends(c, "xkey.parse " + hx(b), answers, info)
    if valid is False:
        must_reject(c, answers, "invalid extended key accepted (%s)" % klass, dict(info, op="xkey.parse"))
    if valid is True:
        for name, ans in answers:
            if ans == "none":
                c.fail("valid extended key rejected", dict(info, backend=name, op="xkey.parse"))
    # whatever is accepted re-encodes to the same bytes and carries the right kind of version text
    for name, mod in BACKENDS:
        with ks.backend(mod):
            k = guarded(lambda: bip32.HDKey.parse(b))
            if isinstance(k, str):
                continue
            if k.serialize() != b:
                c.fail("accepted extended key does not re-encode to itself", dict(info, backend=name, op="xkey.reencode", got=hx(k.serialize())))
            t = base58.encode_check(b)
            if t[1:4] != ("prv" if k.is_private else "pub"):
                c.fail("accepted extended key whose text says the other kind", dict(info, backend=name, op="xkey.kind", text=t))


def xkey_text_case(c, text, klass, valid=None, info=None):
    info = dict(info or {}, text=text, klass=klass)
    answers = on_backends(lambda: "ok " + show_hd(bip32.HDKey.from_base58(text)))
    c.count(("xkey.fromb58", text), nontrivial=True)
    c.tally("xkey.fromb58:%s:%s" % (klass, "accepted" if answers[0][1] != "none" else "rejected"))
    expect_backends(c, "xkey.fromb58 " + hx(text.encode()), answers, info)
    if valid is False:
        must_reject(c, answers, "invalid extended key text accepted (%s)" % klass, dict(info, op="xkey.fromb58"))


def xkey_block(c, n):
    table = ks.all_versions()
    # every SLIP-132 prefix of every network, private and public
    todo = []
    for (net, name, ver, private) in table:
        todo.append((ver, private, "%s:%s" % (net, name)))
    for k in range(n):
        ver, private, tag = todo[k % len(todo)] if k < 2 * len(todo) else c.rng.choice(todo)
        s = ks.gen_parent(c.rng, private=private)
        s["ver"] = ver
        if s["depth"] == 0:
            s["fp"], s["cn"] = bytes(4), 0        # a VALID key: a master key has no parent and no index
        info = dict(ks.info_of(s), version_name=tag)
        ser = on_backends(lambda: "ok " + hx(mk_hd(s).serialize()))
        c.count(("xkey", spec_tokens(s)), nontrivial=True)
        c.tally("xkey:" + tag.split(":")[1] + ":depth%s" % ("0" if s["depth"] == 0 else "255" if s["depth"] == 255 else "n"))
        expect_backends(c, "xkey.ser %s None" % spec_tokens(s), ser, info)
        # the BIP32 serialization format as oracle
        if private:
            sl = "spec.xprv %s %d %s %d %s %s" % (hx(ver), s["depth"], hx(s["fp"]), s["cn"], hx(s["cc"]), hx(s["key"]))
        else:
            sl = "spec.xpub %s %d %s %d %s %s" % (hx(ver), s["depth"], hx(s["fp"]), s["cn"], hx(s["cc"]), hx(s["key"]))
        expect_backends(c, sl, ser, dict(info, check="spec"))
        if ser[0][1] == "none":
            c.fail("a valid HD key cannot be serialised", dict(info, op="xkey.ser"))
            continue
        b = bytes.fromhex(ser[0][1].split()[1])
        text = guarded(lambda: mk_hd(s).to_base58())
        expect_backends(c, "xkey.b58 %s None" % spec_tokens(s), on_backends(lambda: "ok " + hx(mk_hd(s).to_base58().encode())), info)
        # round trips: bytes and text, every field
        want = "ok " + spec_tokens(s)
        for name, ans in on_backends(lambda: impl_xkey_parse(b)):
            if ans != want:
                c.fail("extended key encode-then-decode is not the identity", dict(info, backend=name, op="xkey.roundtrip", got=ans, want=want))
        for name, ans in on_backends(lambda: "ok " + show_hd(bip32.HDKey.from_base58(text))):
            if ans != want:
                c.fail("extended key text encode-then-decode is not the identity", dict(info, backend=name, op="xkey.roundtrip-text", got=ans, want=want))
        xkey_parse_case(c, b, "valid", True, info)
        if k % 4 == 0:
            xkey_text_case(c, text, "valid", None, info)
        # to_base58 / serialize with an explicit version
        for (net2, name2, ver2, private2) in c.rng.sample(table, 3):
            a = on_backends(lambda: "ok " + hx(mk_hd(s).to_base58(ver2).encode()))
            expect_backends(c, "xkey.b58 %s %s" % (spec_tokens(s), hx(ver2)), a, dict(info, explicit=hx(ver2)))
            if private2 != private:
                must_reject(c, a, "to_base58 with a version of the wrong kind", dict(info, op="xkey.b58", explicit=hx(ver2)))
        # ---- corruptions
        if k % 2 == 0:
            for cut in sorted({0, 3, 4, 5, 9, 13, 45, 46, 77, c.rng.randrange(0, 78)}):
                xkey_parse_case(c, b[:cut], "truncated", False, info)
            xkey_parse_case(c, b + rbytes(c.rng, c.rng.choice([1, 1, 4, 33])), "extended", False, info)
            xkey_text_case(c, base58.encode_check(b[:77]), "truncated", False, info)
            xkey_text_case(c, base58.encode_check(b + b"\x00"), "extended", False, info)
            # version substitution
            for (net2, name2, ver2, private2) in c.rng.sample(table, 4):
                xkey_parse_case(c, ver2 + b[4:], "version-" + ("same-kind" if private2 == private else "wrong-kind"),
                                True if private2 == private else False, info)
            for ver2 in [rbytes(c.rng, 4), bytes(4), b"\xff" * 4, bytes([ver[0], ver[1], ver[2], ver[3] ^ 1]),
                         bytes([ver[0], ver[1] ^ 0x10, ver[2], ver[3]])]:
                xkey_parse_case(c, ver2 + b[4:], "version-unknown", None, info)
            # depth 0 with a parent fingerprint or an index
            if s["fp"] != bytes(4) or s["cn"] != 0:
                xkey_parse_case(c, b[:4] + b"\x00" + b[5:], "depth0-with-parent-or-index", False, info)
            z = b[:4] + b"\x00" + bytes(8) + b[13:]
            xkey_parse_case(c, z, "depth0-clean", True, info)
            xkey_parse_case(c, z[:5] + rbytes(c.rng, 3) + b"\x01" + z[9:], "depth0-with-parent", False, info)
            xkey_parse_case(c, z[:5] + b"\x00\x00\x00\x01" + z[9:], "depth0-with-parent", False, info)
            xkey_parse_case(c, z[:9] + b"\x00\x00\x00\x01" + z[13:], "depth0-with-index", False, info)
            xkey_parse_case(c, z[:9] + b"\x80\x00\x00\x00" + z[13:], "depth0-with-index", False, info)
            xkey_parse_case(c, z[:9] + ks.gen_index(c.rng).to_bytes(4, "big").replace(bytes(4), b"\x00\x00\x00\x07") + z[13:],
                            "depth0-with-index", False, info)
            # key field
            if private:
                for pad in [1, 2, 3, 4, 0x80, 0xff]:
                    xkey_parse_case(c, b[:45] + bytes([pad]) + b[46:], "private-pad-%02x" % pad, None if pad in (2, 3) else False, info)
                for v, kl in BAD_SCALARS:
                    xkey_parse_case(c, b[:46] + v.to_bytes(32, "big"), kl, False, info)
                # public key under the private version and vice versa
                xkey_parse_case(c, b[:45] + ks.sec_of(s["key"]), "public-key-under-private-version", False, info)
            else:
                xkey_parse_case(c, b[:45] + b"\x00" + ks.gen_secret(c.rng), "private-key-under-public-version", False, info)
                for pre in [4, 5, 6, 7, 1, 0xff]:
                    xkey_parse_case(c, b[:45] + bytes([pre]) + b[46:], "pubkey-prefix-%02x" % pre, False, info)
                xkey_parse_case(c, b[:45] + bytes([5 - b[45]]) + b[46:], "pubkey-parity-flipped", True, info)
                for x2, kl in [(0, "x=0"), (P, "x>=p"), (P + 1, "x>=p"), (2 ** 256 - 1, "x>=p"), (c.rng.randrange(P), "x-random")]:
                    xkey_parse_case(c, b[:46] + x2.to_bytes(32, "big"), kl, ks.is_on_curve_x(x2), info)
                for x in small_curve_xs()[:2]:
                    xkey_parse_case(c, b[:46] + (x + P).to_bytes(32, "big"), "x>=p", False, info)
            # bad checksum
            for _ in range(2):
                xkey_text_case(c, b58_mutate(c.rng, text), "bad-checksum", False, info)
            raw = base58.decode(text)
            xkey_text_case(c, base58.encode(raw[:-2] + bytes([raw[-2] ^ 0x40]) + raw[-1:]), "bad-checksum", False, info)
            xkey_text_case(c, text[:-1], "text-truncated", False, info)
            xkey_text_case(c, text[:7] + c.rng.choice("0OIl") + text[8:], "not-base58", False, info)
        if k % 10 == 9:
            c.flush()
    # stream reading leaves the rest
    for _ in range(max(4, n // 8)):
        s = ks.gen_parent(c.rng)
        if s["depth"] == 0:
            s["fp"], s["cn"] = bytes(4), 0
        b = mk_hd(s).serialize()
        rest = rbytes(c.rng, c.rng.randrange(0, 50))

        def rd():
            from io import BytesIO
            st = BytesIO(b + rest)
            k = bip32.HDKey.read_from(st)
            return "ok %s %s" % (show_hd(k), hx(st.read()))
        expect_backends(c, "xkey.read " + hx(b + rest), on_backends(rd), {"bytes": hx(b + rest)}, proven=False)
        c.count(("xkey.read", b, rest), nontrivial=True)
    # random bytes of about the right size
    for _ in range(n):
        ln = c.rng.choice([77, 78, 78, 78, 79])
        b = rbytes(c.rng, ln)
        if c.rng.random() < 0.7:
            b = c.rng.choice(table)[2] + b[4:]
        xkey_parse_case(c, b, "random", None)
    c.flush()


def init_block(c, n):
    """HDKey(...) constructor: what it accepts (compared with the model) and what it must refuse"""
    table = ks.all_versions()
    for k in range(n):
        s = ks.gen_parent(c.rng)
        r = c.rng.random()
        must = None
        if r < 0.15:
            s["c"] = False if s["kind"] == "prv" else True
            if s["kind"] == "pub":
                s["key"] = ks.sec_of(ks.gen_secret(c.rng), False)
            must = "uncompressed key"
        elif r < 0.35:
            s["ver"] = c.rng.choice([v for v in table if v[3] != (s["kind"] == "prv")])[2]
            must = "version of the wrong kind"
        elif r < 0.45:
            s["depth"] = c.rng.choice([256, 257, 1000])
            must = "depth > 255"
        elif r < 0.55:
            s["cn"] = c.rng.choice([2 ** 32, 2 ** 32 + 5, 2 ** 40])
            must = "child number >= 2^32"
        elif r < 0.65:
            s["cc"] = rbytes(c.rng, c.rng.choice([0, 1, 31, 33, 64]))
        elif r < 0.75:
            s["fp"] = rbytes(c.rng, c.rng.choice([0, 3, 5]))
        elif r < 0.85:
            s["ver"] = c.rng.choice([rbytes(c.rng, 4), rbytes(c.rng, 3), rbytes(c.rng, 5), b""])
        use_default = c.rng.random() < 0.15
        ver = None if use_default else s["ver"]

        def run():
            return "ok " + show_hd(bip32.HDKey(mk_key(s), s["cc"], version=ver, depth=s["depth"], fingerprint=s["fp"],
                                               child_number=s["cn"]))
        answers = on_backends(run)
        c.count(("xkey.init", spec_tokens(s), use_default), nontrivial=True)
        c.tally("xkey.init:%s:%s" % (must or "other", "accepted" if answers[0][1] != "none" else "rejected"))
        line = "xkey.init %s %s %s %d %s %d" % (spec_key_tokens(s), hx(s["cc"]), opt(ver), s["depth"], hx(s["fp"]), s["cn"])
        expect_backends(c, line, answers, dict(ks.info_of(s), default_version=use_default, must=must))
        if must and not (use_default and must == "version of the wrong kind"):
            must_reject(c, answers, "HDKey constructor accepted: " + must, dict(ks.info_of(s), op="xkey.init"))
    c.flush()


def vectors(c):
    _, ev = ks.bip32_vectors()
    c.extra["bip32_invalid_vectors"] = len(ev)
    for text, _exc in ev:
        xkey_text_case(c, text, "bip32-invalid-vector", False)
    dv, _ = ks.bip32_vectors()
    for v in dv:
        for text in v[2:4]:
            xkey_text_case(c, text, "bip32-vector", None)
            for name, ans in on_backends(lambda: bip32.HDKey.from_base58(text).to_base58()):
                if ans != text:
                    c.fail("BIP32 vector does not survive decode-then-encode", {"op": "vector", "text": text, "backend": name, "got": ans})
    c.flush()


def primitives(c):
    for _ in range(30):
        b = rbytes(c.rng, c.rng.choice([0, 1, 4, 21, 34, 78]))
        if c.rng.random() < 0.4:
            b = bytes(c.rng.randrange(1, 4)) + b
        c.expect("kb58c.enc " + hx(b), "ok " + hx(base58.encode_check(b).encode()), {"bytes": hx(b)}, proven=False)
        t = base58.encode_check(b)
        c.expect("kb58c.dec " + hx(t.encode()), "ok " + hx(b), {"text": t}, proven=False)
        t2 = base58.encode(b)
        c.expect("kb58.enc " + hx(b), "ok " + hx(t2.encode()), {"bytes": hx(b)}, proven=False)
        c.expect("kb58.dec " + hx(t2.encode()), guarded(lambda: "ok " + hx(base58.decode(t2))), {"text": t2}, proven=False)
    for t in ["", "1", "11", "z", "1z", "0", "l", "11111111111111111111111111111111111", "2g"]:
        c.expect("kb58.dec " + hx(t.encode()), guarded(lambda: "ok " + hx(base58.decode(t))), {"text": t}, proven=False)
        c.expect("kb58c.dec " + hx(t.encode()), guarded(lambda: "ok " + hx(base58.decode_check(t))), {"text": t}, proven=False)
    c.flush()


def corpus(c):
    p = os.path.join(VERIF, "corpus", "C10.json")
    if not os.path.exists(p):
        return
    for e in json.load(open(p)):
        if e["op"] == "sec.parse":
            sec_parse_case(c, bytes.fromhex(e["bytes"]), e.get("klass", "corpus"), e.get("valid"))
        elif e["op"] == "xkey.parse":
            xkey_parse_case(c, bytes.fromhex(e["bytes"]), e.get("klass", "corpus"), e.get("valid"))
        elif e["op"] == "wif.dec":
            wif_dec_case(c, e["text"], e.get("klass", "corpus"), e.get("valid"))
        elif e["op"] == "xkey.fromb58":
            xkey_text_case(c, e["text"], e.get("klass", "corpus"), e.get("valid"))
    c.flush()


def explore(c, scale):
    vectors(c)
    corpus(c)
    primitives(c)
    sec_block(c, 10 * scale)
    xonly_block(c, 8 * scale)
    priv_block(c, 20 * scale)
    wif_block(c, 8 * scale)
    xkey_block(c, 40 * scale)
    init_block(c, 40 * scale)


def run(tier, seed):
    c = Check(PROP, MODS, tier, seed)
    c.classifiers["py_backend_coordinate_range"] = py_backend_coordinate_range
    c.rule = ("seeded valid keys (special and random scalars, both Y parities) x {compressed, uncompressed} x all networks x all "
              "SLIP-132 version prefixes of the loaded NETWORKS table x depths {0..255} x child numbers x fingerprints; byte "
              "strings obtained from their encodings by truncation, extension, prefix / version substitution (incl. private "
              "version on a public key and vice versa, hybrid 06/07), coordinate substitution (off-curve x, x >= p, y+1, -y, "
              "y >= p), scalars 0 / n / n+1 / 2^256-1, bad checksums, depth 0 with parent or index; random byte strings; the "
              "BIP32 invalid-key vectors; every case on both secp256k1 backends. A case is distinct by content.")
    c.assumptions = ["EcLaws for secp256k1 (stated mathematical hypothesis of the round-trip theorems)",
                     "the network of a decoded WIF is determined only up to its version byte (test/regtest/signet share 0xef)",
                     "Base58Check text layer: abstract (enc, dec) with dec(enc b) = b in the theorems; C11 proves the codec"]
    changed, err = facts.regenerate("keyversions")
    if err:
        c.broken.append(("facts", "cannot extract the key version tables: " + err))
    c.extra["backends"] = [n for n, _ in BACKENDS]
    c.build_and_audit()
    explore(c, 6 if tier == "quick" else 60)
    return c.finish(search=lambda cc: explore(cc, 3))


def replay(path):
    r = json.load(open(path))
    print(json.dumps(r, indent=1)[:4000])
    if r.get("request"):
        print("model:", run_driver([r["request"]])[0][:2000])
    return 0
