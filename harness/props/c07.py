"""C07 — ECDSA and Schnorr signatures are valid, canonical and deterministic.

Theorems: lean/EmbitModel/Props/C07.lean (strict-DER codec round trip / uniqueness / length bounds, low-S of the
signer, grinding loop bound and result, ECDSA / BIP340 correctness relative to the explicit group-law hypothesis
`EcLaws`, determinism, RFC 6979 nonce = model nonce for message values below n).
Tie: `PrivateKey.sign / schnorr_sign / verify`, `Signature.parse/serialize` are run under BOTH secp256k1 backends and
compared with the Lean model (`priv.sign`, `py.schnorrsig_sign`, `sig.parse`) and with the independent Lean
specifications (SEC 1 + RFC 6979 signer, SEC 1 verifier, BIP340 signer / verifier). The property predicate (valid,
strict DER, low S, <= 70 bytes when grinding, deterministic, every single-bit alteration rejected, parse/serialise
round trip) is evaluated on the implementation directly."""
import json
import os
import signal

from core import Check, hx, VERIF, run_driver

import embit.ec as ec
from embit.util import py_secp256k1, ctypes_secp256k1

PROP = "C07"
MODS = ["EmbitModel.Props.C07", "EmbitModel.Props.C07X", "EmbitModel.Props.C07Z"]
N = 0xFFFFFFFFFFFFFFFFFFFFFFFFFFFFFFFEBAAEDCE6AF48A03BBFD25E8CD0364141
P = 2**256 - 2**32 - 977
BACKENDS = {"py": py_secp256k1, "ct": ctypes_secp256k1}
KEYS = [1, 2, N - 1, N - 2, (N - 1) // 2]
MSGS = [0, 1, N - 1, N, N + 1, 2**256 - 1]


def be(x):
    return x.to_bytes(32, "big")


def use(b):
    ec.secp256k1 = BACKENDS[b]


class Timeout(Exception):
    pass


def _alarm(*a):
    raise Timeout()


def guarded(f, *a):
    """outcome of an embit call: value, or 'none' on an ordinary exception, or 'timeout'"""
    signal.signal(signal.SIGALRM, _alarm)
    signal.setitimer(signal.ITIMER_REAL, 30)
    try:
        return f(*a)
    except Timeout:
        return "timeout"
    except Exception:
        return "none"
    finally:
        signal.setitimer(signal.ITIMER_REAL, 0)


def odd_y_keys(k=3):
    out = []
    i = 3
    while len(out) < k:
        if ctypes_secp256k1.ec_pubkey_serialize(ctypes_secp256k1.ec_pubkey_create(be(i)))[0] == 3:
            out.append(i)
        i += 1
    return out


def rs_of(sig64):
    return int.from_bytes(sig64[:32], "little"), int.from_bytes(sig64[32:], "little")


def embit_verify(backend, sec, sig64, msg):
    """PublicKey.parse(sec).verify(Signature(sig), msg) -> True / False / 'none'"""
    use(backend)

    def f():
        return bool(ec.PublicKey.parse(sec).verify(ec.Signature(sig64), msg))
    return guarded(f)


def embit_schnorr_verify(backend, xonly, sig64, msg):
    use(backend)

    def f():
        return bool(ec.PublicKey.from_xonly(xonly).schnorr_verify(ec.SchnorrSig(sig64), msg))
    return guarded(f)


def check_ecdsa(c, key, msg, full_bits):
    """one (key, message): both backends, grind on/off"""
    sk, m = be(key), be(msg)
    info0 = {"key": hex(key), "msg": hex(msg)}
    c.count(("ecdsa", key, msg), nontrivial=True)
    bnd = (key in KEYS) or (msg in MSGS)
    c.tally("ecdsa:" + ("boundary" if bnd else "random"))
    results = {}
    for backend in ("py", "ct"):
        for grind in (True, False):
            use(backend)

            def f():
                pk = ec.PrivateKey(sk)
                s1 = pk.sign(m, grind=grind)
                s2 = ec.PrivateKey(sk).sign(m, grind=grind)
                return s1, s2, pk.sec()
            out = guarded(f)
            info = dict(info0, backend=backend, grind=grind, op="priv.sign")
            if out in ("none", "timeout"):
                c.fail("signing a valid key / 32-byte message failed (%s)" % out, info)
                continue
            s1, s2, sec = out
            sig, der = s1._sig, s1.serialize()
            info["sig"], info["der"] = sig.hex(), der.hex()
            results[(backend, grind)] = sig
            # deterministic
            if s2._sig != sig:
                c.fail("signing is not deterministic", info)
            # model: same structure, same DER (the attempt count is the model's own)
            c.expect("priv.sign %s %s %d" % (hx(sk), hx(m), 1 if grind else 0), "ok %s %s" % (hx(sig), hx(der)),
                     dict(info, tie="model-vs-" + backend), proven=False, op="priv.sign",
                     canon=lambda o: o.rsplit(" ", 1)[0] if o.startswith("ok ") else o)
            r, s = rs_of(sig)
            # canonical: strict DER (the proved-strict parser accepts it and returns the same pair), low S, length
            c.expect("der.parse " + hx(der), "ok %d %d" % (r, s), dict(info, tie="strict DER"), proven=True, op="der.parse")
            c.expect("der.ser %d %d" % (r, s), "ok " + hx(der), dict(info, tie="strict DER"), proven=True, op="der.ser")
            c.expect("der.spec %d %d" % (r, s), "ok " + hx(der), dict(info, tie="BIP66 encoder"), proven=True, op="der.spec")
            if not (1 <= r < N and 1 <= s <= (N - 1) // 2):
                c.fail("signature is not low-S / in range", info)
            if len(der) > (70 if grind else 71):
                c.fail("DER signature longer than %d bytes" % (70 if grind else 71), info)
            c.tally("derlen:%d" % len(der))
            # valid: embit under both backends and the independent SEC 1 verifier
            for vb in ("py", "ct"):
                if embit_verify(vb, sec, sig, m) is not True:
                    c.fail("valid signature does not verify under backend " + vb, info)
            c.expect("ecdsa.verify %s %s %d %d" % (hx(sec), hx(m), r, s), "ok True True",
                     dict(info, tie="independent verifier"), proven=True, op="ecdsa.verify")
            # round trip of the Signature object
            use(backend)
            back = guarded(lambda: ec.Signature.parse(der))
            if back in ("none", "timeout") or back._sig != sig or back.serialize() != der:
                c.fail("Signature does not survive serialise/parse", info)
            c.expect("sig.parse " + hx(der), "ok " + hx(sig), dict(info, tie="Signature.parse"), proven=False, op="sig.parse")
    # both backends, same bytes
    for grind in (True, False):
        a, b = results.get(("py", grind)), results.get(("ct", grind))
        if a is not None and b is not None and a != b:
            c.fail("backends sign differently", dict(info0, grind=grind, py=a.hex(), ctypes=b.hex(), op="priv.sign"))
    # RFC 6979: the un-ground signature is the SEC 1 + RFC 6979 signature; the ground one uses counter extra data
    sig_ng = results.get(("ct", False))
    if sig_ng is not None:
        c.expect("ecdsa.sign.rfc %s %s None" % (hx(m), hx(sk)), "ok " + hx(sig_ng),
                 dict(info0, op="rfc6979", msg_ge_n=msg >= N, sig=sig_ng.hex(), tie="SEC1+RFC6979 signer"),
                 proven=True, op="ecdsa.sign.rfc")
    sig_g = results.get(("ct", True))
    if sig_g is not None and sig_ng is not None and sig_g != sig_ng:
        c.tally("ground")
        # which counter produced it: the model says (answer: sig der count)
        out = run_driver(["priv.sign %s %s 1" % (hx(sk), hx(m))])[0]
        cnt = int(out.rsplit(" ", 1)[1]) if out.startswith("ok ") else 0
        c.expect("ecdsa.sign.rfc %s %s %s" % (hx(m), hx(sk), cnt.to_bytes(32, "little").hex()), "ok " + hx(sig_g),
                 dict(info0, op="rfc6979", msg_ge_n=msg >= N, sig=sig_g.hex(), counter=cnt, tie="RFC6979 with counter extra data"),
                 proven=True, op="ecdsa.sign.rfc")
    # alterations
    if sig_ng is not None:
        alterations_ecdsa(c, key, sk, m, results.get(("ct", True)) or sig_ng, full_bits, info0)


def alterations_ecdsa(c, key, sk, m, sig, full_bits, info0):
    use("ct")
    sec = ec.PrivateKey(sk).sec()
    r, s = rs_of(sig)
    rng = c.rng
    cases = []
    sig_bits = range(512) if full_bits else rng.sample(range(512), 24)
    msg_bits = range(256) if full_bits else rng.sample(range(256), 12)
    key_bits = range(264) if full_bits else rng.sample(range(264), 12)
    for i in sig_bits:
        t = bytearray(sig)
        t[i // 8] ^= 1 << (i % 8)
        cases.append(("sig", i, sec, bytes(t), m))
    # the malleated twin (r, n - s): valid ECDSA, but high S — must be refused by every verifier
    cases.append(("sig-negated-s", -1, sec, r.to_bytes(32, "little") + (N - s).to_bytes(32, "little"), m))
    for i in msg_bits:
        t = bytearray(m)
        t[i // 8] ^= 1 << (i % 8)
        cases.append(("msg", i, sec, sig, bytes(t)))
    for i in key_bits:
        t = bytearray(sec)
        t[i // 8] ^= 1 << (i % 8)
        cases.append(("key", i, bytes(t), sig, m))
    for kind, i, sec2, sig2, m2 in cases:
        c.count(("alt", kind, i, sig2, m2, sec2), nontrivial=True)
        c.tally("alter:" + kind)
        info = dict(info0, op="alteration", kind=kind, bit=i, sec=sec2.hex(), sig=sig2.hex(), msg2=m2.hex())
        backends = ("ct", "py") if (full_bits and i % 16 == 0) or (not full_bits and i % 3 == 0) or i < 0 else ("ct",)
        for vb in backends:
            v = embit_verify(vb, sec2, sig2, m2)
            if v is True:
                c.fail("altered %s still verifies under backend %s" % (kind, vb), info)
            elif v == "timeout":
                c.fail("verification timed out", info)
        r2, s2 = rs_of(sig2)
        # independent verifier: not (valid and low-S); an unparsable key is "none"
        c.expect("ecdsa.verify %s %s %d %d" % (hx(sec2), hx(m2), r2, s2), "rejected", info, proven=True,
                 op="ecdsa.verify", canon=lambda o: "ACCEPTED" if o == "ok True True" else "rejected")
    # altered DER encoding: every bit for full, else a sample; parse failure or verify False
    use("ct")
    der = ec.Signature(sig).serialize()
    bits = range(len(der) * 8) if full_bits else rng.sample(range(len(der) * 8), 24)
    for i in bits:
        t = bytearray(der)
        t[i // 8] ^= 1 << (i % 8)
        t = bytes(t)
        for vb in (("ct", "py") if i % 8 == 0 else ("ct",)):
            use(vb)

            def f():
                return bool(ec.PublicKey.parse(sec).verify(ec.Signature.parse(t), m))
            v = guarded(f)
            c.count(("alt-der", i, t, vb), nontrivial=True)
            c.tally("alter:der")
            if v is True or v == "timeout":
                c.fail("altered DER encoding still verifies (%s)" % vb, dict(info0, op="alteration-der", bit=i, der=t.hex(), backend=vb))


def check_schnorr(c, key, msg, full_bits):
    sk, m = be(key), be(msg)
    info0 = {"key": hex(key), "msg": hex(msg)}
    c.count(("schnorr", key, msg), nontrivial=True)
    c.tally("schnorr")
    sigs = {}
    for backend in ("py", "ct"):
        use(backend)

        def f():
            pk = ec.PrivateKey(sk)
            return pk.schnorr_sign(m), pk.schnorr_sign(m), pk.xonly() if False else pk.get_public_key().xonly()
        out = guarded(f)
        info = dict(info0, backend=backend, op="schnorr_sign")
        if out in ("none", "timeout"):
            c.fail("schnorr signing failed (%s)" % out, info)
            continue
        s1, s2, xonly = out
        sig = s1._sig
        sigs[backend] = sig
        info["sig"] = sig.hex()
        if s2._sig != sig:
            c.fail("schnorr signing is not deterministic", info)
        c.expect("py.schnorrsig_sign %s %s None" % (hx(m), hx(sk)), "ok " + hx(sig), dict(info, tie="model"), proven=False,
                 op="py.schnorrsig_sign")
        c.expect("schnorr.sign %d %s None" % (key, hx(m)), "ok " + hx(sig), dict(info, tie="BIP340 signer"), proven=True,
                 op="schnorr.sign")
        c.expect("schnorr.verify %s %s %s" % (hx(xonly), hx(m), hx(sig)), "ok True", dict(info, tie="BIP340 verifier"),
                 proven=True, op="schnorr.verify")
        for vb in ("py", "ct"):
            if embit_schnorr_verify(vb, xonly, sig, m) is not True:
                c.fail("valid schnorr signature does not verify under backend " + vb, info)
            # through the key objects themselves (the public key of an arbitrary private key may have odd Y)
            use(vb)

            def g():
                pk = ec.PrivateKey(sk)
                pub = pk.get_public_key()
                pub2 = ec.PublicKey.parse(pub.sec())
                return (pk.schnorr_verify(s1, m), pub.schnorr_verify(s1, m), pub2.schnorr_verify(s1, m), pub.sec()[0])
            r = guarded(g)
            if r in ("none", "timeout") or not (r[0] is True and r[1] is True and r[2] is True):
                c.fail("valid schnorr signature does not verify through PrivateKey/PublicKey.schnorr_verify (backend %s)" % vb,
                       dict(info, verify_backend=vb, result=str(r)))
            else:
                c.tally("schnorr:key-prefix-%02x" % r[3])
        use(backend)
        back = guarded(lambda: ec.SchnorrSig.parse(s1.serialize()))
        if back in ("none", "timeout") or back._sig != sig:
            c.fail("SchnorrSig does not survive serialise/parse", info)
    if len(sigs) == 2 and sigs["py"] != sigs["ct"]:
        c.fail("backends sign differently (schnorr)", dict(info0, py=sigs["py"].hex(), ctypes=sigs["ct"].hex(), op="schnorr_sign"))
    if "ct" not in sigs:
        return
    sig = sigs["ct"]
    use("ct")
    xonly = ec.PrivateKey(sk).get_public_key().xonly()
    rng = c.rng
    cases = []
    for i in (range(512) if full_bits else rng.sample(range(512), 24)):
        t = bytearray(sig)
        t[i // 8] ^= 1 << (i % 8)
        cases.append(("sig", i, xonly, bytes(t), m))
    for i in (range(256) if full_bits else rng.sample(range(256), 12)):
        t = bytearray(m)
        t[i // 8] ^= 1 << (i % 8)
        cases.append(("msg", i, xonly, sig, bytes(t)))
    for i in (range(256) if full_bits else rng.sample(range(256), 12)):
        t = bytearray(xonly)
        t[i // 8] ^= 1 << (i % 8)
        cases.append(("key", i, bytes(t), sig, m))
    for kind, i, x2, sig2, m2 in cases:
        c.count(("salt", kind, i, sig2, m2, x2), nontrivial=True)
        c.tally("alter-schnorr:" + kind)
        info = dict(info0, op="alteration-schnorr", kind=kind, bit=i, xonly=x2.hex(), sig=sig2.hex(), msg2=m2.hex())
        backends = ("ct", "py") if (full_bits and i % 16 == 0) or (not full_bits and i % 3 == 0) else ("ct",)
        for vb in backends:
            v = embit_schnorr_verify(vb, x2, sig2, m2)
            if v is True or v == "timeout":
                c.fail("altered %s still verifies (schnorr, backend %s)" % (kind, vb), info)
        c.expect("schnorr.verify %s %s %s" % (hx(x2), hx(m2), hx(sig2)), "ok False", info, proven=True, op="schnorr.verify")


def kf_msg_ge_n(rec):
    """C07-KF1: only the RFC 6979 comparison, only for message values >= n, and the implementation must equal the
    model (raw message bytes fed to the HMAC-DRBG, as libsecp256k1 does)"""
    info = rec.get("info") or {}
    if not (rec.get("op") == "ecdsa.sign.rfc" and info.get("msg_ge_n") is True):
        return False
    toks = rec.get("request", "").split(" ")
    if len(toks) != 4:
        return False
    try:
        model = run_driver(["py.ecdsa_sign %s %s %s" % (toks[1], toks[2], toks[3])])[0]
    except Exception:
        return False
    return model == rec.get("impl")


def kf_negated_key_z0(rec):
    """C07-KF2: exactly the alteration "bit 0 of the SEC prefix byte" (02 <-> 03, the negated key) of an ECDSA
    signature over a message value that is 0 modulo n"""
    info = rec.get("info") or rec
    try:
        return (info.get("op") == "alteration" and info.get("kind") == "key" and info.get("bit") == 0
                and int(info.get("msg"), 16) % N == 0 and info.get("msg2") == be(int(info.get("msg"), 16)).hex())
    except Exception:
        return False


def light_sweep(c, n):
    """many random (key, message) pairs on both backends: the signature must be strict DER (the proved-strict parser
    returns the same pair and the BIP66 encoder the same bytes) and verify under the independent verifier"""
    rng = c.rng
    for i in range(n):
        k, mm = rng.randrange(1, N), rng.randrange(2**256)
        sk, m = be(k), be(mm)
        for backend in ("py", "ct"):
            use(backend)
            out = guarded(lambda: (lambda pk: (pk.sign(m, grind=False), pk.sec()))(ec.PrivateKey(sk)))
            info = {"key": hex(k), "msg": hex(mm), "backend": backend, "op": "priv.sign.light"}
            c.count(("light", backend, k, mm), nontrivial=True)
            if out in ("none", "timeout"):
                c.fail("signing a valid key / 32-byte message failed (%s)" % out, info)
                continue
            s1, sec = out
            der = s1.serialize()
            r, s_ = rs_of(s1._sig)
            c.tally("light:rlen%d/slen%d" % ((r.bit_length() + 7) // 8, (s_.bit_length() + 7) // 8))
            c.expect("der.spec %d %d" % (r, s_), "ok " + hx(der), dict(info, tie="BIP66 encoder"), proven=True, op="der.spec")
            c.expect("sig.ecdsa %s %s %s" % (hx(sec), hx(m), hx(der)), "valid", dict(info, tie="independent verifier"),
                     proven=True, op="sig.ecdsa")
        if i % 50 == 49:
            c.flush()
    c.flush()
    use("ct")


def der_edges(c):
    """"Signature objects survive serialise/parse unchanged" and "strict DER" at the length edges of r and s: a signature
    object is built from a chosen (r, s) pair (every byte length 1..32, top bit of the leading byte set and clear - the
    cases that need / must not have the 0x00 pad), serialised, compared with the BIP66 encoder and parsed back. Signing
    reaches short components only with probability 2^-8 per missing byte, so the sweep cannot be relied on for them."""
    rng = c.rng
    vals = []
    for nb in range(1, 33):
        hi = 8 * nb
        vals += [1 << (hi - 1), (1 << (hi - 1)) - 1 if nb > 1 or True else 1, (1 << hi) - 1, (1 << (hi - 1)) | rng.getrandbits(hi - 1),
                 (1 << (hi - 2)) | rng.getrandbits(max(hi - 2, 1)) if hi >= 2 else 1]
    vals = sorted({v for v in vals if 0 < v < N})
    pairs = [(v, rng.choice(vals)) for v in vals] + [(rng.choice(vals), v) for v in vals]
    for (r, s_) in pairs:
        if s_ > N // 2:
            s_ = N - s_          # low-S, as every signature embit produces
        if not (0 < s_ < N):
            continue
        for backend in ("py", "ct"):
            use(backend)
            info = {"r": hex(r), "s": hex(s_), "backend": backend, "op": "der.edges"}
            c.count(("der.edge", backend, r, s_), nontrivial=True)
            c.tally("der-edge:rlen%d/slen%d" % ((r.bit_length() + 7) // 8, (s_.bit_length() + 7) // 8))
            out = guarded(lambda: ec.Signature(ec.secp256k1.ecdsa_signature_parse_compact(be(r) + be(s_))).serialize())
            if out in ("none", "timeout"):
                c.fail("a signature object with valid (r, s) cannot be serialised (%s)" % out, info)
                continue
            c.expect("der.spec %d %d" % (r, s_), "ok " + hx(out), dict(info, tie="BIP66 encoder"), proven=True, op="der.spec")
            back = guarded(lambda: rs_of(ec.Signature.parse(out)._sig))
            if back != (r, s_):
                c.fail("a signature does not survive serialise / parse", dict(info, der=hx(out), back=str(back)))
    c.flush()
    use("ct")


def explore(c, nkeys, nfull, nschnorr):
    odd = odd_y_keys()
    rng = c.rng
    pairs = []
    for k in KEYS + odd:
        pairs.append((k, rng.choice(MSGS)))
    for mm in MSGS:
        pairs.append((rng.choice(KEYS + odd), mm))
    for _ in range(nkeys):
        pairs.append((rng.randrange(1, N), rng.randrange(2**256)))
    # messages that need grinding are common (about half); make sure high-r cases are present
    for idx, (k, mm) in enumerate(pairs):
        check_ecdsa(c, k, mm, full_bits=idx < nfull)
        if idx % 4 == 3:
            c.flush()
    c.flush()
    sp = [(k, rng.choice(MSGS)) for k in KEYS + odd] + [(rng.choice(KEYS + odd), mm) for mm in MSGS]
    sp += [(rng.randrange(1, N), rng.randrange(2**256)) for _ in range(nschnorr)]
    for idx, (k, mm) in enumerate(sp):
        check_schnorr(c, k, mm, full_bits=idx < max(1, nfull // 2))
        if idx % 6 == 5:
            c.flush()
    c.flush()
    use("ct")


def corpus(c):
    p = os.path.join(VERIF, "corpus", "C07.json")
    if os.path.exists(p):
        for e in json.load(open(p)):
            check_ecdsa(c, int(e["key"], 16), int(e["msg"], 16), full_bits=False)
            check_schnorr(c, int(e["key"], 16), int(e["msg"], 16), full_bits=False)


def run(tier, seed):
    c = Check(PROP, MODS, tier, seed)
    c.classifiers["rfc6979_msg_ge_n"] = kf_msg_ge_n
    c.classifiers["negated_key_z0"] = kf_negated_key_z0
    c.rule = ("keys {1,2,n-1,n-2,(n-1)/2, three odd-Y keys} and random keys x messages {0,1,n-1,n,n+1,2^256-1} and random "
              "messages x {py, ctypes} x grind on/off; for the first cases ALL single-bit alterations of the 64-byte "
              "signature, the message, the SEC key and the DER encoding, a seeded sample for the others; same for BIP340; "
              "a case is distinct by content")
    c.assumptions = ["unforgeability (failure under EVERY other message / key / r) is a cryptographic assumption; the check "
                     "covers all single-bit alterations of generated signatures, the theorem flip_s_rejected covers every "
                     "alteration of s", "EcLaws (secp256k1 is a group of prime order n with the stated coordinate laws) is a "
                     "hypothesis of ecdsa_correct / schnorr_correct"]
    c.build_and_audit()
    corpus(c)
    der_edges(c)
    if tier == "quick":
        explore(c, nkeys=6, nfull=2, nschnorr=4)
        light_sweep(c, 250)
    else:
        explore(c, nkeys=70, nfull=14, nschnorr=36)
        light_sweep(c, 3500)
    use("ct")
    return c.finish(search=lambda cc: explore(cc, 12, 3, 6))


def replay(path):
    r = json.load(open(path))
    info = r.get("info", r)
    print(json.dumps({k: v for k, v in r.items() if k not in ("info",)}, indent=1)[:3000])
    if "key" in info and "msg" in info:
        key, msg = int(info["key"], 16), int(info["msg"], 16)
        for b in ("py", "ct"):
            use(b)
            for g in (True, False):
                s = guarded(lambda: ec.PrivateKey(be(key)).sign(be(msg), grind=g))
                print("impl %s grind=%s:" % (b, g), s if isinstance(s, str) else s.serialize().hex())
        print("model:", run_driver(["priv.sign %s %s 1" % (hx(be(key)), hx(be(msg)))])[0])
        print("spec :", run_driver(["ecdsa.sign.rfc %s %s None" % (hx(be(msg)), hx(be(key)))])[0])
    return 0
