"""C18 — Liquid: confidential transactions round-trip, blind soundly and unblind exactly.  (PARTIAL for the proof
technique: range proofs, surjection proofs and Pedersen commitments live in the prebuilt libsecp256k1-zkp.)

Proved (lean/EmbitModel/Props/C18.lean): the Elements transaction codec is a bijection between well-formed
transactions and their wire encodings; PSET liquid fields are lossless at the key-value level; every blinding factor
and nonce of PSET.blind is a tagged hash of (seed, transaction, output index) and the last value blinding factor is
the library's blind-sum of exactly the listed terms; balance follows from the stated algebraic laws; verify() returning
True implies that every consistency predicate was evaluated and returned true; blech32 create/verify and the
confidential address round trip.
Corresponded (here, every run): all of the above models against the real Python code — codecs on generated and
mutated byte strings, the decision logic of verify()/unblind() under an oracle that dictates every library answer,
the data flow of the real PSET.blind under symbolic library stand-ins.
Only OBSERVED (here, every run, in a subprocess against the real C library; never presented as proof): blind is
deterministic, honest outputs verify, proofs verify in the library, range proofs rewind to exactly the blinded data,
commitments balance, every single-field falsification is rejected."""
import hashlib
import io
import json
import os
import subprocess
import sys
import types
from collections import Counter

from core import Check, hx, run_driver, VERIF, REPO
import gen
import gen_liquid as gl
from gen_liquid import on, ob

from embit import ec as real_ec
from embit.script import Script
from embit.liquid import pset as pset_mod
from embit.liquid import blech32, addresses, slip77
from embit.liquid.pset import PSET, LInputScope, LOutputScope
from embit.liquid.transaction import LTransaction, LTransactionInput, LTransactionOutput
from embit.util import secp256k1 as real_secp

PROP = "C18"
MODS = ["EmbitModel.Props.C18", "EmbitModel.Props.C18X", "EmbitModel.Props.C18Y", "EmbitModel.Props.C18Z",
        "EmbitModel.Props.C18W"]


# ================================================================ A. transaction codec

def impl_ltx_parse(b):
    try:
        t = LTransaction.parse(b)
        return "ok " + gl.ltx_tokens(t)
    except Exception:
        return "none"


def check_ltx_bytes(c, kind, b):
    res = impl_ltx_parse(b)
    c.count(("ltx.parse", b), nontrivial=True)
    c.tally("ltx:%s:%s" % (kind, "accepted" if res != "none" else "rejected"))
    c.expect("ltx.parse " + hx(b), res, {"kind": kind, "bytes": hx(b)[:20000]}, proven=True)
    if res != "none":
        t = LTransaction.parse(b)
        if t.serialize() != b:
            c.fail("accepted Liquid transaction bytes do not re-encode to themselves (%s)" % kind,
                   {"op": "ltx.parse", "kind": kind, "bytes": hx(b)[:20000], "reencoded": hx(t.serialize())[:20000]})


def check_ltx(c, tx, every_offset, budget):
    toks = gl.ltx_tokens(tx)
    ser = tx.serialize()
    c.count(("ltx", toks), nontrivial=True)
    c.tally("ltx:" + gl.ltx_shape(tx))
    info = {"tx": toks[:20000]}
    c.expect("ltx.ser " + toks, "ok " + hx(ser), info, proven=False)
    if any(o.ecdh_pubkey == b"" for o in tx.vout):
        # an empty (not None) nonce is written like None: outside the well-formed domain, serialiser only
        c.tally("ltx:empty-nonce")
        return
    if len(tx.vin) > 10:
        budget = 8
    c.expect("ltx.wire " + toks, "ok " + hx(ser), info)          # the independent Elements wire spec
    c.expect("ltx.txid " + toks, "ok " + hx(tx.txid()), info, proven=False)
    back = impl_ltx_parse(ser)
    c.expect("ltx.parse " + hx(ser), back, info)
    if back != "ok " + toks:
        c.fail("Liquid transaction: serialise-then-parse is not the identity", {"op": "ltx.roundtrip", "tx": toks[:20000], "parsed": back[:20000]})
    for kind, b in gl.ltx_mutations(c.rng, tx, every_offset, budget):
        check_ltx_bytes(c, kind, b)
    # element readers on their own
    for o in tx.vout[:2]:
        ob_ = o.serialize()
        for b in [ob_, ob_[:-1], ob_ + b"\x00", ob_[:c.rng.randrange(len(ob_))]]:
            try:
                r = "ok " + " ".join(gl.lout_tokens(LTransactionOutput.parse(b)))
            except Exception:
                r = "none"
            c.expect("lout.parse " + hx(b), r, {"bytes": hx(b)}, proven=False)
    for i in tx.vin[:2]:
        ib = i.serialize()
        for b in [ib, ib[:-1], ib + b"\x00", ib[:c.rng.randrange(len(ib))]]:
            try:
                r = "ok " + " ".join(gl.lin_tokens(LTransactionInput.parse(b)))
            except Exception:
                r = "none"
            c.expect("lin.parse " + hx(b), r, {"bytes": hx(b)}, proven=False)
    c.sample({"ltx": toks[:300], "wire": hx(ser)[:200]})


def explore_ltx(c, n, every_offset, budget):
    for raw in gl.recorded_txs():
        check_ltx_bytes(c, "recorded", raw)
        t = LTransaction.parse(raw)
        for kind, b in gl.ltx_mutations(c.rng, t, False, budget):
            check_ltx_bytes(c, "recorded-" + kind, b)
    for k in range(n):
        tx = gl.gen_ltx(c.rng)
        check_ltx(c, tx, every_offset and k % 4 == 0, budget)
        if k % 40 == 39:
            c.flush()
    for _ in range(n):
        check_ltx_bytes(c, "random", gen.rbytes(c.rng, c.rng.randrange(0, 90)))
    c.flush()


# ================================================================ B. PSET codec

def skv(pairs):
    return ",".join(hx(k) + ":" + hx(v) for k, v in pairs) if pairs else "-"


def scope_pairs(scope, version):
    s = io.BytesIO()
    scope.write_to(s, version=version)
    sc = gl.split_scopes(b"pset\xff" + s.getvalue())
    assert len(sc) == 1
    return sc[0]


def dump(p):
    t = [on(p.version), on(p.tx_version), on(p.locktime),
         skv([(x.serialize(), d.serialize()) for x, d in p.xpubs.items()]), skv(list(p.unknown.items()))]
    for i in p.inputs:
        t += ["I", ob(i.txid), on(i.vout), on(i.sequence), skv(scope_pairs(i, p.version))]
    for o in p.outputs:
        v = o.value
        vs = "None" if v is None else (str(v) if isinstance(v, int) else "C" + hx(v))
        try:
            pr = skv(scope_pairs(o, p.version))
        except Exception:
            pr = "err"
        t += ["O", vs, "None" if o.script_pubkey is None else hx(o.script_pubkey.data), pr]
    return " ".join(t)


def impl_pset_parse(b):
    try:
        return PSET.parse(b)
    except Exception:
        return None


def check_pset_lossless(c, b, p, kind):
    """the property on embit alone: no pair lost (modulo the two spellings of an output key), no duplicate accepted,
    version 0: same transaction, serialise-then-parse identity"""
    try:
        orig = gl.split_scopes(b)
    except Exception:
        c.fail("accepted a PSET whose key-value framing is malformed", {"op": "pset.lossless", "kind": kind, "bytes": hx(b)[:20000]})
        return
    own_iss = [bool(i.issue_value or i.issue_commitment) for i in p.inputs]
    try:
        out = p.serialize()
    except Exception as e:
        # Proved (C18X.pset_v2_reserialise, C18Z.pset_v0_reserialise): whatever PSET.parse accepts can be written again
        # (proved away from version-0 input scopes with issuance fields of their own; since fix c18-kf1 these fields are
        # validated when read, so that region is no longer excused here: any failure of serialize() is a violation).
        c.fail("accepted PSET cannot be re-serialised (%s)" % type(e).__name__,
               {"op": "pset.lossless", "kind": kind, "bytes": hx(b)[:20000]})
        return
    new = gl.split_scopes(out)
    rec = {"op": "pset.lossless", "kind": kind, "bytes": hx(b)[:20000], "reserialized": hx(out)[:20000]}
    if len(orig) != len(new):
        c.fail("scope count changed on re-serialisation", rec)
        return
    nin = len(p.inputs)
    for si, (a, d) in enumerate(zip(orig, new)):
        is_out = si > nin
        if is_out:
            a = [(gl.canon_out_key(k, p.version), v) for k, v in a]
        if si == 0:
            a = [(k, v) for k, v in a if k != b"\x00"]  # the global tx is compared separately
        ca, cd = Counter(a), Counter(d)
        lost = [kvp for kvp in ca if ca[kvp] > cd[kvp]]
        if lost:
            c.fail("key-value pair of the original PSET lost or altered in scope %d" % si,
                   dict(rec, scope=si, lost=[(hx(k), hx(v)[:200]) for k, v in lost[:3]]))
            return
        if len(set(k for k, _ in a)) != len(a):
            c.fail("duplicate key (or two spellings of one field) accepted in scope %d" % si, dict(rec, scope=si))
            return
        if si > 0 and ca != cd:
            # C18X.pset_parse_lossless: what write_to emits for a scope is a PERMUTATION of what was read (nothing invented)
            extra = [kvp for kvp in cd if cd[kvp] > ca[kvp]]
            c.fail("re-serialised scope %d contains a pair that was not read" % si,
                   dict(rec, scope=si, extra=[(hx(k), hx(v)[:200]) for k, v in extra[:3]]))
            return
        if len(set(k for k, _ in d)) != len(d):
            c.fail("write_to emits a key twice in scope %d" % si, dict(rec, scope=si))
            return
    g = dict(orig[0]).get(b"\x00")
    if g is not None and any(own_iss):
        # A version-0 ("elements") PSET whose input scope carries PSETv2 issuance fields of its own: by design these take
        # precedence over the issuance of the global transaction (C18Z.pset_v0_own_issuance_overrides), so the rebuilt
        # transaction may differ from the global one — but ONLY in the issuance of exactly those inputs.
        c.tally("pset:v0-with-v2-issuance-fields")
        try:
            gt, pt = LTransaction.parse(g), p.tx
            same = (gt.version == pt.version and gt.locktime == pt.locktime and len(gt.vin) == len(pt.vin)
                    and [o.serialize() for o in gt.vout] == [o.serialize() for o in pt.vout])
            for a, d, own in zip(gt.vin, pt.vin, own_iss):
                if own:
                    same = same and (a.txid, a.vout, a.sequence, a.is_pegin) == (d.txid, d.vout, d.sequence, d.is_pegin) \
                        and d.script_sig.data == b""
                else:
                    same = same and a.serialize() == d.serialize()
        except Exception:
            same = False
        if not same:
            c.fail("version-0 PSET with own issuance fields: reconstructed transaction differs from the global one "
                   "outside the issuance of the inputs that carry such fields",
                   {"op": "pset.v0tx", "kind": kind, "bytes": hx(b)[:20000], "global_tx": hx(g)})
    elif g is not None:
        try:
            got = p.tx.serialize()
        except Exception:
            got = b""
        if got != g:
            c.fail("version-0 PSET: reconstructed transaction differs from the global transaction",
                   {"op": "pset.v0tx", "kind": kind, "bytes": hx(b)[:20000], "global_tx": hx(g), "tx": hx(got)})
        else:
            c.tally("pset:v0-tx-kept")
            # the independent Elements wire spec, applied to the transaction embit rebuilt from the scopes
            c.expect("ltx.wire " + gl.ltx_tokens(p.tx), "ok " + hx(g), {"kind": kind, "bytes": hx(b)[:20000]})
    p2 = impl_pset_parse(out)
    if p2 is None or p2.serialize() != out:
        # (the former known finding C18-KF1 - malformed issuance fields of an input scope - is fixed: nothing is excused)
        c.fail("PSET: serialise-then-parse is not the identity", dict(rec, sub="ser-parse-identity"))
    elif g is not None and any(own_iss):
        c.tally("pset:v0-own-issuance-roundtrips")


def check_issuance_fields_refused(c, kind, b, p):
    """region of the former known finding C18-KF1 (fixed by fixes/c18-kf1.diff; C18W.pset_parse_issuance_fields_shape,
    input_scope_malformed_commitment_refused / _nonce_refused): a PSET with an input scope that holds a malformed
    `pset 01` / `pset 0b` commitment or `pset 0c` / `pset 0d` nonce / entropy must be REFUSED at parse time. Checked on the
    raw pairs (independent framing walk) and on the object embit returned."""
    bad = None
    try:
        scopes = gl.split_scopes(b)
        for si in range(1, 1 + len(p.inputs)):
            for k, v in scopes[si]:
                if gl.malformed_issuance_value(k, v):
                    bad = (si, hx(k), hx(v)[:200])
    except Exception:
        pass
    for n, i in enumerate(p.inputs):
        for x in (i.issue_commitment, i.token_commitment):
            if x is not None and (len(x) != 33 or x[0] not in (8, 9)):
                bad = bad or (n + 1, "commitment", hx(x)[:200])
        for x in (i.issue_nonce, i.issue_entropy):
            if x is not None and len(x) != 32:
                bad = bad or (n + 1, "nonce/entropy", hx(x)[:200])
    if bad is not None:
        c.fail("PSET accepted although an input scope holds a malformed issuance field (C18-KF1 region)",
               {"op": "pset.issuance-fields", "kind": kind, "bytes": hx(b)[:20000], "field": list(bad)})
    c.tally("pset:issuance-fields-wellformed")


def v0_own_issuance_null_index(rec):
    """classifier of known finding C18-KF2 - as narrow as possible: the serialise-then-parse check, on a version-0 PSET,
    with an input that is a peg-in (flag of the global transaction) at output index 2^30 - 1 and builds an issuance from
    fields of its own: index + both flags is 0xffffffff, the null index, so the written transaction cannot be read back"""
    if rec.get("op") != "pset.lossless" or rec.get("sub") != "ser-parse-identity":
        return False
    try:
        p = PSET.parse(bytes.fromhex(rec["bytes"]))
        if p.version == 2 or not any(bool(i.issue_value or i.issue_commitment) and i.is_pegin and i.vout == 2**30 - 1
                                     and i._tx_issuance is None for i in p.inputs):
            return False
        g = dict(gl.split_scopes(p.serialize())[0]).get(b"\x00")
        try:
            return LTransaction.parse(g).serialize() != g
        except Exception:
            return True
    except Exception:
        return False


def check_pset_bytes(c, kind, b, lossless=True):
    p = impl_pset_parse(b)
    try:
        res = "none" if p is None else "ok " + dump(p)
    except Exception as e:
        res = "err-dump"
    c.count(("pset", b), nontrivial=True)
    c.tally("pset:%s:%s" % (kind.split(":")[0], "accepted" if p is not None else "rejected"))
    info = {"kind": kind, "bytes": hx(b)[:40000]}
    c.expect("pset.parse " + hx(b), res, info, proven=False)
    if p is not None:
        try:
            rt = "ok " + hx(p.serialize())
        except Exception:
            rt = "err"
        c.expect("pset.roundtrip " + hx(b), rt, info, proven=False)
        try:
            tx = "ok " + hx(p.tx.serialize())
        except Exception:
            tx = "err"
        c.expect("pset.tx " + hx(b), tx, info, proven=False)
        check_issuance_fields_refused(c, kind, b, p)
        if lossless:
            check_pset_lossless(c, b, p, kind)


def v0_with_issuance(rng):
    """version-0 PSET whose global transaction carries an issuance / peg-in flag and / or a confidential output with a
    nonce (the region of finding D53, repaired by fixes/d53.diff: the transaction must survive parse -> tx -> serialise)"""
    from embit.liquid.transaction import AssetIssuance
    r = rng.random()
    i = LTransactionInput(gen.rbytes(rng, 32), rng.randrange(0, 9), Script(b""), 0xFFFFFFFD,
                          is_pegin=r < 0.4,
                          asset_issuance=None if r < 0.2 else AssetIssuance(gen.rbytes(rng, 32), gen.rbytes(rng, 32), rng.choice([5, 10**8]), rng.choice([None, 1])))
    if rng.random() < 0.5:
        o = LTransactionOutput(gen.rbytes(rng, 32), rng.getrandbits(40), Script(gen.rbytes(rng, 22)))
    else:
        o = LTransactionOutput(bytes([rng.choice([0x0a, 0x0b])]) + gen.rbytes(rng, 32), bytes([rng.choice([0x08, 0x09])]) + gen.rbytes(rng, 32),
                               Script(gen.rbytes(rng, 22)), bytes([rng.choice([2, 3])]) + gen.rbytes(rng, 32))
    tx = LTransaction(2, [i], [o], 0)
    return gl.build_pset(tx, 0, [[]], [[]])


def v0_full(rng):
    """version-0 PSET whose global transaction has several inputs / outputs with issuance, peg-in flag, confidential
    outputs with nonce, AND non-empty scopes (liquid fields, unknown keys, utxos); now and then an input scope with
    PSETv2 issuance fields of its own (these take precedence by design)"""
    from embit.liquid.transaction import AssetIssuance
    vin, vout = [], []
    for _ in range(rng.randrange(1, 4)):
        r = rng.random()
        iss = None
        if r > 0.25:
            amt = rng.choice([5, 10**8, 2**64 - 1, bytes([rng.choice([8, 9])]) + gen.rbytes(rng, 32)])
            tok = rng.choice([None, 1, bytes([rng.choice([8, 9])]) + gen.rbytes(rng, 32)])
            iss = AssetIssuance(rng.choice([b"\x00" * 32, gen.rbytes(rng, 32)]), gen.rbytes(rng, 32), amt, tok)
        vin.append(LTransactionInput(gen.rbytes(rng, 32), rng.choice([0, 1, 5, 2**30 - 1]), Script(b""),
                                     rng.choice([0, 0xFFFFFFFD, 0xFFFFFFFF]), is_pegin=rng.random() < 0.4, asset_issuance=iss))
    for _ in range(rng.randrange(1, 4)):
        spk = Script(gen.rbytes(rng, rng.choice([0, 22, 34])))
        if rng.random() < 0.4:
            vout.append(LTransactionOutput(gen.rbytes(rng, 32), rng.getrandbits(rng.choice([1, 40, 63])), spk))
        else:
            vout.append(LTransactionOutput(bytes([rng.choice([0x0a, 0x0b])]) + gen.rbytes(rng, 32),
                                           bytes([rng.choice([0x08, 0x09])]) + gen.rbytes(rng, 32), spk,
                                           bytes([rng.choice([2, 3])]) + gen.rbytes(rng, 32) if rng.random() < 0.8 else None))
    tx = LTransaction(rng.choice([0, 1, 2]), vin, vout, rng.choice([0, 1, 500000000]))
    in_maps = []
    for _ in vin:
        m = gl.gen_in_pairs(rng, 0)
        r = rng.random()
        if r < 0.3:
            m.append((b"\x01", gl.gen_lout(rng, False).serialize()))
        elif r < 0.4:
            m.append((b"\x00", gl.gen_ltx(rng, 2, 3).serialize()))
        if rng.random() < 0.12:
            m.append((gl.IN_KEYS["issue_value"][0], rng.choice([0, 9, 2**64 - 1]).to_bytes(8, "little")))
        if rng.random() < 0.08:
            m.append((gl.IN_KEYS["issue_commitment"][0], rng.choice([b"", bytes([8]) + gen.rbytes(rng, 32), bytes([9]) + gen.rbytes(rng, 32),
                                                                      bytes([8]) + gen.rbytes(rng, 32), gen.rbytes(rng, 5)])))
        rng.shuffle(m)
        in_maps.append(m)
    out_maps = [gl.gen_out_pairs(rng, 0, True) for _ in vout]
    ge = [(b"\xfb", (0).to_bytes(4, "little"))] if rng.random() < 0.2 else []
    return gl.build_pset(tx, 0, in_maps, out_maps, ge)


def v0_signed(rng):
    """version-0 PSET whose global transaction carries a witness (audit2 B-4, repaired by fixes/b4.diff: refused)"""
    from embit.liquid.transaction import TxInWitness, TxOutWitness, Proof, RangeProof
    from embit.script import Witness
    r = rng.randrange(4)
    wi = TxInWitness(script_witness=Witness([gen.rbytes(rng, 3)])) if r == 0 else \
        TxInWitness(pegin_witness=Witness([gen.rbytes(rng, 2)])) if r == 1 else \
        TxInWitness(Proof(gen.rbytes(rng, 4))) if r == 2 else None
    wo = TxOutWitness(Proof(gen.rbytes(rng, 3)), RangeProof(gen.rbytes(rng, 3))) if r == 3 else None
    i = LTransactionInput(gen.rbytes(rng, 32), rng.randrange(0, 9), Script(b""), 0xFFFFFFFD, witness=wi)
    o = LTransactionOutput(gen.rbytes(rng, 32), rng.getrandbits(40), Script(gen.rbytes(rng, 22)), witness=wo)
    tx = LTransaction(2, [i], [o], 0)
    return gl.build_pset(tx, 0, [[]], [[]])


def explore_pset(c, n, budget):
    rec = gl.recorded_psets()
    for b in rec:
        check_pset_bytes(c, "recorded", b)
        for kind, m in gl.pset_mutations(c.rng, b, budget):
            check_pset_bytes(c, "recorded-" + kind, m, lossless=False)
    c.flush()
    for k in range(n):
        g = gl.gen_pset_bytes(c.rng)
        check_pset_bytes(c, "generated:v%d" % g["version"], g["bytes"])
        if k % 3 == 0:
            for kind, m in gl.pset_mutations(c.rng, g["bytes"], budget // 2):
                check_pset_bytes(c, "generated-" + kind, m)
        if k % 60 == 59:
            c.flush()
    for k in range(max(6, n // 8)):
        b = v0_full(c.rng)
        check_pset_bytes(c, "v0-full", b)
        if k % 4 == 0:
            for kind, m in gl.pset_mutations(c.rng, b, max(4, budget // 4)):
                check_pset_bytes(c, "v0-full-" + kind, m)
    c.flush()
    for _ in range(max(2, n // 40)):
        check_pset_bytes(c, "v0-issuance", v0_with_issuance(c.rng))
        b = v0_signed(c.rng)
        if impl_pset_parse(b) is not None:
            c.fail("version-0 PSET with a SIGNED global transaction accepted (witness would be dropped; audit2 B-4)",
                   {"op": "pset.v0signed", "bytes": hx(b)})
        check_pset_bytes(c, "v0-signed", b)
    c.flush()


# ================================================================ C. verify() / unblind() decision logic under an oracle

ORACLE_FIELDS = ["genParseOk", "genBlindedOk", "genEq", "surjParseOk", "genGenerateOk", "surjVerify", "commitOk",
                 "commitSerOk", "commitEq", "commitParseOk", "rangeOk"]


class OracleSecp:
    """stand-in for embit.util.secp256k1 whose every answer is dictated"""

    def __init__(self, o, target):
        self.o = o
        self.target = target

    def _r(self, ok, val):
        if not ok:
            raise ValueError("oracle says: fails")
        return val

    def generator_parse(self, b):
        return self._r(self.o["genParseOk"], b"\x01")

    def generator_generate(self, a):
        return self._r(self.o["genGenerateOk"], b"\x03")

    def generator_generate_blinded(self, a, r):
        return self._r(self.o["genBlindedOk"], b"\x01" if self.o["genEq"] else b"\x02")

    def surjectionproof_parse(self, p):
        return self._r(self.o["surjParseOk"], b"\x05")

    def surjectionproof_verify(self, proof, tags, gen):
        return self.o["surjVerify"]

    def pedersen_commit(self, vbf, value, gen):
        if not isinstance(value, int):
            raise TypeError("value")
        return self._r(self.o["commitOk"], (b"\x04" if self.o["commitEq"] else b"\x06") if self.target is None else b"\x04")

    def pedersen_commitment_serialize(self, c_):
        return self._r(self.o["commitSerOk"], self.target if self.o["commitEq"] else self.target + b"\x00")

    def pedersen_commitment_parse(self, b):
        return self._r(self.o["commitParseOk"], b"\x04")

    def rangeproof_verify(self, proof, c_, extra, gen):
        return self._r(self.o["rangeOk"], (self.o["min"], self.o["max"]))


def oracle_tokens(o):
    return " ".join(["1" if o[f] else "0" for f in ORACLE_FIELDS] + [str(o["min"]), str(o["max"])])


def rand_oracle(rng, value):
    o = {f: rng.random() < 0.75 for f in ORACLE_FIELDS}
    v = value if isinstance(value, int) else 7
    o["min"] = rng.choice([v, v, v, v + 1, 0])
    o["max"] = rng.choice([o["min"], o["min"], v, v + 1])
    return o


def impl_verify(fields, o):
    s = LOutputScope({})
    (s.asset, s.asset_commitment, s.asset_blinding_factor, s.asset_proof, s.value, s.value_commitment,
     s.value_blinding_factor, s.value_proof) = fields
    saved = pset_mod.secp256k1
    pset_mod.secp256k1 = OracleSecp(o, fields[5] if fields[5] is not None else b"")
    try:
        try:
            return bool(s.verify())
        except Exception:
            return False
    finally:
        pset_mod.secp256k1 = saved


def truthy(x):
    return x is not None and len(x) > 0


def py_consistent(f, o):
    """the consistency predicates of Props/C18.lean `Consistent`, evaluated on the oracle's answers (written from
    the property, not from verify())"""
    asset, ac, abf, ap, value, vc, vbf, vp = f
    asset_ok = None
    if asset is not None and truthy(ac):
        asset_ok = o["genParseOk"] and ((truthy(abf) and o["genBlindedOk"] and o["genEq"]) or
                                        (not truthy(abf) and truthy(ap) and o["surjParseOk"] and o["genGenerateOk"] and o["surjVerify"]))
        if not asset_ok:
            return False
    if value is not None and truthy(vc):
        if not asset_ok:
            return False
        return bool((truthy(vbf) and o["commitOk"] and o["commitSerOk"] and o["commitEq"]) or
                    (not truthy(vbf) and truthy(vp) and o["commitParseOk"] and o["rangeOk"] and o["min"] == o["max"] == value))
    return True


def explore_verify_logic(c, n):
    rng = c.rng
    opts = [None, b"", b"\xaa" * 3]
    for k in range(n):
        if k < 40:
            fields = [b"\x11" * 32, b"\x0a" * 33, b"\x22" * 32, b"\x33" * 5, 5, b"\x08" * 33, b"\x44" * 32, b"\x55" * 9]
            # knock out 0-2 fields
            for _ in range(rng.randrange(0, 3)):
                j = rng.randrange(8)
                fields[j] = rng.choice([None, 0 if j == 4 else b""])
        else:
            fields = [rng.choice(opts) for _ in range(8)]
            fields[4] = rng.choice([None, 0, 1, 5, 2**52 - 1])
        o = rand_oracle(rng, fields[4])
        res = impl_verify(fields, o)
        toks = " ".join([ob(fields[0]), ob(fields[1]), ob(fields[2]), ob(fields[3]), on(fields[4]), ob(fields[5]), ob(fields[6]), ob(fields[7])])
        c.count(("verifylogic", toks, oracle_tokens(o)), nontrivial=True)
        c.tally("verifylogic:%s" % ("ok" if res else "rejected"))
        c.expect("pset.verifylogic %s %s" % (toks, oracle_tokens(o)), "ok " + ("true" if res else "false"),
                 {"fields": toks, "oracle": o}, proven=False)
        if res and not py_consistent(fields, o):
            c.fail("verify() returns True although a consistency predicate (asset / value against the commitments) does not hold",
                   {"op": "verify-logic", "fields": toks, "oracle": o})
    # unblind(): the two equality checks after the range proof was rewound
    for k in range(min(n, 64)):
        o = rand_oracle(rng, 5)
        i = LInputScope({})
        i.txid, i.vout = bytes(32), 0
        i.witness_utxo = LTransactionOutput(b"\x0a" * 33, b"\x08" * 33, Script(b"\x51"), b"\x02" * 33)
        i.range_proof = b"\x01"
        saved = (pset_mod.secp256k1, pset_mod.unblind)
        pset_mod.secp256k1 = OracleSecp(o, None)
        pset_mod.unblind = lambda *a, **kw: (5, b"\x11" * 32, b"\x44" * 32, b"\x22" * 32, b"", 1, 2**52)
        try:
            try:
                i.unblind(real_ec.PrivateKey(b"\x01" * 32))
                res = i.value == 5 and i.asset == b"\x11" * 32 and i.value_blinding_factor == b"\x44" * 32 and i.asset_blinding_factor == b"\x22" * 32
            except Exception:
                res = False
                if i.value is not None or i.asset is not None:
                    c.fail("LInputScope.unblind raised but left unblinded data in the scope", {"op": "pset.unblindlogic", "oracle": o})
        finally:
            pset_mod.secp256k1, pset_mod.unblind = saved
        c.count(("unblindlogic", oracle_tokens(o)), nontrivial=True)
        c.expect("pset.unblindlogic " + oracle_tokens(o), "ok " + ("true" if res else "false"), {"oracle": o}, proven=False)
        if res and not (o["genBlindedOk"] and o["genParseOk"] and o["genEq"] and o["commitOk"] and o["commitParseOk"] and o["commitEq"]):
            c.fail("LInputScope.unblind stores data although a commitment check does not hold", {"op": "unblind-logic", "oracle": o})
    c.flush()


# ================================================================ D. PSET.blind data flow under symbolic stand-ins

def S(name, *args):
    h = name.encode()
    for a in args:
        h += len(a).to_bytes(4, "little") + bytes(a)
    return hashlib.sha256(h).digest()


def slist(l):
    return len(l).to_bytes(4, "little") + b"".join(len(a).to_bytes(4, "little") + bytes(a) for a in l)


def snat(n):
    return str(n).encode()


class SymSecp:
    """every library function returns the hash of its name and arguments (same construction as Driver/Liquid.lean);
    objects the C library mutates in place are bytearrays"""
    calls = None

    def generator_parse(self, b):
        return S("generator_parse", b)

    def generator_serialize(self, g):
        return S("generator_serialize", g)

    def generator_generate(self, a):
        return S("generator_generate", a)

    def generator_generate_blinded(self, a, r):
        return S("generator_generate_blinded", a, r)

    def pedersen_commit(self, vbf, v, g):
        return S("pedersen_commit", vbf, snat(v), g)

    def pedersen_commitment_parse(self, b):
        return S("pedersen_commitment_parse", b)

    def pedersen_commitment_serialize(self, c_):
        return S("pedersen_commitment_serialize", c_)

    def pedersen_blind_generator_blind_sum(self, vals, abfs, vbfs, n):
        if n < 0:
            raise ValueError("negative number of inputs")  # not a valid call of the library
        if self.calls is not None:
            self.calls.append((list(vals), list(abfs), list(vbfs), n))
        return S("pedersen_blind_generator_blind_sum", slist([snat(v) for v in vals]), slist(abfs), slist(vbfs), snat(n))

    def surjectionproof_initialize(self, in_tags, out_tag, seed, tags_to_use=None, iterations=100):
        p = S("surjectionproof_initialize", slist(in_tags), out_tag, seed, str(tags_to_use).encode(), snat(iterations))
        return bytearray(p), (0 if len(in_tags) == 0 else p[0] % len(in_tags))

    def surjectionproof_generate(self, proof, idx, gens, out, in_abf, out_abf):
        proof[:] = S("surjectionproof_generate", proof, snat(idx), slist(gens), out, in_abf, out_abf)
        return proof

    def surjectionproof_serialize(self, proof):
        return S("surjectionproof_serialize", proof)

    def rangeproof_sign(self, nonce, value, vc, vbf, msg, extra, gen, min_value=None, exp=0, min_bits=52):
        return S("rangeproof_sign", nonce, snat(value), vc, vbf, msg, extra, gen, str(min_value).encode(), str(exp).encode(), snat(min_bits))

    def ec_pubkey_parse(self, b):
        return bytearray(S("ec_pubkey_parse", b))

    def ec_pubkey_tweak_mul(self, pub, t):
        pub[:] = S("ec_pubkey_tweak_mul", pub, t)

    def ec_pubkey_serialize(self, pub):
        return S("ec_pubkey_serialize", pub)


class SymPriv:
    def __init__(self, secret):
        self.secret = secret

    def sec(self):
        return S("pubkey_of_secret", self.secret)


def gen_blind_structure(rng):
    """(PSET object, tokens) — inputs/outputs with every presence pattern the data flow distinguishes"""
    p = PSET(version=2)
    p.tx_version, p.locktime = 2, 0
    assets = [gen.rbytes(rng, 32) for _ in range(rng.choice([1, 2]))]
    nin = rng.randrange(0, 4)
    it = []
    for _ in range(nin):
        i = LInputScope({})
        i.txid, i.vout, i.sequence = gen.rbytes(rng, 32), gen.pick_u32(rng), 0
        r = rng.random()
        a = rng.choice(assets)
        if r < 0.4:      # explicit
            i.witness_utxo = LTransactionOutput(a, rng.choice(gl.VALUES[:6]), Script(b"\x51"))
        elif r < 0.8:    # confidential, unblinded
            i.witness_utxo = LTransactionOutput(b"\x0a" + gen.rbytes(rng, 32), b"\x08" + gen.rbytes(rng, 32), Script(b"\x51"), b"\x02" + gen.rbytes(rng, 32))
            i.value, i.asset = rng.choice(gl.VALUES[:6]), a
            i.asset_blinding_factor = gen.rbytes(rng, 32) if rng.random() < 0.9 else None
            i.value_blinding_factor = gen.rbytes(rng, 32) if rng.random() < 0.9 else rng.choice([None, b""])
        elif r < 0.9:    # confidential, not unblinded: skipped by blind
            i.witness_utxo = LTransactionOutput(b"\x0b" + gen.rbytes(rng, 32), b"\x09" + gen.rbytes(rng, 32), Script(b"\x51"), b"\x03" + gen.rbytes(rng, 32))
        else:            # no utxo at all / only a stated value
            if rng.random() < 0.5:
                i.value, i.asset = 5, a
        u = i.utxo
        it += [hx(i.txid), str(i.vout), on(i.value), ob(i.asset), ob(i.asset_blinding_factor), ob(i.value_blinding_factor),
               "None" if u is None else gl.commit_tok(u.value), "None" if u is None else hx(u.asset)]
        p.inputs.append(i)
    nout = rng.randrange(1, 5)
    ot = []
    for _ in range(nout):
        o = LOutputScope({})
        o.script_pubkey = Script(b"" if rng.random() < 0.2 else gen.rbytes(rng, rng.choice([1, 22, 23, 34])))
        r = rng.random()
        o.value = None if r < 0.06 else (rng.choice(gl.VALUES[:5]) if r < 0.5 else rng.getrandbits(50))
        r = rng.random()
        o.asset = None if r < 0.05 else (b"" if r < 0.08 else (b"\x01" + rng.choice(assets) if r < 0.12 else rng.choice(assets)))
        r = rng.random()
        o.blinding_pubkey = None if r < 0.3 else (b"" if r < 0.34 else b"\x02" + gen.rbytes(rng, 32))
        if rng.random() < 0.2:   # stale factors from an earlier blinding are overwritten
            o.asset_blinding_factor, o.value_blinding_factor = gen.rbytes(rng, 32), gen.rbytes(rng, 32)
        ot += [hx(o.script_pubkey.data), on(o.value), ob(o.asset), ob(o.blinding_pubkey), ob(o.asset_blinding_factor), ob(o.value_blinding_factor)]
        p.outputs.append(o)
    return p, " ".join([str(nin)] + it + [str(nout)] + ot)


def explore_blind_flow(c, n):
    rng = c.rng
    for k in range(n):
        p, toks = gen_blind_structure(rng)
        seed = gen.rbytes(rng, 32)
        sym = SymSecp()
        sym.calls = []
        saved = (pset_mod.secp256k1, pset_mod.ec)
        pset_mod.secp256k1 = sym
        pset_mod.ec = types.SimpleNamespace(PrivateKey=SymPriv)
        try:
            try:
                p.blind(seed)
                res = "ok " + " ".join(" ".join([ob(o.asset_blinding_factor), ob(o.value_blinding_factor), ob(o.asset_commitment),
                                                 ob(o.value_commitment), ob(o.ecdh_pubkey), ob(o.range_proof), ob(o.surjection_proof),
                                                 ob(o.asset_proof), ob(o.value_proof)]) for o in p.outputs)
            except Exception as e:
                res = "none"
        finally:
            pset_mod.secp256k1, pset_mod.ec = saved
        c.count(("blind", toks, seed), nontrivial=True)
        c.tally("blindflow:%s" % ("ok" if res != "none" else "raises"))
        info = {"structure": toks[:20000], "seed": hx(seed)}
        c.expect("pset.blind %s %s" % (hx(seed), toks), res, info, proven=False)
        if sym.calls:
            vals, abfs, vbfs, nn = sym.calls[0]
            if nn >= 0:
                ts = hx(p.txseed(seed))
                c.expect("pset.blindsum %s %s" % (hx(seed), toks),
                         "ok " + " ".join([ts, str(nn), str(len(vals))] + [str(v) for v in vals] + [hx(x) for x in abfs] + [hx(x) for x in vbfs]), info, proven=False)
        if k % 100 == 99:
            c.flush()
    c.flush()


# ================================================================ E. the real library (subprocess)

def run_worker(seed, n, digest_only=False, timeout=1200):
    env = dict(os.environ)
    env["EMBIT_REPO"] = REPO
    env["PYTHONPATH"] = os.path.join(REPO, "src")
    cmd = [sys.executable, "-W", "ignore", os.path.join(VERIF, "harness", "liquid_worker.py"), str(seed), str(n)]
    if digest_only:
        cmd.append("digest")
    p = subprocess.run(cmd, capture_output=True, text=True, timeout=timeout, env=env)
    if p.returncode != 0:
        return {"crash": p.returncode, "stderr": p.stderr[-2000:]}
    for line in reversed(p.stdout.strip().split("\n")):
        if line.startswith("{"):
            return json.loads(line)
    return {"crash": "no-output", "stderr": p.stderr[-2000:]}


def real_library(c, n):
    r = run_worker(c.seed, n)
    if "crash" in r:
        c.fail("the blinding worker crashed (rc=%s): the real library aborted or raised outside a case" % r["crash"],
               {"op": "worker", "stderr": r.get("stderr", "")})
        return
    for k, v in r["tally"].items():
        c.tally("real:" + k, v)
    c.evaluations += r["cases"]
    for i in range(r["cases"]):
        c.distinct.add(hashlib.sha1(("real%d/%d" % (c.seed, i)).encode()).digest()[:8])
    for s in r["samples"]:
        c.sample(s)
    for f in r["failures"]:
        c.fail(f["what"], dict(f["info"], op="real-library"))
    # determinism across processes: a second interpreter blinds the first cases again
    m = min(n, 6)
    d1 = run_worker(c.seed, m, digest_only=True)
    d2 = run_worker(c.seed, m, digest_only=True)
    if "crash" in d1 or "crash" in d2 or d1["digest"] != d2["digest"]:
        c.fail("blinding the same PSETs with the same seeds in two interpreters gives different bytes",
               {"op": "real-library", "d1": d1.get("digest"), "d2": d2.get("digest")})
    c.extra["real_library_cases"] = r["cases"]


# ================================================================ F. blech32, confidential addresses, SLIP-77

HRPS = ["lq", "el", "tlq"]


def blech32_facts(c):
    """translator for facts: the polymod generator constants (function-local list -> co_consts of the loaded
    function) and CHARSET of the loaded module must be the ones the Lean theorems are about"""
    consts = []
    ints = []
    for k in blech32.bech32_polymod.__code__.co_consts:
        for x in (k if isinstance(k, tuple) else (k,)):
            if isinstance(x, int) and x >= 2**40:
                ints.append(x)
    # the five generator constants; the 55-bit mask 0x7fffffffffffff is the only other large constant
    consts = [x for x in ints if x != 0x7FFFFFFFFFFFFF]
    if 0x7FFFFFFFFFFFFF not in ints:
        consts.append(-1)  # mask changed: report as drift
    c.count(("blech32-facts",), nontrivial=True)
    c.expect("blech32.consts", "ok " + " ".join(str(x) for x in consts) + " " + hx(blech32.CHARSET.encode()),
             {"what": "generator constants / CHARSET extracted from embit.liquid.blech32"}, proven=False)


def explore_addresses(c, n):
    rng = c.rng
    blech32_facts(c)
    for k in range(n):
        hrp = rng.choice(HRPS) if rng.random() < 0.9 else rng.choice(["ex", "LQ", "l1q", ""])
        ver = rng.choice([0, 0, 0, 1, 16, 17, 31, 32])
        prog = gen.rbytes(rng, rng.choice([53, 65, 0, 1, 40, 70]))
        try:
            a = blech32.encode(hrp, ver, prog)
        except Exception:
            a = None
        c.count(("blech32", hrp, ver, prog), nontrivial=True)
        c.expect("blech32.enc %s %d %s" % (hx(hrp.encode()), ver, hx(prog)), "none" if a is None else "ok " + hx(a.encode()), {"hrp": hrp, "ver": ver}, proven=False)
        if a is not None:
            if not blech32.bech32_verify_checksum(hrp, [blech32.CHARSET.find(x) for x in a[len(hrp) + 1:]]):
                c.fail("blech32: created checksum does not verify", {"op": "blech32", "addr": a})
            variants = [a, a.upper(), a[:-1] + ("q" if a[-1] != "q" else "p"), a[:len(hrp) + 3] + a[len(hrp) + 4:], a[0].upper() + a[1:]]
            k2 = rng.randrange(len(hrp) + 1, len(a))
            variants.append(a[:k2] + rng.choice(blech32.CHARSET) + a[k2 + 1:])
            for v in variants:
                try:
                    d = blech32.decode(hrp, v)
                except Exception:
                    d = (None, None)
                if d == (None, None):
                    r = "none"
                else:
                    r = "ok %d %s" % (d[0], "None" if d[1] is None else hx(bytes(d[1])))
                c.expect("blech32.dec %s %s" % (hx(hrp.encode()), hx(v.encode())), r, {"addr": v}, proven=False)
                if v not in (a, a.upper()) and d != (None, None) and d[1] is not None and bytes(d[1]) == prog and d[0] == ver and v.lower() != a.lower():
                    c.fail("blech32: a different string decodes to the same data", {"op": "blech32", "addr": v})
    # confidential addresses
    for k in range(n):
        pub = real_ec.PrivateKey(gen.rbytes(rng, 32))
        r = rng.random()
        if r < 0.4:
            spk = b"\x00\x14" + gen.rbytes(rng, 20)
        elif r < 0.8:
            spk = b"\x00\x20" + gen.rbytes(rng, 32)
        elif r < 0.9:
            spk = b"\x51\x20" + gen.rbytes(rng, 32)    # witness v1: decoded as version 0 by embit (observation)
        else:
            spk = bytes([rng.choice([0x52, 0x60])]) + bytes([rng.choice([2, 20, 32, 40])])
            spk += gen.rbytes(rng, spk[1])
        net = rng.choice([x for x in addresses.NETWORKS.values() if "blech32" in x])
        try:
            a = addresses.address(Script(spk), pub, net)
        except Exception:
            a = None
        c.count(("laddr", spk, pub.sec()), nontrivial=True)
        c.expect("laddr.enc %s %s %s" % (hx(net["blech32"].encode()), hx(spk), hx(pub.sec())), "none" if a is None else "ok " + hx(a.encode()), {"spk": hx(spk)}, proven=False)
        if a is None:
            continue
        for v in (a, a.upper(), a[:-2] + "qq"):
            try:
                sc, pk = addresses.addr_decode(v)
                r2 = "ok %s %s" % (hx(sc.data), hx(pk.sec()))
            except Exception:
                sc, r2 = None, "none"
            c.expect("laddr.dec " + hx(v.encode()), r2, {"addr": v}, proven=False)
            if v == a and spk[0] == 0:
                if sc is None or sc.data != spk or pk.sec() != pub.sec():
                    c.fail("confidential address of a version-0 script does not decode to the script and blinding key", {"op": "laddr", "addr": a, "spk": hx(spk)})
            elif v == a:
                c.tally("laddr:witness-v%d:%s" % (spk[0] - 0x50, "roundtrip" if sc is not None and sc.data == spk else "decoded-as-v0"))
    # SLIP-77
    for k in range(max(4, n // 8)):
        seed = gen.rbytes(rng, rng.choice([16, 32, 64]))
        spk = gen.rbytes(rng, rng.choice([0, 22, 23, 34]))
        m = slip77.master_blinding_from_seed(seed)
        c.expect("slip77.master " + hx(seed), "ok " + hx(m.secret), {}, proven=False)
        c.expect("slip77.key %s %s" % (hx(m.secret), hx(spk)), "ok " + hx(slip77.blinding_key(m, Script(spk)).secret), {}, proven=False)
    c.flush()


# ================================================================ G. base58 Liquid addresses (C18X section 3), witnesses

from embit import base58 as real_b58

B58_NETS = ["liquidv1", "elementsregtest", "liquidtestnet", "main", "test", "regtest", "signet"]


def py_route(addr):
    """the dispatch of addr_decode, restated (independent of the model): which branch does the text take?"""
    if addr == "Fee":
        return "fee"
    h = addr.split("1")[0].lower()
    if h in [n.get("blech32") for n in addresses.NETWORKS.values()]:
        return "blech32"
    if h in [n.get("bech32") for n in addresses.NETWORKS.values()]:
        return "bech32"
    return "base58"


def impl_route(addr):
    r = py_route(addr)
    if r != "base58":
        return r
    try:
        sc, pk = addresses.addr_decode(addr)
        return "ok %s %s" % (hx(sc.data), "None" if pk is None else hx(pk.sec()))
    except Exception:
        return "none"


def explore_b58_addresses(c, n):
    rng = c.rng
    # the prefix table the theorems are about must be the one of the loaded module
    tab = " ".join("%s:%s:%s:%s:%s" % (k, v["p2sh"].hex(), v["bp2sh"].hex() if "bp2sh" in v else "None", v["bech32"],
                                       v.get("blech32", "None")) for k, v in addresses.NETWORKS.items())
    c.count(("laddr-nets",), nontrivial=True)
    c.expect("laddr.nets", "ok " + tab, {"what": "liquid.networks.NETWORKS prefixes"}, proven=False)
    for k in range(n):
        name = rng.choice(B58_NETS[:3]) if rng.random() < 0.8 else rng.choice(B58_NETS)
        net = addresses.NETWORKS[name]
        pub = real_ec.PrivateKey(gen.rbytes(rng, 32)).get_public_key() if rng.random() < 0.75 else None
        r = rng.random()
        h = gen.rbytes(rng, 20) if r < 0.8 else bytes([rng.choice([0, 255])]) * 20
        spk = b"\xa9\x14" + h + b"\x87"
        if r > 0.95:
            spk = rng.choice([b"", b"\xa9\x14" + h, b"\xa9\x14" + h + b"\x88", b"\x00\x14" + h])
        try:
            a = addresses.address(Script(spk), pub, net)
        except Exception:
            a = None
        if a is not None and (spk == b"" or Script(spk).script_type() != "p2sh"):
            a = None          # "Fee" / segwit branch: not this op (the model answers none as well)
        c.count(("laddr-b58", name, spk, None if pub is None else pub.sec()), nontrivial=True)
        c.tally("laddr-b58:%s:%s" % (name, "conf" if pub else "plain"))
        c.expect("laddr.p2sh %s %s %s" % (name, hx(spk), "None" if pub is None else hx(pub.sec())),
                 "none" if a is None else "ok " + hx(a.encode()), {"net": name, "spk": hx(spk)}, proven=False)
        if a is None:
            continue
        # the property on embit alone
        try:
            sc, pk = addresses.addr_decode(a)
            good = sc.data == spk and ((pk is None) if pub is None else (pk is not None and pk.sec() == pub.sec()))
        except Exception:
            good = False
        if not good:
            c.fail("base58 Liquid address does not decode to the script and blinding key it was made from",
                   {"op": "laddr.b58", "addr": a, "spk": hx(spk), "net": name})
        j = rng.randrange(len(a))
        variants = [a, a[:-1], a + "1", a[0].swapcase() + a[1:], a[:j] + rng.choice(real_b58.B58_DIGITS) + a[j + 1:],
                    a[:j] + rng.choice("0OIl+ ") + a[j + 1:]]
        for v in variants:
            c.expect("laddr.route " + hx(v.encode()), impl_route(v), {"addr": v}, proven=False)
    # payloads of unusual length / lookalike prefixes, straight through base58check
    for k in range(max(10, n // 3)):
        r = rng.random()
        pre = rng.choice([b"\x0c\x27", b"\x04\x4b", b"\x17\x13", b"\x27", b"\x4b", b"\x13", b"\x05", b"\xc4", b"\x0c", b"\x00", b""])
        body = gen.rbytes(rng, rng.choice([0, 1, 19, 20, 21, 33, 52, 53, 54]))
        if r < 0.5 and len(pre) == 2:
            body = real_ec.PrivateKey(gen.rbytes(rng, 32)).sec() + gen.rbytes(rng, rng.choice([0, 19, 20, 21]))
        a = real_b58.encode_check(pre + body)
        c.count(("laddr-b58raw", a), nontrivial=True)
        c.expect("laddr.route " + hx(a.encode()), impl_route(a), {"addr": a}, proven=False)
    for t in ["", "Fee", "fee", "ex1", "Ex1qq", "LQ1abc", "Bc1xyz", "bcrt1", "B1abc", "el1", "EL1", "tLq1", "1", "11", "3", "V", "ert", "lq"]:
        c.count(("laddr-route-hand", t), nontrivial=True)
        c.expect("laddr.route " + (hx(t.encode()) if t else "-"), impl_route(t), {"addr": t}, proven=False)
    c.flush()


def witnesses(c):
    """the witness points of the C18X theorems, replayed on embit and on the model"""
    from embit.liquid.transaction import LTransaction, LTransactionInput, LTransactionOutput
    # C18Z.pset_v0_pegin_kept (the former D53 witness): version-0 PSET whose global transaction has a peg-in input
    tx = LTransaction(2, [LTransactionInput(bytes([7]) * 32, 1, Script(b""), 0xfffffffd, is_pegin=True)],
                      [LTransactionOutput(bytes([4]) * 32, 1000, Script(b"\x51"))], 0)
    g = tx.serialize()
    b = b"pset\xff" + bytes([1, 0, len(g)]) + g + b"\x00" + b"\x00" + b"\x00"
    p = impl_pset_parse(b)
    c.count(("witness-d53",), nontrivial=True)
    if p is None or p.tx.serialize() != g or p.serialize() != b:
        c.tally("witness:D53-present")
        c.fail("version-0 PSET with a peg-in input: transaction not kept (D53, C18Z.pset_v0_pegin_kept)", {"op": "witness", "bytes": hx(b)})
    else:
        c.tally("witness:D53-repaired")
    check_pset_bytes(c, "witness-D53", b)
    c.flush()


# ================================================================ corpus / run

def corpus(c):
    p = os.path.join(VERIF, "corpus", "C18.json")
    if os.path.exists(p):
        for e in json.load(open(p)):
            b = bytes.fromhex(e["bytes"])
            if e["op"] == "ltx.parse":
                check_ltx_bytes(c, "corpus:" + e.get("kind", ""), b)
            elif e["op"] == "pset.parse":
                check_pset_bytes(c, "corpus:" + e.get("kind", ""), b)
                if e.get("kind", "").startswith("KF1") and impl_pset_parse(b) is not None:
                    c.fail("witness of the fixed finding C18-KF1 (malformed own issuance fields) is accepted again",
                           {"op": "pset.issuance-fields", "kind": "corpus:" + e.get("kind", ""), "bytes": hx(b)[:20000]})
            elif e["op"] == "verify-zero-value":
                # D26 witness: a blinded output whose stated value is replaced by 0 must not verify
                q = PSET.parse(b)
                for o in q.outputs:
                    if o.value_commitment and o.value:
                        o.value = 0
                        try:
                            ok = bool(o.verify())
                        except Exception:
                            ok = False
                        c.count(("corpus-d26", b), nontrivial=True)
                        if ok:
                            c.fail("verify() accepts a stated value of 0 against a commitment to another amount (D26)",
                                   {"op": "real-library", "pset": e["bytes"], "falsification": "value:=0"})
    c.flush()


def run(tier, seed):
    c = Check(PROP, MODS, tier, seed)
    c.rule = ("Liquid transactions: seeded random well-formed LTransactions (0-4 inputs incl. null index, peg-in / issuance flags, explicit and "
              "committed asset/value/nonce with unusual prefix bytes, witnesses) + wire mutations (truncation, trailing bytes, flag byte, superfluous "
              "witness, non-minimal lengths, bit/byte mutations) + the recorded transaction; PSETs: the six recorded PSETs with mutations and "
              "independently built v0/v2 PSETs carrying random liquid fields (aliases, duplicates, wrong-length integers, zero and empty values, "
              "unknown proprietary keys); verify()/unblind() logic: presence patterns x library-answer oracles; blind data flow: the real "
              "PSET.blind under symbolic library stand-ins; real library (subprocess): balanced PSETs with explicit/confidential inputs, 1-4 "
              "blinded outputs, explicit outputs and fee, values 0, 1, 2^52-1 and random, 1-3 assets, and ~40 single-field falsifications per "
              "blinded output; blech32 / confidential addresses / SLIP-77. Distinct by content.")
    c.assumptions = [
        "libsecp256k1-zkp (Pedersen commitments, range proofs, surjection proofs) is modelled as arbitrary deterministic functions; "
        "hiding/binding and proof soundness are cryptographic assumptions; everything about the real library is OBSERVED in differential runs",
        "balance is proved relative to the explicit algebraic hypotheses ZkpLaws (commitments form a module over the scalars; the blind-sum "
        "returns what its documentation specifies) and, for the stored commitment bytes (Props/C18Y.lean balance_stored), the serialise/parse "
        "law ZkpSerLaws; the laws are jointly satisfiable (toy instance over (Z/251)^2 with a computing blind-sum) but are NOT shown for "
        "secp256k1-zkp; input values/factors are the ones stated in the input scopes (embit never opens the utxo commitments in blind/verify)",
        "embit does not validate the prefix bytes of confidential fields (asset/value/nonce): any non-explicit prefix is carried verbatim",
        "LOutputScope.verify() consults asset_proof/value_proof or the blinding factors; the range proof and surjection proof of an output are "
        "checked against the library directly, not through verify()",
    ]
    c.build_and_audit()
    c.classifiers["v0_own_issuance_null_index"] = v0_own_issuance_null_index
    corpus(c)
    if tier == "quick":
        explore_ltx(c, 150, True, 24)
        explore_pset(c, 300, 16)
        explore_verify_logic(c, 4000)
        explore_blind_flow(c, 600)
        explore_addresses(c, 150)
        explore_b58_addresses(c, 150)
        witnesses(c)
        real_library(c, 150)
    else:
        explore_ltx(c, 1500, True, 50)
        explore_pset(c, 4000, 40)
        explore_verify_logic(c, 60000)
        explore_blind_flow(c, 8000)
        explore_addresses(c, 1500)
        explore_b58_addresses(c, 1500)
        witnesses(c)
        real_library(c, 1500)

    def search(cc):
        explore_ltx(cc, 200, True, 40)
        explore_pset(cc, 300, 30)
        explore_verify_logic(cc, 3000)
        explore_blind_flow(cc, 500)

    return c.finish(search=search)


def replay(path):
    r = json.load(open(path))
    op = r.get("op", "")
    if op in ("ltx.parse",) or (r.get("request", "").startswith("ltx.parse")):
        b = bytes.fromhex(r.get("bytes") or r["request"].split(" ", 1)[1])
        print("impl :", impl_ltx_parse(b)[:2000])
        print("model:", run_driver(["ltx.parse " + hx(b)])[0][:2000])
    elif "request" in r:
        print("impl :", r.get("impl", "")[:2000])
        print("model:", run_driver([r["request"]])[0][:2000])
    elif op == "real-library" and "blinded" in r:
        q = PSET.parse(bytes.fromhex(r["blinded"]))
        o = q.outputs[r["output"]]
        if r.get("mode") == "proof":
            o.asset_blinding_factor = o.value_blinding_factor = None
        for f, v in r["new"].items():
            setattr(o, f, bytes.fromhex(v) if isinstance(v, str) and v != "-" else (b"" if v == "-" else v))
        try:
            print("impl : verify() ->", o.verify())
        except Exception as e:
            print("impl : verify() raises", repr(e))
    elif op == "real-library" and r.get("falsification") == "value:=0" and "pset" in r:
        q = PSET.parse(bytes.fromhex(r["pset"]))
        for j, o in enumerate(q.outputs):
            if o.value_commitment and o.value:
                was = o.value
                o.value = 0
                try:
                    print("impl : output %d stated value %d := 0, verify() -> %s" % (j, was, o.verify()))
                except Exception as e:
                    print("impl : output %d stated value %d := 0, verify() raises %r" % (j, was, e))
        print("model: verifyView refuses (theorem verify_sound); verifyViewOld accepts (theorem old_verify_skips_zero_value)")
    else:
        print(json.dumps(r)[:3000])
    return 0
