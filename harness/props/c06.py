"""C06 — previous-output verification binds amounts and scripts to the spent txid.

Theorems: Props/C06.lean (streamed reader = parse-then-project; verify succeeds only when the hash matches; after
success the utxo in use is the verified previous output; an altered previous tx with the same txid is a SHA-256d
collision). Tie: `psbt.verify` runs parse (3 compression modes) + per-input verify + utxo + fee on embit and on the
Lean model; the property is also evaluated directly on embit against previous transactions built independently.
Props/C06X.lean + Model/PsbtVerify.lean: `PSBT.verify(ignore_missing)` / `PSBT.is_verified` as ONE call (op
`psbt.verifyall`): returned value or raise, the flags left behind (also when it raises half-way), utxo and fee after."""
import hashlib
import json

from core import Check, hx, run_driver
import gen
from gen import cs, kv, rbytes

from embit.psbt import PSBT

PROP = "C06"
MODS = ["EmbitModel.Props.C06", "EmbitModel.Props.C06X"]


def dsha(b):
    return hashlib.sha256(hashlib.sha256(b).digest()).digest()


def ser_prev(p, witness=True):
    """p = dict(version, vin=[(txid, vout, ss, seq, wit)], vout=[(value, spk)], locktime) -> wire bytes"""
    seg = witness and any(i[4] for i in p["vin"])
    b = p["version"].to_bytes(4, "little") + (b"\x00\x01" if seg else b"") + cs(len(p["vin"]))
    for (txid, n, ss, seq, wit) in p["vin"]:
        b += txid[::-1] + n.to_bytes(4, "little") + cs(len(ss)) + ss + seq.to_bytes(4, "little")
    b += cs(len(p["vout"]))
    for (val, spk) in p["vout"]:
        b += val.to_bytes(8, "little") + cs(len(spk)) + spk
    if seg:
        for i in p["vin"]:
            b += cs(len(i[4])) + b"".join(cs(len(x)) + x for x in i[4])
    return b + p["locktime"].to_bytes(4, "little")


def gen_prev(rng):
    seg = rng.random() < 0.5
    vin = []
    for _ in range(rng.randrange(1, 4)):
        wit = [rbytes(rng, rng.choice([0, 1, 33, 72])) for _ in range(rng.randrange(1, 3))] if (seg and rng.random() < 0.8) else []
        vin.append((rbytes(rng, 32), gen.pick_u32(rng), gen.gen_script(rng) if rng.random() < 0.5 else b"", gen.pick_u32(rng), wit))
    if seg and not any(i[4] for i in vin):
        vin[0] = vin[0][:4] + ([b"\x01"],)
    vout = [(gen.pick_u64(rng) % (2**50), gen.gen_script(rng)) for _ in range(rng.randrange(1, 5))]
    return {"version": gen.pick_u32(rng), "vin": vin, "vout": vout, "locktime": gen.pick_u32(rng)}


def build(version, ins, outs, txver=2, locktime=0):
    """ins: [dict(txid, vout, seq, pairs)], outs: [(value, spk)]"""
    b = b"psbt\xff"
    if version == 0:
        b += kv(b"\x00", gen.raw_tx(txver, [(i["txid"], i["vout"], b"", i["seq"]) for i in ins], outs, locktime))
    else:
        b += kv(b"\x02", txver.to_bytes(4, "little")) + kv(b"\x03", locktime.to_bytes(4, "little"))
        b += kv(b"\x04", cs(len(ins))) + kv(b"\x05", cs(len(outs))) + kv(b"\xfb", (2).to_bytes(4, "little"))
    b += b"\x00"
    for i in ins:
        pairs = list(i["pairs"])
        if version == 2:
            v2 = [(b"\x0e", i["txid"][::-1]), (b"\x0f", i["vout"].to_bytes(4, "little")), (b"\x10", i["seq"].to_bytes(4, "little"))]
            o = i.get("v2order", 0)
            if o % 3 == 1:
                v2 = [v2[0], v2[2], v2[1]]
            elif o % 3 == 2:
                v2 = [v2[2], v2[1], v2[0]]
            pairs = (v2 + pairs) if i.get("v2first", True) else (pairs + v2)
        b += b"".join(kv(k, v) for k, v in pairs) + b"\x00"
    for (val, spk) in outs:
        if version == 2:
            b += kv(b"\x03", val.to_bytes(8, "little")) + kv(b"\x04", spk)
        b += b"\x00"
    return b


def impl_verify(b, compress):
    try:
        p = PSBT.parse(b, compress=compress)
    except Exception:
        return "none", None
    res = []
    for inp in p.inputs:
        try:
            res.append("true" if inp.verify(ignore_missing=True) else "false")
        except Exception:
            res.append("raise")
    utx = []
    for i in range(len(p.inputs)):
        try:
            u = p.utxo(i)
            utx.append("None" if u is None else "%d/%s" % (u.value, hx(u.script_pubkey.data)))
        except Exception:
            utx.append("None")
    try:
        fee = str(p.fee())
    except Exception:
        fee = "err"
    # the PSBT-level observation points: is_verified after the per-input calls, and PSBT.verify() on a fresh parse
    try:
        flag = "true" if p.is_verified else "false"
    except Exception:
        flag = "raise"
    try:
        q = PSBT.parse(b, compress=compress)
        whole = "true" if q.verify(ignore_missing=True) else "false"
    except Exception:
        whole = "raise"
    return "ok " + " ".join(res) + " | " + " ".join(utx) + " | " + fee, (res, utx, fee, flag, whole)


def impl_verifyall(b, compress, ign):
    """PSBT.verify(ignore_missing=ign) as one call on a fresh parse; what it returns / that it raises, and the state
    it leaves behind: per-input is_verified, PSBT.is_verified, utxo in use, fee"""
    try:
        p = PSBT.parse(b, compress=compress)
    except Exception:
        return "none", None
    try:
        r = "true" if p.verify(ignore_missing=bool(ign)) else "false"
    except Exception:
        r = "raise"
    flags = ["true" if inp.is_verified else "false" for inp in p.inputs]
    try:
        isv = "true" if p.is_verified else "false"
    except Exception:
        isv = "raise"
    utx = []
    for i in range(len(p.inputs)):
        try:
            u = p.utxo(i)
            utx.append("None" if u is None else "%d/%s" % (u.value, hx(u.script_pubkey.data)))
        except Exception:
            utx.append("None")
    try:
        fee = str(p.fee())
    except Exception:
        fee = "err"
    return "ok %s | %s | %s | %s | %s" % (r, " ".join(flags), isv, " ".join(utx), fee), (r, flags, isv, utx, fee)


def expected_verifyall(res, ign):
    """what PSBT.verify(ignore_missing=ign) must do, from the verdicts `res` of the inputs' own
    verify(ignore_missing=True) on a fresh parse ("true" / "false" = nothing to verify with / "raise"): the loop stops
    at the first input whose own verify raises (with ign=0 a missing previous transaction raises too); inputs before it
    keep their verdict, that one and the later ones are untouched (unverified on a fresh parse)"""
    stop = None
    for i, r in enumerate(res):
        if r == "raise" or (r == "false" and not ign):
            stop = i
            break
    n = len(res) if stop is None else stop
    flags = ["true" if (i < n and res[i] == "true") else "false" for i in range(len(res))]
    isv = "true" if all(f == "true" for f in flags) else "false"
    return ("raise" if stop is not None else isv), flags, isv


def case(c, kind, version, ins, outs, truth):
    """truth[i] = None (no claim) or dict(hash_ok: bool, out: (value, spk) or None, consistent: bool)"""
    b = build(version, ins, outs)
    for compress in (0, 1, 2):
        s, parsed = impl_verify(b, compress)
        c.count(("verify", compress, b), nontrivial=True)
        c.tally("%s:v%d:c%d" % (kind, version, compress))
        info = {"kind": kind, "compress": compress, "version": version, "bytes": hx(b)[:20000]}
        c.expect("psbt.verify %d %s" % (compress, hx(b)), s, info, proven=True)
        if parsed is None:
            continue
        res, utx, fee, flag, whole = parsed
        # PSBT.is_verified / PSBT.verify() are the conjunction of the inputs' verdicts
        want_flag = "true" if all(r == "true" for r in res) else "false"
        want_whole = "raise" if "raise" in res else want_flag
        if flag != want_flag:
            c.fail("PSBT.is_verified is %s although the inputs verified as %s" % (flag, res),
                   dict(info, op="psbt.is_verified", results=res))
        if whole != want_whole:
            c.fail("PSBT.verify() gives %s although the inputs verify as %s" % (whole, res),
                   dict(info, op="psbt.verify()", results=res))
        # PSBT.verify(ignore_missing) as one call: model (Model/PsbtVerify.lean) and, independently of the model, the
        # loop semantics derived from the inputs' own verdicts
        for ign in (0, 1):
            s2, got = impl_verifyall(b, compress, ign)
            c.count(("verifyall", compress, ign, b), nontrivial=True)
            info2 = dict(info, ign=ign)
            c.expect("psbt.verifyall %d %d %s" % (compress, ign, hx(b)), s2, info2, proven=True)
            if got is None:
                continue
            r, flags, isv, utx2, fee2 = got
            c.tally("verifyall:%s:ign%d" % (r, ign))
            if r == "raise" and "true" in flags:
                c.tally("verifyall:raised-half-way")
            wr, wflags, wisv = expected_verifyall(res, ign)
            if (r, flags, isv) != (wr, wflags, wisv):
                c.fail("PSBT.verify(ignore_missing=%s) gives %s, flags %s, is_verified %s; the inputs' own verdicts %s demand %s, %s, %s"
                       % (bool(ign), r, flags, isv, res, wr, wflags, wisv),
                       dict(info2, op="psbt.verifyall", results=res, got=[r, flags, isv]))
            for i, t in enumerate(truth):
                if t is None or flags[i] != "true":
                    continue
                rec = dict(info2, op="psbt.verifyall", input=i, utxo=utx2[i])
                if not t["hash_ok"]:
                    c.fail("PSBT.verify left input %d verified although its previous transaction does not hash to the outpoint txid (%s)" % (i, kind), rec)
                elif t["out"] is not None and utx2[i] != "%d/%s" % (t["out"][0], hx(t["out"][1])):
                    c.fail("after PSBT.verify the utxo in use for verified input %d is not the verified previous output (%s)" % (i, kind), rec)
            if r == "true" and all(t is not None and t["out"] is not None for t in truth):
                exp = sum(t["out"][0] for t in truth) - sum(v for v, _ in outs)
                if fee2 != str(exp):
                    c.fail("fee after PSBT.verify() differs from the verified amounts", dict(info2, op="psbt.fee", fee=fee2, expected=exp))
        for i, t in enumerate(truth):
            if t is None:
                continue
            rec = dict(info, op="psbt.verify", input=i, result=res[i], utxo=utx[i])
            if res[i] == "true":
                c.tally("verified")
                if not t["hash_ok"]:
                    c.fail("verification succeeded although the previous transaction does not hash to the outpoint txid (%s)" % kind, rec)
                elif t["out"] is not None and utx[i] != "%d/%s" % (t["out"][0], hx(t["out"][1])):
                    c.fail("after successful verification the utxo in use is not the verified previous output (%s)" % kind, rec)
            elif t["hash_ok"] and t["consistent"] and t["out"] is not None and res[i] != "true":
                c.fail("verification failed for a matching previous transaction (%s)" % kind, rec)
        if all(t is not None and t["hash_ok"] and t["consistent"] and t["out"] is not None for t in truth) and all(r == "true" for r in res):
            exp = sum(t["out"][0] for t in truth) - sum(v for v, _ in outs)
            if fee != str(exp):
                c.fail("fee after verification differs from verified amounts", dict(info, op="psbt.fee", fee=fee, expected=exp))


def history_cases(c, version, base, outs, prevs):
    """verify, then alter the previous transaction object in place, then verify again: the second verification must
    not succeed with the old verdict (full mode keeps the parsed previous transaction)"""
    b = build(version, base, outs)
    try:
        p = PSBT.parse(b)
        p.verify()
    except Exception:
        return
    rng = c.rng
    j = rng.randrange(len(p.inputs))
    prev = p.inputs[j].non_witness_utxo
    if prev is None:
        return
    kind = rng.choice(["value", "script", "locktime", "version", "sequence"])
    idx = p.inputs[j].vout
    if kind == "value":
        prev.vout[idx].value += 1
    elif kind == "script":
        prev.vout[idx].script_pubkey.data += b"\x51"
    elif kind == "locktime":
        prev.locktime ^= 1
    elif kind == "version":
        prev.version ^= 0x100
    else:
        prev.vin[0].sequence ^= 1
    c.count(("history", kind, b), nontrivial=True)
    c.tally("history:" + kind)
    try:
        ok = p.inputs[j].verify()
    except Exception:
        ok = False
    if ok:
        c.fail("verification still succeeds after the previous transaction object was altered in place (%s)" % kind,
               {"op": "psbt.verify.history", "kind": kind, "input": j, "bytes": hx(b)[:20000],
                "history": ["PSBT.parse", "verify()", "alter non_witness_utxo.%s" % kind, "inputs[%d].verify()" % j]})


def explore(c, n):
    rng = c.rng
    for k in range(n):
        version = rng.choice([0, 2])
        nin = rng.randrange(1, 4)
        outs = [(rng.randrange(0, 10**8), gen.gen_script(rng)) for _ in range(rng.randrange(1, 3))]
        prevs = [gen_prev(rng) for _ in range(nin)]
        base, truth = [], []
        for p in prevs:
            idx = rng.randrange(len(p["vout"]))
            txid = dsha(ser_prev(p, witness=False))[::-1]
            base.append({"txid": txid, "vout": idx, "seq": gen.pick_u32(rng), "pairs": [(b"\x00", ser_prev(p))],
                         "v2first": rng.random() < 0.7, "v2order": rng.randrange(3)})
            truth.append({"hash_ok": True, "out": p["vout"][idx], "consistent": True})
        case(c, "valid", version, base, outs, truth)
        history_cases(c, version, base, outs, prevs)
        # structured alterations of input j
        j = rng.randrange(nin)
        p = prevs[j]

        def alt(kind, newp=None, newtxid=None, newvout=None, extra=None, t=None):
            ins = [dict(x) for x in base]
            tr = [dict(x) for x in truth]
            if newp is not None:
                ins[j]["pairs"] = [(b"\x00", ser_prev(newp))]
            if newtxid is not None:
                ins[j]["txid"] = newtxid
            if newvout is not None:
                ins[j]["vout"] = newvout
            if extra is not None:
                ins[j]["pairs"] = ins[j]["pairs"] + [extra] if rng.random() < 0.5 else [extra] + ins[j]["pairs"]
            tr[j] = t
            case(c, kind, version, ins, outs, tr)

        idx = base[j]["vout"]
        q = json.loads(json.dumps(p, default=lambda b: b.hex()))  # deep copy via hex
        def dec(pp):
            return {"version": pp["version"], "locktime": pp["locktime"],
                    "vin": [(bytes.fromhex(a), b_, bytes.fromhex(c_), d, [bytes.fromhex(w) for w in e]) for a, b_, c_, d, e in pp["vin"]],
                    "vout": [(v, bytes.fromhex(s)) for v, s in pp["vout"]]}
        # amount of the spent output changed (classic fee attack)
        q1 = dec(q); q1["vout"][idx] = (q1["vout"][idx][0] + 1, q1["vout"][idx][1])
        alt("alter-amount", newp=q1, t={"hash_ok": False, "out": None, "consistent": True})
        q2 = dec(q); q2["vout"][idx] = (q2["vout"][idx][0], q2["vout"][idx][1] + b"\x51")
        alt("alter-script", newp=q2, t={"hash_ok": False, "out": None, "consistent": True})
        q3 = dec(q); q3["locktime"] ^= 1
        alt("alter-locktime", newp=q3, t={"hash_ok": False, "out": None, "consistent": True})
        q4 = dec(q); q4["version"] ^= 0x100
        alt("alter-version", newp=q4, t={"hash_ok": False, "out": None, "consistent": True})
        q5 = dec(q); a = q5["vin"][0]; q5["vin"][0] = (a[0], a[1], a[2], a[3] ^ 1, a[4])
        alt("alter-sequence", newp=q5, t={"hash_ok": False, "out": None, "consistent": True})
        # witness of the previous tx changed: txid is unchanged -> still verifies, same output
        q6 = dec(q)
        if any(i[4] for i in q6["vin"]):
            a = [i for i in range(len(q6["vin"])) if q6["vin"][i][4]][0]
            x = q6["vin"][a]; q6["vin"][a] = (x[0], x[1], x[2], x[3], x[4] + [b"\x07"])
            alt("alter-witness-only", newp=q6, t={"hash_ok": True, "out": p["vout"][idx], "consistent": True})
        # outpoint txid / index altered
        t2 = bytearray(base[j]["txid"]); t2[rng.randrange(32)] ^= 1 << rng.randrange(8)
        alt("alter-outpoint-txid", newtxid=bytes(t2), t={"hash_ok": False, "out": None, "consistent": True})
        if len(p["vout"]) > 1:
            other = (idx + 1) % len(p["vout"])
            alt("other-index", newvout=other, t={"hash_ok": True, "out": p["vout"][other], "consistent": True})
        alt("index-out-of-range", newvout=len(p["vout"]) + rng.randrange(3), t=None)
        # accompanying witness_utxo: equal / contradicting amount / contradicting script
        o = p["vout"][idx]
        wu = lambda v, s: (b"\x01", v.to_bytes(8, "little") + cs(len(s)) + s)
        alt("witness-utxo-equal", extra=wu(o[0], o[1]), t={"hash_ok": True, "out": o, "consistent": True})
        alt("witness-utxo-amount", extra=wu(o[0] + 1000, o[1]), t={"hash_ok": True, "out": o, "consistent": False})
        alt("witness-utxo-script", extra=wu(o[0], o[1] + b"\x00"), t={"hash_ok": True, "out": o, "consistent": False})
        # byte-level mutations of the previous transaction (compared with the proved model only)
        raw = ser_prev(p)
        for _ in range(4):
            mb = bytearray(raw); mb[rng.randrange(len(mb))] ^= 1 << rng.randrange(8)
            ins = [dict(x) for x in base]
            ins[j]["pairs"] = [(b"\x00", bytes(mb))]
            tr = list(truth); tr[j] = None
            case(c, "prev-bitflip", version, ins, outs, tr)
        mb = raw[:-1] if rng.random() < 0.5 else raw + b"\x00"
        ins = [dict(x) for x in base]
        ins[j]["pairs"] = [(b"\x00", mb)]
        tr = list(truth); tr[j] = None
        case(c, "prev-length", version, ins, outs, tr)
        # no previous tx at all / witness utxo only
        ins = [dict(x) for x in base]
        ins[j]["pairs"] = [wu(o[0], o[1])]
        tr = list(truth); tr[j] = None
        case(c, "witness-utxo-only", version, ins, outs, tr)
        # several inputs altered at once: each input independently keeps its previous transaction, lacks it
        # (nothing / witness_utxo only), or carries a wrong one -- so PSBT.verify raises half-way, after verified inputs
        for _ in range(3):
            n2 = rng.randrange(2, 6)
            pv = [gen_prev(rng) for _ in range(n2)]
            ins, tr = [], []
            for pp in pv:
                ix = rng.randrange(len(pp["vout"]))
                txid = dsha(ser_prev(pp, witness=False))[::-1]
                oo = pp["vout"][ix]
                how = rng.choice(["good", "good", "good", "missing", "witness-only", "wrong", "wrong-txid", "contradict"])
                pairs = [(b"\x00", ser_prev(pp))]
                t = {"hash_ok": True, "out": oo, "consistent": True}
                if how == "missing":
                    pairs, t = [], None
                elif how == "witness-only":
                    pairs, t = [wu(oo[0], oo[1])], None
                elif how == "wrong":
                    q7 = dict(pp); q7["locktime"] = pp["locktime"] ^ 1
                    pairs, t = [(b"\x00", ser_prev(q7))], {"hash_ok": False, "out": None, "consistent": True}
                elif how == "wrong-txid":
                    tb = bytearray(txid); tb[rng.randrange(32)] ^= 1 << rng.randrange(8); txid = bytes(tb)
                    t = {"hash_ok": False, "out": None, "consistent": True}
                elif how == "contradict":
                    pairs = pairs + [wu(oo[0] + 1, oo[1])]
                    t = {"hash_ok": True, "out": oo, "consistent": False}
                ins.append({"txid": txid, "vout": ix, "seq": gen.pick_u32(rng), "pairs": pairs,
                            "v2first": rng.random() < 0.7, "v2order": rng.randrange(3)})
                tr.append(t)
            case(c, "mixed", version, ins, outs, tr)
        if k == 0:
            c.sample({"psbt": hx(build(version, base, outs))[:400]})
        if k % 10 == 9:
            c.flush()
    c.flush()


def run(tier, seed):
    c = Check(PROP, MODS, tier, seed)
    c.rule = ("seeded PSBTs (v0/v2, 1-3 inputs) whose inputs carry an independently built previous transaction (legacy or "
              "segwit, 1-3 inputs, 1-4 outputs, outpoint index anywhere in range); structured alterations of the previous "
              "transaction (amount, script, locktime, version, sequence, witness only), of the outpoint (txid bit, index, index "
              "out of range), of an accompanying witness_utxo (equal, other amount, other script), byte-level mutations and "
              "wrong lengths; PSBTs of 2-5 inputs each of which independently keeps, lacks (nothing / witness_utxo only) or "
              "carries a wrong previous transaction / outpoint txid / contradicting witness_utxo; each in KEEP_ALL, "
              "CLEAR_ALL and PARTIAL parse modes; PSBT.verify as one call with ignore_missing False and True. Distinct by content.")
    c.assumptions = ["'fails for every alteration' is decided up to SHA-256d collisions (theorem altered_prev_is_collision)"]
    c.build_and_audit()
    explore(c, 25 if tier == "quick" else 500)
    return c.finish(search=lambda cc: explore(cc, 100))


def replay(path):
    r = json.load(open(path))
    print(json.dumps({k: (v if len(str(v)) < 1500 else str(v)[:1500]) for k, v in r.items()}, indent=1))
    b = bytes.fromhex(r.get("info", r).get("bytes", ""))
    for cmode in (0, 1, 2):
        print(cmode, "impl :", impl_verify(b, cmode)[0][:500])
        print(cmode, "model:", run_driver(["psbt.verify %d %s" % (cmode, hx(b))])[0][:500])
        for ign in (0, 1):
            print(cmode, ign, "impl  verifyall:", impl_verifyall(b, cmode, ign)[0][:500])
            print(cmode, ign, "model verifyall:", run_driver(["psbt.verifyall %d %d %s" % (cmode, ign, hx(b))])[0][:500])
    return 0
